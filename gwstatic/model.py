"""Program model: loader, scopes, class table, MRO, constant evaluation.

Pure standard library.  The analysed package is *parsed*, never imported.
"""
from __future__ import annotations

import ast
import asyncio
import builtins
import hashlib
import os
import struct
import socket
from typing import Any, Dict, List, Optional, Tuple, Union

from . import AnalysisError

PKG = "goodwe"

# stdlib modules the analysed package may name; used only to look up the real
# exception classes (for the subclass relation) - never to run repository code.
_STDLIB = {"asyncio": asyncio, "builtins": builtins, "struct": struct, "socket": socket}


def node_src(node: ast.AST) -> str:
    try:
        return ast.unparse(node)
    except Exception:  # pragma: no cover
        return "<%s>" % type(node).__name__


def norm(node: ast.AST) -> str:
    """Normalised text of an expression/statement (position independent)."""
    return " ".join(node_src(node).split())


class FuncInfo:
    def __init__(self, name, node, module, cls=None, parent=None):
        self.name: str = name
        self.node = node  # FunctionDef | AsyncFunctionDef | Lambda
        self.module: "Module" = module
        self.cls: Optional["ClassInfo"] = cls
        self.parent: Optional["FuncInfo"] = parent  # enclosing function for lambdas
        self.is_async = isinstance(node, ast.AsyncFunctionDef)
        self.is_lambda = isinstance(node, ast.Lambda)
        decos = []
        for d in getattr(node, "decorator_list", []):
            decos.append(node_src(d))
        self.decorators: List[str] = decos
        self.is_static = "staticmethod" in decos
        self.is_classmethod = "classmethod" in decos

    @property
    def qualname(self) -> str:
        if self.is_lambda:
            owner = self.parent.qualname if self.parent else (self.cls.qualname if self.cls else self.module.name)
            return "%s.<lambda@%d>" % (owner, self.node.lineno)
        if self.cls is not None:
            return "%s.%s" % (self.cls.qualname, self.name)
        return "%s.%s" % (self.module.name, self.name)

    @property
    def short(self) -> str:
        if self.is_lambda:
            owner = self.parent.short if self.parent else (self.cls.name if self.cls else self.module.short)
            return "%s.<lambda>" % owner
        if self.cls is not None:
            return "%s.%s" % (self.cls.name, self.name)
        return "%s.%s" % (self.module.short, self.name)

    @property
    def params(self) -> List[str]:
        a = self.node.args
        return [x.arg for x in a.posonlyargs + a.args]

    @property
    def body(self) -> List[ast.stmt]:
        if self.is_lambda:
            return [ast.Return(value=self.node.body, lineno=self.node.lineno, col_offset=0)]
        return self.node.body

    def loc(self, node=None) -> str:
        n = node if node is not None else self.node
        return "%s:%d" % (self.module.relpath, getattr(n, "lineno", 0))

    def __repr__(self):
        return "<func %s>" % self.qualname


class ClassInfo:
    def __init__(self, name, node, module):
        self.name: str = name
        self.node: ast.ClassDef = node
        self.module: "Module" = module
        self.bases: List[Union["ClassInfo", str]] = []  # resolved later
        self.methods: Dict[str, FuncInfo] = {}
        self.class_attrs: Dict[str, ast.expr] = {}      # name -> value expr (class level)
        self.class_attr_ann: Dict[str, ast.expr] = {}   # name -> annotation expr
        self.subclasses: List["ClassInfo"] = []
        self._mro: Optional[List[Union["ClassInfo", str]]] = None

    @property
    def qualname(self) -> str:
        return "%s.%s" % (self.module.name, self.name)

    def __repr__(self):
        return "<class %s>" % self.qualname


class Module:
    def __init__(self, name, path, relpath, source):
        self.name: str = name              # goodwe.protocol
        self.short: str = name.split(".")[-1] if "." in name else name
        self.path: str = path
        self.relpath: str = relpath        # goodwe/protocol.py
        self.source: str = source
        self.sha256: str = hashlib.sha256(source.encode("utf-8")).hexdigest()
        try:
            self.tree: ast.Module = ast.parse(source, filename=path)
        except SyntaxError as e:
            raise AnalysisError("cannot parse %s: %s" % (relpath, e))
        self.scope: Dict[str, Tuple] = {}  # name -> ('class', ClassInfo) | ('func', FuncInfo) | ('const', expr) | ('ext', dotted) | ('import', module, name) | ('module', Module)
        self.star_imports: List[str] = []
        self.global_assigns: Dict[str, List[ast.expr]] = {}


class NotConst(Exception):
    pass


class EnumVal:
    """A member of an Enum class of the analysed package."""

    def __init__(self, cls: ClassInfo, name: str, value: Any):
        self.cls, self.name, self.value = cls, name, value

    def __eq__(self, other):
        if isinstance(other, EnumVal):
            return self.cls is other.cls and self.name == other.name
        if self.cls_is_int():
            return self.value == other
        return False

    def __hash__(self):
        return hash((self.cls.qualname, self.name))

    def cls_is_int(self) -> bool:
        return any(b == "enum.IntEnum" for b in self.cls._mro or [])

    def __int__(self):
        return int(self.value)

    def __index__(self):
        return int(self.value)

    def __repr__(self):
        return "%s.%s" % (self.cls.name, self.name)


class Program:
    def __init__(self, repo: str):
        self.repo = os.path.abspath(repo)
        self.pkgdir = os.path.join(self.repo, PKG)
        if not os.path.isdir(self.pkgdir):
            raise AnalysisError("package directory %s not found" % self.pkgdir)
        self.modules: Dict[str, Module] = {}
        self.classes: Dict[str, ClassInfo] = {}    # qualname -> ClassInfo
        self.functions: List[FuncInfo] = []        # every def and lambda
        self._func_of_node: Dict[int, FuncInfo] = {}
        self._load()
        self._bind()
        self._link_classes()
        self._scan_reflection()

    # ------------------------------------------------------------------ load
    def _load(self):
        for fn in sorted(os.listdir(self.pkgdir)):
            if not fn.endswith(".py"):
                continue
            path = os.path.join(self.pkgdir, fn)
            with open(path, encoding="utf-8") as f:
                src = f.read()
            stem = fn[:-3]
            name = PKG if stem == "__init__" else "%s.%s" % (PKG, stem)
            self.modules[name] = Module(name, path, "%s/%s" % (PKG, fn), src)
        if PKG not in self.modules:
            raise AnalysisError("goodwe/__init__.py missing")
        # undo consistent renames of private identifiers (see renames.py): the rules speak the pinned vocabulary
        from .renames import canonicalise
        self.renames: Dict[str, str] = canonicalise({name: m.tree for name, m in self.modules.items()})
        from .desugar import desugar
        self.desugared: int = desugar({name: m.tree for name, m in self.modules.items()})

    def digests(self) -> Dict[str, str]:
        return {m.relpath: m.sha256 for m in self.modules.values()}

    # ------------------------------------------------------------------ bind
    def _resolve_relative(self, mod: Module, level: int, name: Optional[str]) -> str:
        if level == 0:
            return name or ""
        base = PKG  # all modules live directly in the package
        return base if not name else "%s.%s" % (base, name)

    def _bind(self):
        for mod in self.modules.values():
            for st in mod.tree.body:
                self._bind_stmt(mod, st)
        # functions and lambdas (all nesting levels)
        for mod in self.modules.values():
            self._collect_funcs(mod, mod.tree, None, None)

    def _bind_stmt(self, mod: Module, st: ast.stmt):
        if isinstance(st, ast.ImportFrom):
            target = self._resolve_relative(mod, st.level, st.module)
            for a in st.names:
                if a.name == "*":
                    mod.star_imports.append(target)
                elif target in self.modules or target.startswith(PKG):
                    mod.scope[a.asname or a.name] = ("import", target, a.name)
                else:
                    mod.scope[a.asname or a.name] = ("ext", "%s.%s" % (target, a.name))
        elif isinstance(st, ast.Import):
            for a in st.names:
                mod.scope[a.asname or a.name.split(".")[0]] = ("ext", a.name if a.asname else a.name.split(".")[0])
        elif isinstance(st, ast.ClassDef):
            ci = ClassInfo(st.name, st, mod)
            self.classes[ci.qualname] = ci
            mod.scope[st.name] = ("class", ci)
            for b in st.body:
                if isinstance(b, ast.Assign) and len(b.targets) == 1 and isinstance(b.targets[0], ast.Name):
                    ci.class_attrs[b.targets[0].id] = b.value
                elif isinstance(b, ast.AnnAssign) and isinstance(b.target, ast.Name):
                    ci.class_attr_ann[b.target.id] = b.annotation
                    if b.value is not None:
                        ci.class_attrs[b.target.id] = b.value
        elif isinstance(st, (ast.FunctionDef, ast.AsyncFunctionDef)):
            pass  # bound in _collect_funcs
        elif isinstance(st, ast.Assign):
            for t in st.targets:
                if isinstance(t, ast.Name):
                    mod.scope[t.id] = ("const", st.value)
                    mod.global_assigns.setdefault(t.id, []).append(st.value)
        elif isinstance(st, ast.AnnAssign) and isinstance(st.target, ast.Name) and st.value is not None:
            mod.scope[st.target.id] = ("const", st.value)
            mod.global_assigns.setdefault(st.target.id, []).append(st.value)

    def _collect_funcs(self, mod, node, cls, parent):
        for child in ast.iter_child_nodes(node):
            if isinstance(child, ast.ClassDef):
                ci = self.classes.get("%s.%s" % (mod.name, child.name)) if cls is None and parent is None else None
                self._collect_funcs(mod, child, ci, parent)
            elif isinstance(child, (ast.FunctionDef, ast.AsyncFunctionDef)):
                fi = FuncInfo(child.name, child, mod, cls if isinstance(node, ast.ClassDef) else (parent.cls if parent else None), parent)
                if isinstance(node, ast.ClassDef) and cls is not None:
                    cls.methods[child.name] = fi
                elif isinstance(node, ast.Module):
                    mod.scope[child.name] = ("func", fi)
                self.functions.append(fi)
                self._func_of_node[id(child)] = fi
                self._collect_funcs(mod, child, fi.cls, fi)
            elif isinstance(child, ast.Lambda):
                fi = FuncInfo("<lambda>", child, mod, cls if parent is None else parent.cls, parent)
                self.functions.append(fi)
                self._func_of_node[id(child)] = fi
                self._collect_funcs(mod, child, fi.cls, fi)
            else:
                self._collect_funcs(mod, child, cls, parent)

    def func_of(self, node) -> FuncInfo:
        return self._func_of_node[id(node)]

    # --------------------------------------------------------------- lookups
    def lookup(self, mod: Module, name: str, _seen=None) -> Optional[Tuple]:
        """Resolve a global name of module *mod* to a binding."""
        _seen = _seen or set()
        key = (mod.name, name)
        if key in _seen:
            return None
        _seen.add(key)
        b = mod.scope.get(name)
        if b is not None:
            if b[0] == "import":
                tgt = self.modules.get(b[1])
                if tgt is None:
                    sub = self.modules.get("%s.%s" % (b[1], b[2]))
                    return ("module", sub) if sub else None
                r = self.lookup(tgt, b[2], _seen)
                if r is None:
                    sub = self.modules.get("%s.%s" % (b[1], b[2]))
                    return ("module", sub) if sub else None
                return r
            return b
        for target in mod.star_imports:
            tgt = self.modules.get(target)
            if tgt is None:
                continue
            r = self.lookup(tgt, name, _seen)
            if r is not None and not name.startswith("_"):
                return r
        if hasattr(builtins, name):
            return ("ext", "builtins.%s" % name)
        return None

    def cls(self, name: str) -> ClassInfo:
        """Class by simple name (unique in this package) or qualname."""
        if name in self.classes:
            return self.classes[name]
        hits = [c for c in self.classes.values() if c.name == name]
        if len(hits) != 1:
            raise AnalysisError("class %r not found (or ambiguous) in the package" % name)
        return hits[0]

    def has_cls(self, name: str) -> bool:
        return sum(1 for c in self.classes.values() if c.name == name) == 1

    def func(self, dotted: str) -> FuncInfo:
        """'modbus.validate_modbus_rtu_response' or 'UdpInverterProtocol.send_request'."""
        head, _, meth = dotted.rpartition(".")
        for c in self.classes.values():
            if c.name == head and meth in c.methods:
                return c.methods[meth]
        m = self.modules.get("%s.%s" % (PKG, head)) or (self.modules.get(PKG) if head in ("", PKG, "__init__") else None)
        if m is not None:
            b = m.scope.get(meth)
            if b and b[0] == "func":
                return b[1]
        raise AnalysisError("anchor function %r not found in the package" % dotted)

    def has_func(self, dotted: str) -> bool:
        try:
            self.func(dotted)
            return True
        except AnalysisError:
            return False

    # --------------------------------------------------------------- classes
    def ext_name(self, mod: Module, expr: ast.expr) -> Optional[str]:
        """Dotted external name for an expression such as asyncio.DatagramProtocol."""
        if isinstance(expr, ast.Name):
            b = self.lookup(mod, expr.id)
            if b and b[0] == "ext":
                return b[1]
            return None
        if isinstance(expr, ast.Attribute):
            base = self.ext_name(mod, expr.value)
            if base:
                return "%s.%s" % (base, expr.attr)
        return None

    def _link_classes(self):
        for ci in self.classes.values():
            for b in ci.node.bases:
                r = None
                if isinstance(b, ast.Name):
                    bd = self.lookup(ci.module, b.id)
                    if bd and bd[0] == "class":
                        r = bd[1]
                if r is None:
                    r = self.ext_name(ci.module, b)
                if r is None:
                    raise AnalysisError("cannot resolve base %s of class %s" % (node_src(b), ci.qualname))
                ci.bases.append(r)
                if isinstance(r, ClassInfo):
                    r.subclasses.append(ci)
        for ci in self.classes.values():
            self.mro(ci)

    def mro(self, ci: ClassInfo) -> List[Union[ClassInfo, str]]:
        if ci._mro is not None:
            return ci._mro
        seqs = []
        for b in ci.bases:
            seqs.append(list(self.mro(b)) if isinstance(b, ClassInfo) else [b])
        seqs.append(list(ci.bases))
        res: List[Union[ClassInfo, str]] = [ci]
        seqs = [s for s in seqs if s]
        while seqs:
            for s in seqs:
                cand = s[0]
                if not any(cand in t[1:] for t in seqs):
                    break
            else:
                raise AnalysisError("inconsistent MRO for %s" % ci.qualname)
            res.append(cand)
            seqs = [[x for x in s if x is not cand and x != cand] for s in seqs]
            seqs = [s for s in seqs if s]
        ci._mro = res
        return res

    def all_subclasses(self, ci: ClassInfo, include_self=True) -> List[ClassInfo]:
        out = [ci] if include_self else []
        for s in ci.subclasses:
            for x in self.all_subclasses(s, True):
                if x not in out:
                    out.append(x)
        return out

    def find_method(self, ci: ClassInfo, name: str, after: Optional[ClassInfo] = None) -> Optional[FuncInfo]:
        """Method *name* as seen from class ci (MRO lookup); *after*: start after that class (super())."""
        started = after is None
        for c in self.mro(ci):
            if not started:
                if c is after:
                    started = True
                continue
            if isinstance(c, ClassInfo) and name in c.methods:
                return c.methods[name]
        return None

    def method_overrides(self, ci: ClassInfo, name: str) -> List[FuncInfo]:
        """All implementations a call ``x.name()`` may reach when the static type of x is ci."""
        out: List[FuncInfo] = []
        for c in self.all_subclasses(ci):
            m = self.find_method(c, name)
            if m is not None and m not in out:
                out.append(m)
        return out

    def is_subclass(self, a: Union[ClassInfo, str, type], b: Union[ClassInfo, str, type]) -> bool:
        a = self.ext_class(a) if isinstance(a, str) else a
        b = self.ext_class(b) if isinstance(b, str) else b
        if isinstance(a, ClassInfo):
            for c in self.mro(a):
                if isinstance(b, ClassInfo):
                    if c is b:
                        return True
                elif isinstance(c, str):
                    rc = self.ext_class(c)
                    if isinstance(rc, type) and isinstance(b, type) and issubclass(rc, b):
                        return True
            return False
        if isinstance(b, ClassInfo):
            return False
        return isinstance(a, type) and isinstance(b, type) and issubclass(a, b)

    @staticmethod
    def ext_class(dotted: str):
        """Real class object for a stdlib dotted name (builtins.OSError, asyncio.CancelledError)."""
        parts = dotted.split(".")
        if parts[0] in _STDLIB:
            obj = _STDLIB[parts[0]]
            for p in parts[1:]:
                obj = getattr(obj, p, None)
                if obj is None:
                    return dotted
            return obj
        if len(parts) == 1 and hasattr(builtins, dotted):
            return getattr(builtins, dotted)
        return dotted

    @staticmethod
    def exc_name(t) -> str:
        if isinstance(t, ClassInfo):
            return t.name
        if isinstance(t, type):
            return t.__name__ if t.__module__ == "builtins" else "%s.%s" % (t.__module__.split(".")[0], t.__name__)
        return str(t)

    def resolve_exc_expr(self, mod: Module, expr: ast.expr, _depth: int = 0) -> List[Union[ClassInfo, type, str]]:
        """Classes named by an ``except`` clause expression."""
        if isinstance(expr, ast.Tuple):
            out = []
            for e in expr.elts:
                out.extend(self.resolve_exc_expr(mod, e, _depth))
            return out
        if isinstance(expr, ast.Name):
            b = self.lookup(mod, expr.id)
            if b and b[0] == "class":
                return [b[1]]
            if b and b[0] == "func" and _depth < 3:
                # raise make_error(...): the classes of what the factory function returns
                out = []
                for r in ast.walk(b[1].node):
                    if isinstance(r, ast.Return) and r.value is not None:
                        v = r.value.func if isinstance(r.value, ast.Call) else r.value
                        out.extend(self.resolve_exc_expr(b[1].module, v, _depth + 1))
                if out:
                    return list(dict.fromkeys(out))
        if isinstance(expr, ast.Attribute) and isinstance(expr.value, ast.Name) and expr.value.id in ("self", "cls") and _depth < 3:
            # raise self._make_error(...): what the methods of that name (any class of the module) return
            out = []
            for f in self.functions:
                if f.cls is not None and f.module is mod and f.name == expr.attr and not f.is_lambda:
                    for r in ast.walk(f.node):
                        if isinstance(r, ast.Return) and r.value is not None:
                            v = r.value.func if isinstance(r.value, ast.Call) else r.value
                            out.extend(self.resolve_exc_expr(f.module, v, _depth + 1))
            if out:
                return list(dict.fromkeys(out))
        n = self.ext_name(mod, expr)
        if n:
            return [self.ext_class(n)]
        raise AnalysisError("cannot resolve exception class %s in %s" % (node_src(expr), mod.relpath))

    # ------------------------------------------------------------ reflection
    def _scan_reflection(self):
        """The class-hierarchy call resolution is sound only without reflection."""
        self.reflection: List[str] = []
        allowed_decos = {"staticmethod", "classmethod", "dataclass", "abstractmethod", "property"}   # property getters are call-graph edges (calls.properties)
        for mod in self.modules.values():
            for n in ast.walk(mod.tree):
                if isinstance(n, ast.Call) and isinstance(n.func, ast.Name) and n.func.id in (
                        "getattr", "setattr", "eval", "exec", "__import__", "delattr", "globals", "locals", "vars"):
                    self.reflection.append("%s:%d %s" % (mod.relpath, n.lineno, n.func.id))
                if isinstance(n, ast.Attribute) and n.attr in ("__dict__", "__class__", "__getattribute__", "__setattr__"):
                    self.reflection.append("%s:%d .%s" % (mod.relpath, n.lineno, n.attr))
                if isinstance(n, (ast.FunctionDef, ast.AsyncFunctionDef, ast.ClassDef)):
                    for d in n.decorator_list:
                        dn = node_src(d).split("(")[0].split(".")[-1]
                        if dn not in allowed_decos:
                            self.reflection.append("%s:%d decorator @%s" % (mod.relpath, n.lineno, node_src(d)))
                if isinstance(n, (ast.FunctionDef, ast.AsyncFunctionDef)) and n.name in ("__getattr__", "__getattribute__", "__setattr__"):
                    self.reflection.append("%s:%d def %s" % (mod.relpath, n.lineno, n.name))
        if self.reflection:
            raise AnalysisError("reflection/unknown decorators make class-hierarchy call resolution unsound: %s" % "; ".join(self.reflection[:5]))

    # -------------------------------------------------------------- enum API
    def enum_members(self, ci: ClassInfo) -> Dict[str, EnumVal]:
        out = {}
        for k, v in ci.class_attrs.items():
            if k.startswith("_"):
                continue
            try:
                out[k] = EnumVal(ci, k, self.consteval(v, ci.module))
            except NotConst:
                pass
        return out

    def is_enum(self, ci: ClassInfo) -> bool:
        return any(isinstance(b, str) and b.startswith("enum.") for b in self.mro(ci))

    # ---------------------------------------------------------- const folding
    def consteval(self, expr: ast.expr, mod: Module, env: Optional[Dict[str, Any]] = None, cls: Optional[ClassInfo] = None) -> Any:
        """Fold an expression to a Python value or raise NotConst."""
        env = env or {}
        ev = lambda e: self.consteval(e, mod, env, cls)
        if isinstance(expr, ast.Constant):
            return expr.value
        if isinstance(expr, ast.Name):
            if expr.id in env:
                v = env[expr.id]
                if isinstance(v, _Unknown):
                    raise NotConst(expr.id)
                return v
            b = self.lookup(mod, expr.id)
            if b is None:
                raise NotConst(expr.id)
            if b[0] == "const":
                owner = self._owner_module(mod, expr.id)
                if len(owner.global_assigns.get(expr.id, [])) > 1 or self._is_global_mutated(owner, expr.id):
                    raise NotConst("%s is re-assigned" % expr.id)
                return self.consteval(b[1], owner)
            if b[0] == "class":
                return b[1]
            if b[0] == "func":
                return b[1]
            raise NotConst(expr.id)
        if isinstance(expr, ast.Attribute):
            base = None
            try:
                base = ev(expr.value)
            except NotConst:
                pass
            if isinstance(base, ClassInfo):
                if self.is_enum(base):
                    m = self.enum_members(base)
                    if expr.attr in m:
                        return m[expr.attr]
                for c in self.mro(base):
                    if isinstance(c, ClassInfo) and expr.attr in c.class_attrs:
                        return self.consteval(c.class_attrs[expr.attr], c.module, None, c)
            if base is not None and not isinstance(base, (ClassInfo, EnumVal, FuncInfo, str, bytes, int, float, tuple, list, dict)) \
                    and hasattr(base, "__dict__") and expr.attr in vars(base):
                return vars(base)[expr.attr]
            if isinstance(base, EnumVal) and expr.attr == "value":
                return base.value
            if isinstance(base, EnumVal) and expr.attr == "name":
                return base.name
            raise NotConst(node_src(expr))
        if isinstance(expr, ast.Tuple):
            return tuple(ev(e) for e in expr.elts)
        if isinstance(expr, ast.List):
            return [ev(e) for e in expr.elts]
        if isinstance(expr, ast.Set):
            return set(ev(e) for e in expr.elts)
        if isinstance(expr, ast.Dict):
            d = {}
            for k, v in zip(expr.keys, expr.values):
                if k is None:
                    d.update(ev(v))
                else:
                    d[ev(k)] = ev(v)
            return d
        if isinstance(expr, ast.UnaryOp):
            v = ev(expr.operand)
            if isinstance(v, EnumVal):
                v = v.value
            if isinstance(expr.op, ast.USub):
                return -v
            if isinstance(expr.op, ast.UAdd):
                return +v
            if isinstance(expr.op, ast.Not):
                return not v
            if isinstance(expr.op, ast.Invert):
                return ~v
        if isinstance(expr, ast.BinOp):
            l, r = ev(expr.left), ev(expr.right)
            if isinstance(l, EnumVal):
                l = l.value
            if isinstance(r, EnumVal):
                r = r.value
            try:
                return _BINOPS[type(expr.op)](l, r)
            except NotConst:
                raise
            except Exception as e:
                raise NotConst("binop failed: %s" % e)
        if isinstance(expr, ast.BoolOp):
            vals = [ev(e) for e in expr.values]
            if isinstance(expr.op, ast.And):
                r = True
                for v in vals:
                    r = v
                    if not v:
                        break
                return r
            r = False
            for v in vals:
                r = v
                if v:
                    break
            return r
        if isinstance(expr, ast.Compare):
            l = ev(expr.left)
            for op, c in zip(expr.ops, expr.comparators):
                r = ev(c)
                try:
                    ok = _CMPOPS[type(op)](l, r)
                except Exception as e:
                    raise NotConst(str(e))
                if not ok:
                    return False
                l = r
            return True
        if isinstance(expr, ast.IfExp):
            return ev(expr.body) if ev(expr.test) else ev(expr.orelse)
        if isinstance(expr, ast.Subscript):
            v = ev(expr.value)
            if isinstance(expr.slice, ast.Slice):
                lo = ev(expr.slice.lower) if expr.slice.lower else None
                hi = ev(expr.slice.upper) if expr.slice.upper else None
                st = ev(expr.slice.step) if expr.slice.step else None
                return v[lo:hi:st]
            try:
                return v[ev(expr.slice)]
            except NotConst:
                raise
            except Exception as e:
                raise NotConst(str(e))
        if isinstance(expr, ast.JoinedStr):
            out = []
            for part in expr.values:
                if isinstance(part, ast.Constant):
                    out.append(str(part.value))
                else:
                    val = ev(part.value)
                    if isinstance(val, EnumVal):
                        val = val.value
                    spec = ev(part.format_spec) if part.format_spec is not None else ""
                    if part.conversion == 115:
                        val = str(val)
                    elif part.conversion == 114:
                        val = repr(val)
                    try:
                        out.append(format(val, spec))
                    except Exception as e:
                        raise NotConst(str(e))
            return "".join(out)
        if isinstance(expr, ast.Call):
            return self._consteval_call(expr, mod, env, cls)
        if isinstance(expr, ast.Lambda):
            return expr
        if isinstance(expr, (ast.GeneratorExp, ast.ListComp, ast.SetComp, ast.DictComp)):
            return self._consteval_comp(expr, mod, env, cls)
        raise NotConst(type(expr).__name__)

    def _consteval_comp(self, expr, mod, env, cls):
        """Comprehensions over constant iterables (bounded)."""
        out = []
        budget = [20000]

        def bind(t, v, e2):
            if isinstance(t, ast.Name):
                e2[t.id] = v
            elif isinstance(t, (ast.Tuple, ast.List)):
                vs = list(v)
                if len(vs) != len(t.elts):
                    raise NotConst("unpacking in comprehension")
                for a, b in zip(t.elts, vs):
                    bind(a, b, e2)
            else:
                raise NotConst("comprehension target")

        def rec(k, e2):
            if k == len(expr.generators):
                if isinstance(expr, ast.DictComp):
                    out.append((self.consteval(expr.key, mod, e2, cls), self.consteval(expr.value, mod, e2, cls)))
                else:
                    out.append(self.consteval(expr.elt, mod, e2, cls))
                return
            g = expr.generators[k]
            if g.is_async:
                raise NotConst("async comprehension")
            it = self.consteval(g.iter, mod, e2, cls)
            if isinstance(it, ClassInfo) and self.is_enum(it):
                it = list(self.enum_members(it).values())      # iterating an Enum class yields its members in order
            for item in it:
                budget[0] -= 1
                if budget[0] < 0:
                    raise NotConst("comprehension too large")
                e3 = dict(e2)
                bind(g.target, item, e3)
                if all(self.consteval(c, mod, e3, cls) for c in g.ifs):
                    rec(k + 1, e3)
        rec(0, dict(env))
        if isinstance(expr, ast.DictComp):
            return dict(out)
        if isinstance(expr, ast.SetComp):
            return set(out)
        return out

    def _owner_module(self, mod: Module, name: str, _seen=None) -> Module:
        _seen = _seen or set()
        if mod.name in _seen:
            return mod
        _seen.add(mod.name)
        b = mod.scope.get(name)
        if b is not None:
            if b[0] == "import" and b[1] in self.modules:
                return self._owner_module(self.modules[b[1]], b[2], _seen)
            return mod
        for t in mod.star_imports:
            tm = self.modules.get(t)
            if tm is not None and self.lookup(tm, name) is not None:
                return self._owner_module(tm, name, _seen)
        return mod

    def _is_global_mutated(self, mod: Module, name: str) -> bool:
        for fn in ast.walk(mod.tree):
            if isinstance(fn, ast.Global) and name in fn.names:
                return True
        return False

    def _consteval_call(self, expr: ast.Call, mod, env, cls):
        ev = lambda e: self.consteval(e, mod, env, cls)
        f = expr.func
        args = [ev(a) for a in expr.args]
        kw = {k.arg: ev(k.value) for k in expr.keywords if k.arg}
        plain = lambda v: v.value if isinstance(v, EnumVal) else (list(self.enum_members(v).values()) if isinstance(v, ClassInfo) and self.is_enum(v) else v)
        args = [plain(a) for a in args]
        try:
            if isinstance(f, ast.Name) and f.id in _PURE_BUILTINS and self.lookup(mod, f.id) == ("ext", "builtins.%s" % f.id):
                return _PURE_BUILTINS[f.id](*args, **kw)
            ext = self.ext_name(mod, f) if isinstance(f, (ast.Name, ast.Attribute)) else None
            if ext in _PURE_EXT:
                return _PURE_EXT[ext](*args, **kw)
            if isinstance(f, ast.Attribute):
                if isinstance(f.value, ast.Name) and f.value.id in ("bytes", "int") and f.attr in ("fromhex", "from_bytes", "to_bytes"):
                    return getattr(getattr(builtins, f.value.id), f.attr)(*args, **kw)
                recv = ev(f.value)
                if isinstance(recv, (str, bytes, tuple, int, dict)) and f.attr in _PURE_METHODS:
                    return getattr(recv, f.attr)(*args, **kw)
        except NotConst:
            raise
        except Exception as e:
            raise NotConst("call failed: %s" % e)
        # a package function applied to constants: fold it (pure helper such as model._has_any_tag)
        if isinstance(f, ast.Name) and not expr.keywords:
            b = self.lookup(mod, f.id)
            depth = env.get("__fold_depth__", 0) if isinstance(env, dict) else 0
            if b and b[0] == "func" and depth < 4 and not b[1].is_async:
                from .constfold import fold_function
                g = b[1]
                if len(args) <= len(g.params):
                    a2 = dict(zip(g.params, args))
                    defaults = g.node.args.defaults
                    for pn, d in zip(g.params[len(g.params) - len(defaults):], defaults):
                        if pn not in a2:
                            a2[pn] = self.consteval(d, g.module)
                    a2["__fold_depth__"] = depth + 1
                    if all(pn in a2 for pn in g.params):
                        return fold_function(self, g, args=a2)
        raise NotConst(node_src(expr))


class _Unknown:
    """Environment marker: the name is bound but its value is not known."""

    def __repr__(self):
        return "?"


UNKNOWN = _Unknown()

_PURE_BUILTINS = {"len": len, "int": int, "abs": abs, "min": min, "max": max, "tuple": tuple, "str": str,
                  "float": float, "bool": bool, "bytes": bytes, "round": round, "hex": hex, "list": list,
                  "sum": sum, "range": range, "sorted": sorted, "set": set, "dict": dict, "frozenset": frozenset,
                  "any": any, "all": all, "zip": zip, "enumerate": enumerate, "reversed": reversed, "bin": bin, "divmod": divmod}
_PURE_METHODS = {"hex", "format", "upper", "lower", "encode", "decode", "startswith", "endswith", "strip", "rstrip",
                 "lstrip", "to_bytes", "get", "keys", "values", "items", "count", "index", "join", "split", "replace",
                 "bit_length"}

import operator as _op
import bisect as _bisect

_PURE_EXT = {"bisect.bisect_left": _bisect.bisect_left, "bisect.bisect_right": _bisect.bisect_right, "bisect.bisect": _bisect.bisect,
             "operator.itemgetter": _op.itemgetter, "operator.attrgetter": _op.attrgetter}

_BINOPS = {ast.Add: _op.add, ast.Sub: _op.sub, ast.Mult: _op.mul, ast.Div: _op.truediv, ast.FloorDiv: _op.floordiv,
           ast.Mod: _op.mod, ast.Pow: _op.pow, ast.LShift: _op.lshift, ast.RShift: _op.rshift, ast.BitOr: _op.or_,
           ast.BitAnd: _op.and_, ast.BitXor: _op.xor}
_CMPOPS = {ast.Eq: _op.eq, ast.NotEq: _op.ne, ast.Lt: _op.lt, ast.LtE: _op.le, ast.Gt: _op.gt, ast.GtE: _op.ge,
           ast.In: lambda a, b: a in b, ast.NotIn: lambda a, b: a not in b, ast.Is: _op.is_, ast.IsNot: _op.is_not}
