"""Receiver typing and call resolution (class-hierarchy analysis).

Types are small tagged tuples:
  ("inst", ClassInfo)   instance of a package class (or a subclass)
  ("cls", ClassInfo)    the class object itself
  ("func", FuncInfo)    a package function / lambda object
  ("ext", dotted)       something from outside the package (instance, module or callable)
  ("seq", (types...))   container whose elements have these types
"""
from __future__ import annotations

import ast
from typing import Dict, List, Optional, Tuple

from . import AnalysisError
from .model import Program, FuncInfo, ClassInfo, Module, node_src, norm


class CallTarget:
    """Resolution of one ast.Call."""

    def __init__(self, node: ast.Call, caller: FuncInfo):
        self.node = node
        self.caller = caller
        self.funcs: List[FuncInfo] = []      # package functions it may invoke
        self.ctor: Optional[ClassInfo] = None  # constructor call of a package class
        self.ext: Optional[str] = None       # dotted name of an external callable ("asyncio.Future.set_result")
        self.unresolved: bool = False
        self.bound_self: bool = False        # True when funcs are methods called on an instance (self bound)

    def __repr__(self):
        return "<call %s -> %s%s%s>" % (norm(self.node.func), [f.short for f in self.funcs],
                                        " ctor=%s" % self.ctor.name if self.ctor else "",
                                        " ext=%s" % self.ext if self.ext else "")


def arity_error(prog: Program, res: "Resolver", call: ast.Call, fn: FuncInfo) -> Optional[str]:
    """Why the call raises TypeError before the callee runs (missing / surplus / unknown arguments), for calls that
    name a package class or module-level function directly; None when the arguments fit or the callee is not certain."""
    if any(isinstance(a, ast.Starred) for a in call.args) or any(k.arg is None for k in call.keywords):
        return None
    f = call.func
    if not isinstance(f, ast.Name):
        return None
    if f.id in res.local_types(fn):
        return None          # a local of that name shadows the module binding
    b = prog.lookup(fn.module, f.id)
    if b is None:
        return None
    skip = 0
    if b[0] == "class":
        if prog.is_enum(b[1]) or any(m in c.methods for c in prog.mro(b[1]) if isinstance(c, ClassInfo) for m in ("__new__", "__call__")) \
                or b[1].node.decorator_list or any(k for k in b[1].node.keywords):
            return None
        target = prog.find_method(b[1], "__init__")
        skip = 1
        what = "%s()" % b[1].name
    elif b[0] == "func":
        target = b[1]
        what = "%s()" % b[1].short
        if target.node.decorator_list:
            return None
    else:
        return None
    if target is None or target.is_lambda:
        return None
    a = target.node.args
    allpos = a.posonlyargs + a.args
    nreq = len(allpos) - len(a.defaults)
    pos = allpos[skip:]
    required = allpos[skip:max(nreq, skip)]
    npos = len(call.args)
    kw = [k.arg for k in call.keywords]
    if npos > len(pos) and a.vararg is None:
        return "%s takes %d positional argument(s) but %d are given" % (what, len(pos), npos)
    missing = [p_.arg for i, p_ in enumerate(required) if i >= npos and p_.arg not in kw]
    missing += [p_.arg for p_, d in zip(a.kwonlyargs, a.kw_defaults) if d is None and p_.arg not in kw]
    if missing:
        return "%s is called without its required argument%s %s" % (what, "s" if len(missing) > 1 else "", ", ".join(missing))
    names = {p_.arg for p_ in a.args[skip if not a.posonlyargs else 0:]} | {p_.arg for p_ in a.kwonlyargs}
    unknown = [k for k in kw if k not in names]
    if unknown and a.kwarg is None:
        return "%s got an unexpected keyword argument %s" % (what, unknown[0])
    dup = [p_.arg for i, p_ in enumerate(pos) if i < npos and p_.arg in kw]
    if dup:
        return "%s got multiple values for argument %s" % (what, dup[0])
    return None


def argtype_error(prog: Program, res: "Resolver", call: ast.Call, fn: FuncInfo) -> Optional[str]:
    """A positional argument whose inferred type cannot be what the parameter is annotated with: an object of a
    package class handed to a parameter annotated as a tuple / list / dict (or the reverse), or an object of a package
    class unrelated to the annotated one.  Only for calls that resolve to exactly one package function; None when
    nothing is certain (no annotation, no inferred type, Any / Optional of something else ...)."""
    if any(isinstance(a, ast.Starred) for a in call.args) or not call.args:
        return None
    try:
        ct = res.resolve_call(call, fn)
    except Exception:
        return None
    if ct.unresolved or ct.ext or len(ct.funcs) != 1:
        return None
    g = ct.funcs[0]
    if g.is_lambda or g.node.decorator_list and not (g.is_static or g.is_classmethod):
        return None
    a = g.node.args
    params = a.posonlyargs + a.args
    skip = 1 if (ct.bound_self or ct.ctor is not None) and params and params[0].arg in ("self", "cls") else 0
    params = params[skip:]

    def shape(ts):
        kinds = set()
        for t in ts:
            if t[0] == "inst" and isinstance(t[1], ClassInfo):
                kinds.add(("inst", t[1]))
            elif t[0] == "seq":
                kinds.add(("seq", None))
            else:
                return None          # external / unknown component: nothing certain
        return kinds or None

    for i, arg in enumerate(call.args):
        if i >= len(params) or params[i].annotation is None:
            continue
        want = shape(res.ann_types(g.module, params[i].annotation))
        ann = params[i].annotation
        if isinstance(arg, ast.Constant) and isinstance(arg.value, int) and not isinstance(arg.value, bool) and isinstance(ann, ast.Name) \
                and (ann.id in ("bytes", "bytearray", "str", "list", "tuple", "dict", "set") or (want and all(k == "inst" for k, _ in want))):
            return "argument %d of %s is the integer constant %r where a %s is expected" % (i + 1, g.short, arg.value, ann.id)
        try:
            got = shape(res.expr_types(arg, fn))
        except Exception:
            got = None
        if not want or not got:
            continue
        ok = False
        for k1, c1 in got:
            for k2, c2 in want:
                if k1 == k2 == "seq":
                    ok = True
                elif k1 == k2 == "inst" and (prog.is_subclass(c1, c2) or prog.is_subclass(c2, c1)):
                    ok = True
        if not ok:
            return "argument %d of %s is %s where a %s is expected" % (
                i + 1, g.short, "/".join(sorted(c.name if c else "sequence" for _, c in got)), "/".join(sorted(c.name if c else "sequence" for _, c in want)))
    return None


class Resolver:
    def __init__(self, prog: Program):
        self.prog = prog
        self._attr_types: Dict[Tuple[str, str], List[Tuple]] = {}
        self._local_types: Dict[int, Dict[str, List[Tuple]]] = {}
        self._calls: Dict[int, CallTarget] = {}
        self._calls_in: Dict[int, List[CallTarget]] = {}
        self._stored_callables: Optional[Dict[Tuple[str, str], List[FuncInfo]]] = None
        self._callers: Optional[Dict[str, List[CallTarget]]] = None
        self._building = 0  # >0 while local types are being computed: call resolutions are provisional

    # ------------------------------------------------------------ annotations
    def ann_types(self, mod: Module, ann: Optional[ast.expr]) -> List[Tuple]:
        if ann is None:
            return []
        if isinstance(ann, ast.Constant):
            if ann.value is None:
                return []
            if isinstance(ann.value, str):
                try:
                    return self.ann_types(mod, ast.parse(ann.value, mode="eval").body)
                except SyntaxError:
                    return []
            return []
        if isinstance(ann, ast.BinOp) and isinstance(ann.op, ast.BitOr):
            return self.ann_types(mod, ann.left) + self.ann_types(mod, ann.right)
        if isinstance(ann, ast.Subscript):
            head = node_src(ann.value).split(".")[-1]
            if head in ("Optional", "Union"):
                elts = ann.slice.elts if isinstance(ann.slice, ast.Tuple) else [ann.slice]
                out = []
                for e in elts:
                    out += self.ann_types(mod, e)
                return out
            if head in ("tuple", "Tuple", "list", "List", "set", "Set", "frozenset", "Sequence", "Iterable"):
                elts = ann.slice.elts if isinstance(ann.slice, ast.Tuple) else [ann.slice]
                el = []
                for e in elts:
                    if isinstance(e, ast.Constant) and e.value is Ellipsis:
                        continue
                    el += self.ann_types(mod, e)
                return [("seq", tuple(el))]
            if head in ("dict", "Dict", "Mapping"):
                elts = ann.slice.elts if isinstance(ann.slice, ast.Tuple) else [ann.slice]
                return [("seq", tuple(self.ann_types(mod, elts[-1])))]
            if head == "Callable":
                return [("ext", "typing.Callable")]
            return self.ann_types(mod, ann.value)
        if isinstance(ann, ast.Name):
            b = self.prog.lookup(mod, ann.id)
            if b and b[0] == "class":
                return [("inst", b[1])]
            if b and b[0] == "ext":
                return [("ext", b[1])]
            return []
        if isinstance(ann, ast.Attribute):
            n = self.prog.ext_name(mod, ann)
            return [("ext", n)] if n else []
        return []

    # --------------------------------------------------------- attribute types
    def attr_types(self, ci: ClassInfo, attr: str) -> List[Tuple]:
        """Types of ``self.<attr>`` for an instance whose static class is ci."""
        key = (ci.qualname, attr)
        if key in self._attr_types:
            return self._attr_types[key]
        self._attr_types[key] = []  # recursion guard
        out: List[Tuple] = []
        classes = [c for c in self.prog.mro(ci) if isinstance(c, ClassInfo)] + self.prog.all_subclasses(ci, False)
        for c in classes:
            lookup_attr = attr
            if attr in c.class_attr_ann:
                out += self.ann_types(c.module, c.class_attr_ann[attr])
            elif attr in c.class_attrs:
                out += self._value_types(c.class_attrs[attr], c.module, None)
            for m in c.methods.values():
                for n in ast.walk(m.node):
                    if isinstance(n, ast.AnnAssign) and _is_self_attr(n.target, lookup_attr):
                        out += self.ann_types(c.module, n.annotation)
        if not out:
            for c in classes:
                for m in c.methods.values():
                    for n in ast.walk(m.node):
                        if isinstance(n, ast.Assign):
                            for t in n.targets:
                                if _is_self_attr(t, attr):
                                    out += self.expr_types(n.value, m)
        out = _dedup(out)
        self._attr_types[key] = out
        return out

    def _value_types(self, value: ast.expr, mod: Module, fn: Optional[FuncInfo]) -> List[Tuple]:
        if isinstance(value, ast.Call) and isinstance(value.func, ast.Name):
            b = self.prog.lookup(mod, value.func.id)
            if b and b[0] == "class":
                return [("inst", b[1])]
        if isinstance(value, (ast.Tuple, ast.List)):
            el = []
            for e in value.elts:
                el += self._value_types(e, mod, fn)
            return [("seq", tuple(_dedup(el)))]
        return []

    # -------------------------------------------------------------- local vars
    def local_types(self, fn: FuncInfo) -> Dict[str, List[Tuple]]:
        key = id(fn.node)
        if key in self._local_types:
            return self._local_types[key]
        env: Dict[str, List[Tuple]] = {}
        self._local_types[key] = env
        self._building += 1
        try:
            self._compute_local_types(fn, env)
        finally:
            self._building -= 1
        return env

    def _compute_local_types(self, fn: FuncInfo, env) -> None:
        args = fn.node.args
        allargs = args.posonlyargs + args.args + args.kwonlyargs
        for i, a in enumerate(allargs):
            if i == 0 and fn.cls is not None and not fn.is_static and not fn.is_lambda and a.arg in ("self", "cls"):
                env[a.arg] = [("cls" if fn.is_classmethod else "inst", fn.cls)]
            elif a.annotation is not None:
                env[a.arg] = self.ann_types(fn.module, a.annotation)
        if fn.is_lambda and fn.parent is not None:
            for k, v in self.local_types(fn.parent).items():
                env.setdefault(k, v)
        if fn.is_lambda:
            self._lambda_param_types(fn, env)
        # two passes so that later uses see earlier assignments (flow-insensitive union)
        for _ in range(2):
            for n in self._own_nodes(fn):
                if isinstance(n, ast.AnnAssign) and isinstance(n.target, ast.Name):
                    env[n.target.id] = _dedup(env.get(n.target.id, []) + self.ann_types(fn.module, n.annotation))
                elif isinstance(n, ast.Assign):
                    for t in n.targets:
                        if isinstance(t, ast.Name):
                            ts = self.expr_types(n.value, fn)
                            if ts:
                                env[t.id] = _dedup(env.get(t.id, []) + ts)
                        elif isinstance(t, ast.Tuple) and isinstance(n.value, ast.Await):
                            pass
                elif isinstance(n, (ast.For, ast.comprehension)):
                    tgt = n.target
                    if isinstance(tgt, ast.Name):
                        its = self.expr_types(n.iter, fn)
                        el = []
                        for t in its:
                            if t[0] == "seq":
                                el += list(t[1])
                        if el:
                            env[tgt.id] = _dedup(env.get(tgt.id, []) + el)
                elif isinstance(n, ast.ExceptHandler) and n.name and n.type is not None:
                    ts = []
                    for c in self.prog.resolve_exc_expr(fn.module, n.type):
                        if isinstance(c, ClassInfo):
                            ts.append(("inst", c))
                        else:
                            ts.append(("ext", self.prog.exc_name(c)))
                    env[n.name] = _dedup(env.get(n.name, []) + ts)

    def _lambda_param_types(self, fn: FuncInfo, env):
        """Table lambdas ``lambda data: ...`` handed to Calculated(...) take a ProtocolResponse;
        filter lambdas ``lambda s: ...`` take a Sensor.  Derived from the declared Callable
        annotation of the parameter they are bound to, where the call is a constructor."""
        params = [a.arg for a in fn.node.args.args]
        if not params:
            return
        if self.prog.has_cls("ProtocolResponse") and params == ["data"]:
            env.setdefault("data", [("inst", self.prog.cls("ProtocolResponse"))])
        if self.prog.has_cls("Sensor") and params == ["s"]:
            env.setdefault("s", [("inst", self.prog.cls("Sensor"))])

    def _own_nodes(self, fn: FuncInfo):
        """Nodes of fn's body excluding nested defs/lambdas (comprehensions included)."""
        stack = list(fn.node.body) if not fn.is_lambda else [fn.node.body]
        while stack:
            n = stack.pop()
            yield n
            for c in ast.iter_child_nodes(n):
                if isinstance(c, (ast.FunctionDef, ast.AsyncFunctionDef, ast.Lambda, ast.ClassDef)):
                    continue
                stack.append(c)

    def _inferred_return_types(self, f: FuncInfo) -> List[Tuple]:
        """Types of what an unannotated package function returns: the union over its return expressions (instances
        of package classes only; recursion and cycles give nothing)."""
        cache = self.__dict__.setdefault("_ret_types", {})
        if f.qualname in cache:
            return cache[f.qualname] or []
        cache[f.qualname] = None          # in progress
        out: List[Tuple] = []
        if not self._building:
            for n in self._own_nodes(f):
                if isinstance(n, ast.Return) and n.value is not None:
                    try:
                        out += [t for t in self.expr_types(n.value, f) if t[0] == "inst"]
                    except RecursionError:
                        pass
            cache[f.qualname] = _dedup(out)
        else:
            del cache[f.qualname]         # provisional environment: do not remember
        return _dedup(out)

    # ------------------------------------------------------------- expr types
    def expr_types(self, e: ast.expr, fn: FuncInfo) -> List[Tuple]:
        prog = self.prog
        if isinstance(e, ast.Await):
            return self.expr_types(e.value, fn)
        if isinstance(e, ast.Name):
            env = self.local_types(fn)
            if e.id in env:
                return env[e.id]
            b = prog.lookup(fn.module, e.id)
            if b is None:
                return []
            if b[0] == "class":
                return [("cls", b[1])]
            if b[0] == "func":
                return [("func", b[1])]
            if b[0] == "ext":
                return [("ext", b[1])]
            if b[0] == "const":
                owner = prog._owner_module(fn.module, e.id)
                return self._value_types(b[1], owner, None) or self._const_type(b[1], owner)
            if b[0] == "module":
                return [("ext", b[1].name)]
            return []
        if isinstance(e, ast.Attribute):
            base = self.expr_types(e.value, fn)
            out: List[Tuple] = []
            for t in base:
                if t[0] == "inst":
                    ci = t[1]
                    name = e.attr
                    # private name mangling: self.__x inside class C is C's own attribute
                    if name.startswith("__") and not name.endswith("__") and fn.cls is not None:
                        if name in fn.cls.class_attrs:
                            out += self.attr_types(fn.cls, name)
                            continue
                    m = prog.find_method(ci, name)
                    at = self.attr_types(ci, name)
                    if at:
                        out += at
                    elif m is not None:
                        out.append(("func", m))
                elif t[0] == "cls":
                    m = prog.find_method(t[1], e.attr)
                    if m is not None:
                        out.append(("func", m))
                    else:
                        out += self.attr_types(t[1], e.attr)
                elif t[0] == "ext":
                    out.append(("ext", "%s.%s" % (t[1], e.attr)))
            return _dedup(out)
        if isinstance(e, ast.Call):
            ct = self.resolve_call(e, fn)
            out = []
            if ct.ctor is not None:
                out.append(("inst", ct.ctor))
            for f in ct.funcs:
                if not f.is_lambda and f.node.returns is not None:
                    out += self.ann_types(f.module, f.node.returns)
                elif not f.is_lambda:
                    out += self._inferred_return_types(f)
            if ct.ext:
                if ct.ext in ("builtins.tuple", "builtins.list", "builtins.filter", "builtins.sorted") and e.args:
                    return self.expr_types(e.args[-1], fn)
                if ct.ext.endswith(".get") or ct.ext.endswith(".pop"):
                    recv = self.expr_types(e.func.value, fn) if isinstance(e.func, ast.Attribute) else []
                    for t in recv:
                        if t[0] == "seq":
                            out += list(t[1])
                if ct.ext.endswith(".values"):
                    recv = self.expr_types(e.func.value, fn) if isinstance(e.func, ast.Attribute) else []
                    out += [t for t in recv if t[0] == "seq"]
                if not out:
                    out.append(("ext", ct.ext + "()"))
            return _dedup(out)
        if isinstance(e, ast.Subscript):
            base = self.expr_types(e.value, fn)
            out = []
            for t in base:
                if t[0] == "seq":
                    if isinstance(e.slice, ast.Slice):
                        out.append(t)
                    else:
                        out += list(t[1])
                elif t[0] == "ext":
                    out.append(("ext", t[1] + "[]"))
            return _dedup(out)
        if isinstance(e, ast.BinOp) and isinstance(e.op, ast.Add):
            return _dedup(self.expr_types(e.left, fn) + self.expr_types(e.right, fn))
        if isinstance(e, ast.IfExp):
            return _dedup(self.expr_types(e.body, fn) + self.expr_types(e.orelse, fn))
        if isinstance(e, (ast.Tuple, ast.List)):
            el = []
            for x in e.elts:
                el += self.expr_types(x, fn)
            return [("seq", tuple(_dedup(el)))]
        if isinstance(e, ast.Lambda):
            return [("func", self.prog.func_of(e))]
        if isinstance(e, ast.Constant):
            return [("ext", "builtins.%s" % type(e.value).__name__)]
        if isinstance(e, ast.JoinedStr):
            return [("ext", "builtins.str")]
        if isinstance(e, (ast.DictComp, ast.Dict)):
            vals = []
            if isinstance(e, ast.DictComp):
                vals = self.expr_types(e.value, fn)
            return [("seq", tuple(vals))]
        return []

    def _const_type(self, value: ast.expr, mod: Module) -> List[Tuple]:
        if isinstance(value, ast.Constant):
            return [("ext", "builtins.%s" % type(value.value).__name__)]
        if isinstance(value, ast.Dict):
            return [("ext", "builtins.dict")]
        return []

    # --------------------------------------------------------- call resolution
    def resolve_call(self, call: ast.Call, fn: FuncInfo) -> CallTarget:
        key = id(call)
        if key in self._calls:
            return self._calls[key]
        ct = CallTarget(call, fn)
        if not self._building:
            self.local_types(fn)  # make sure the environment is complete before caching
            self._calls[key] = ct
        prog = self.prog
        f = call.func
        if isinstance(f, ast.Call) and isinstance(f.func, ast.Name) and f.func.id == "super":
            ct.unresolved = True
            return ct
        if isinstance(f, ast.Attribute) and isinstance(f.value, ast.Call) and isinstance(f.value.func, ast.Name) \
                and f.value.func.id == "super" and fn_cls(fn) is not None:
            owner = fn_cls(fn)
            # super().m(): the next definition after the *defining* class, for every concrete subclass MRO
            found: List[FuncInfo] = []
            for sub in prog.all_subclasses(owner):
                m = prog.find_method(sub, f.attr, after=owner)
                if m is not None and m not in found:
                    found.append(m)
            if found:
                ct.funcs = found
                ct.bound_self = True
            else:
                # next in MRO is external (object.__init__, asyncio.Protocol ...)
                ct.ext = "super().%s" % f.attr
            return ct
        types = self.expr_types(f, fn)
        for t in types:
            if t[0] == "func":
                if t[1] not in ct.funcs:
                    ct.funcs.append(t[1])
            elif t[0] == "cls":
                ct.ctor = t[1]
                init = prog.find_method(t[1], "__init__")
                if init is not None and init not in ct.funcs:
                    ct.funcs.append(init)
            elif t[0] == "ext":
                if not t[1].startswith("typing.Any"):
                    ct.ext = t[1]
            elif t[0] == "inst":
                m = prog.find_method(t[1], "__call__")
                if m is not None:
                    ct.funcs.append(m)
        # method call on an instance: widen to all overrides (CHA)
        if isinstance(f, ast.Attribute):
            recv = [t for t in self.expr_types(f.value, fn) if not (t[0] == "ext" and t[1].startswith("typing.Any"))]
            types = [t for t in types if not (t[0] == "ext" and t[1].startswith("typing.Any"))]
            widened: List[FuncInfo] = []
            for t in recv:
                if t[0] == "inst":
                    ct.bound_self = True
                    cands = self.dispatch(t[1], f.attr)
                    if isinstance(f.value, ast.Name) and f.value.id == "self" and fn.cls is not None and not fn.is_lambda \
                            and not fn.is_static and fn.name in fn.cls.methods and fn.cls.methods[fn.name] is fn:
                        # self.x() inside method m of class D: self's class is one that really inherits this m
                        subs = [c for c in prog.all_subclasses(fn.cls) if c in self.instantiated() and prog.find_method(c, fn.name) is fn]
                        if subs:
                            cands = []
                            for c in subs:
                                m2 = prog.find_method(c, f.attr)
                                if m2 is not None and m2 not in cands:
                                    cands.append(m2)
                    for m in cands:
                        if m not in widened:
                            widened.append(m)
                    stored = self.stored_callables().get((t[1].qualname, f.attr))
                    if stored is None:
                        for c in prog.mro(t[1]):
                            if isinstance(c, ClassInfo) and (c.qualname, f.attr) in self.stored_callables():
                                stored = self.stored_callables()[(c.qualname, f.attr)]
                                break
                    if stored:
                        ct.funcs = [x for x in ct.funcs]
                        for s in stored:
                            if s not in widened:
                                widened.append(s)
                        ct.bound_self = False
            if widened:
                ct.funcs = widened
            if not recv and not types:
                # unknown receiver: name-based over-approximation
                cands = [c.methods[f.attr] for c in prog.classes.values() if f.attr in c.methods]
                if not cands and not self._building:
                    for (cq, a), fs in self.stored_callables().items():
                        if a == f.attr:
                            cands.extend(x for x in fs if x not in cands)
                if cands:
                    ct.funcs = cands
                    ct.unresolved = True
                    ct.bound_self = True
                else:
                    ct.ext = "?.%s" % f.attr
        if isinstance(f, ast.Name) and not types:
            ct.unresolved = True
        if not ct.funcs and ct.ctor is None and not ct.ext:
            if isinstance(f, ast.Attribute):
                ct.ext = ct.ext or "?.%s" % f.attr
            else:
                ct.unresolved = True
        return ct

    def instantiated(self) -> List[ClassInfo]:
        """Classes constructed somewhere in the package (rapid type analysis)."""
        if not hasattr(self, "_instantiated"):
            inst: List[ClassInfo] = []
            for mod in self.prog.modules.values():
                for n in ast.walk(mod.tree):
                    if isinstance(n, ast.Call) and isinstance(n.func, ast.Name):
                        b = self.prog.lookup(mod, n.func.id)
                        if b and b[0] == "class" and b[1] not in inst:
                            inst.append(b[1])
                    # classes stored in a list and called through a variable: for inv in [ET, DT, ES]: inv(...)
                    seqs = []
                    if isinstance(n, ast.List) and isinstance(n.ctx, ast.Load):
                        seqs.append(n)
                    if isinstance(n, ast.For) and isinstance(n.iter, ast.Tuple):
                        seqs.append(n.iter)
                    for sq in seqs:
                        for e in sq.elts:
                            if isinstance(e, ast.Name):
                                b = self.prog.lookup(mod, e.id)
                                if b and b[0] == "class" and b[1] not in inst:
                                    inst.append(b[1])
            self._instantiated = inst
        return self._instantiated

    def dispatch(self, ci: ClassInfo, name: str) -> List[FuncInfo]:
        """Implementations ``x.name()`` may reach for static type ci: the instantiated subclasses (RTA);
        falls back to all subclasses (CHA) when none of them is constructed inside the package."""
        subs = [c for c in self.prog.all_subclasses(ci) if c in self.instantiated()]
        if not subs:
            return self.prog.method_overrides(ci, name)
        out: List[FuncInfo] = []
        for c in subs:
            m = self.prog.find_method(c, name)
            if m is not None and m not in out:
                out.append(m)
        return out

    def stored_callables(self) -> Dict[Tuple[str, str], List[FuncInfo]]:
        """(class qualname, attr) -> functions/lambdas stored in ``self.attr`` through a constructor
        parameter (ProtocolCommand.validator, Calculated._getter)."""
        if self._stored_callables is not None:
            return self._stored_callables
        self._stored_callables = {}
        prog = self.prog
        # which (class, param index/name) of __init__ flows into self.attr
        sinks: Dict[str, List[Tuple[str, str]]] = {}  # init qualname -> [(param, attr)]
        # attributes that are *called* somewhere (x.attr(...)) although no class defines a method of that name: a
        # parameter stored under such a name holds a callable whether or not it is annotated as one
        method_names = {m for c in prog.classes.values() for m in c.methods}
        called_attrs = {n.func.attr for mod in prog.modules.values() for n in ast.walk(mod.tree)
                        if isinstance(n, ast.Call) and isinstance(n.func, ast.Attribute)} - method_names
        for ci in prog.classes.values():
            init = ci.methods.get("__init__")
            if init is None:
                continue
            for n in ast.walk(init.node):
                tgt = val = None
                if isinstance(n, ast.AnnAssign) and n.value is not None:
                    tgt, val = n.target, n.value
                elif isinstance(n, ast.Assign) and len(n.targets) == 1:
                    tgt, val = n.targets[0], n.value
                if tgt is not None and isinstance(tgt, ast.Attribute) and isinstance(tgt.value, ast.Name) \
                        and tgt.value.id == "self" and isinstance(val, ast.Name) and val.id in init.params:
                    ann = [a.annotation for a in init.node.args.args if a.arg == val.id][0]
                    if (ann is not None and "Callable" in node_src(ann)) or (ann is None and tgt.attr in called_attrs):
                        sinks.setdefault(init.qualname, []).append((val.id, tgt.attr))
                        self._stored_callables.setdefault((ci.qualname, tgt.attr), [])
        if not sinks:
            return self._stored_callables
        # every call in the package that reaches such an __init__ with a callable argument
        for fn in list(prog.functions) + self._class_level_pseudo_funcs():
            for call in self.calls_in_nodes(fn):
                self._flow_callable_args(call, fn, sinks, 0)
        return self._stored_callables

    def _class_level_pseudo_funcs(self) -> List[FuncInfo]:
        """Class bodies and module bodies contain calls too (sensor tables, DISCOVERY_COMMAND)."""
        out = []
        for mod in self.prog.modules.values():
            out.append(self.module_init(mod))
        return out

    def module_init(self, mod: Module) -> FuncInfo:
        key = "__modinit__" + mod.name
        if not hasattr(self, "_modinits"):
            self._modinits = {}
        if key not in self._modinits:
            body = []
            for st in mod.tree.body:
                if isinstance(st, ast.ClassDef):
                    for b in st.body:
                        if isinstance(b, (ast.Assign, ast.AnnAssign, ast.Expr)):
                            body.append(b)
                elif not isinstance(st, (ast.FunctionDef, ast.AsyncFunctionDef, ast.Import, ast.ImportFrom)):
                    body.append(st)
            node = ast.FunctionDef(name="<module>", args=ast.arguments(posonlyargs=[], args=[], kwonlyargs=[], kw_defaults=[], defaults=[]),
                                   body=body or [ast.Pass()], decorator_list=[], returns=None, lineno=1, col_offset=0)
            self._modinits[key] = FuncInfo("<module>", node, mod)
        return self._modinits[key]

    def calls_in_nodes(self, fn: FuncInfo) -> List[ast.Call]:
        return [n for n in self._own_nodes(fn) if isinstance(n, ast.Call)]

    def _flow_callable_args(self, call: ast.Call, fn: FuncInfo, sinks, depth):
        if depth > 6:
            return
        ct = self.resolve_call_nostore(call, fn)
        for callee in ct:
            if callee.qualname in sinks:
                for pname, attr in sinks[callee.qualname]:
                    arg = _arg_for(call, callee, pname, bound=True)
                    if arg is None:
                        continue
                    owner = callee.cls
                    for t in self.expr_types(arg, fn):
                        if t[0] == "func":
                            # the callable is stored on every class whose constructor chain passes it here
                            lst = self._stored_callables.setdefault((owner.qualname, attr), [])
                            if t[1] not in lst:
                                lst.append(t[1])

    def resolve_call_nostore(self, call: ast.Call, fn: FuncInfo) -> List[FuncInfo]:
        """Constructor / super().__init__ resolution that does not need stored_callables."""
        prog = self.prog
        f = call.func
        if isinstance(f, ast.Attribute) and isinstance(f.value, ast.Call) and isinstance(f.value.func, ast.Name) \
                and f.value.func.id == "super" and fn_cls(fn) is not None:
            owner = fn_cls(fn)
            out = []
            for sub in prog.all_subclasses(owner):
                m = prog.find_method(sub, f.attr, after=owner)
                if m is not None and m not in out:
                    out.append(m)
            return out
        if isinstance(f, ast.Name):
            b = prog.lookup(fn.module, f.id)
            if b and b[0] == "class":
                init = prog.find_method(b[1], "__init__")
                return [init] if init else []
            if b and b[0] == "func":
                return [b[1]]
        return []

    # ------------------------------------------------------------- call graph
    def calls_of(self, fn: FuncInfo) -> List[CallTarget]:
        key = id(fn.node)
        if key not in self._calls_in:
            cts = [self.resolve_call(c, fn) for c in self.calls_in_nodes(fn)]
            # reading a property runs its getter: a pseudo call (zero arguments) to every package property of that name
            props = self.properties()
            if props:
                for n in self._own_nodes(fn):
                    if isinstance(n, ast.Attribute) and isinstance(n.ctx, ast.Load) and n.attr in props:
                        fake = ast.copy_location(ast.Call(func=n, args=[], keywords=[]), n)
                        ct = CallTarget(fake, fn)
                        ct.funcs = list(props[n.attr])
                        ct.bound_self = True
                        cts.append(ct)
            self._calls_in[key] = cts
        return self._calls_in[key]

    def properties(self) -> Dict[str, List[FuncInfo]]:
        if not hasattr(self, "_properties"):
            out: Dict[str, List[FuncInfo]] = {}
            for f in self.prog.functions:
                if not f.is_lambda and "property" in f.decorators and f.cls is not None:
                    out.setdefault(f.name, []).append(f)
            self._properties = out
        return self._properties

    def callees(self, fn: FuncInfo) -> List[FuncInfo]:
        out = []
        for ct in self.calls_of(fn):
            for f in ct.funcs:
                if f not in out:
                    out.append(f)
        return out

    def all_funcs(self) -> List[FuncInfo]:
        return list(self.prog.functions) + self._class_level_pseudo_funcs()

    def callers_of(self, fn: FuncInfo) -> List[CallTarget]:
        if self._callers is None:
            self._callers = {}
            for g in self.all_funcs():
                for ct in self.calls_of(g):
                    for f in ct.funcs:
                        self._callers.setdefault(f.qualname, []).append(ct)
        return self._callers.get(fn.qualname, [])

    def reachable(self, roots: List[FuncInfo], stop=None) -> List[FuncInfo]:
        seen: List[FuncInfo] = []
        stack = list(roots)
        while stack:
            f = stack.pop()
            if f in seen:
                continue
            seen.append(f)
            if stop is not None and stop(f):
                continue
            # lambdas defined inside f are values, reached only if called (resolved via stored callables)
            stack.extend(self.callees(f))
        return seen


def fn_cls(fn: FuncInfo) -> Optional[ClassInfo]:
    return fn.cls


def _is_self_attr(t: ast.expr, attr: str) -> bool:
    return isinstance(t, ast.Attribute) and isinstance(t.value, ast.Name) and t.value.id == "self" and t.attr == attr


def _dedup(ts: List[Tuple]) -> List[Tuple]:
    out = []
    for t in ts:
        if t not in out:
            out.append(t)
    return out


def _arg_for(call: ast.Call, callee: FuncInfo, pname: str, bound: bool) -> Optional[ast.expr]:
    """Argument expression of *call* bound to parameter *pname* of *callee*."""
    params = callee.params
    if bound and params and params[0] in ("self", "cls"):
        params = params[1:]
    for k in call.keywords:
        if k.arg == pname:
            return k.value
    if pname in params:
        i = params.index(pname)
        if i < len(call.args) and not any(isinstance(a, ast.Starred) for a in call.args[: i + 1]):
            return call.args[i]
    # default value
    a = callee.node.args
    allp = [x.arg for x in a.posonlyargs + a.args]
    if pname in allp:
        i = allp.index(pname)
        nd = len(a.defaults)
        di = i - (len(allp) - nd)
        if 0 <= di < nd:
            return a.defaults[di]
    return None


def arg_for(call: ast.Call, callee: FuncInfo, pname: str) -> Optional[ast.expr]:
    """Public: argument bound to pname; self is considered bound for methods and constructors."""
    bound = callee.cls is not None and not callee.is_static and not callee.is_lambda
    return _arg_for(call, callee, pname, bound)
