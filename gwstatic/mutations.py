"""Corpus of variants for the sensitivity self-test (see selftest.py).

Each entry edits the *current* tree.  'expect' names the rule that must report
the seeded break, or 'clean' for behaviour-preserving rewrites that must stay
silent.
"""
from __future__ import annotations

from typing import List

from .selftest import M

P = "goodwe/protocol.py"
MB = "goodwe/modbus.py"
S = "goodwe/sensor.py"
INV = "goodwe/inverter.py"
INIT = "goodwe/__init__.py"
ET = "goodwe/et.py"
DT = "goodwe/dt.py"
ES = "goodwe/es.py"


def c01() -> List[M]:
    return [
        M("C01", "udp-deliver-unvalidated-fragment", P,
          "            if self.command.validator(data):\n                logger.debug(\"Received: %s\", data.hex())\n                self._retry = 0\n                self.response_future.set_result(data)\n            else:\n                logger.debug(\"Received invalid response: %s\", data.hex())\n                asyncio",
          "            if self.command.validator(data) or self._partial_data:\n                logger.debug(\"Received: %s\", data.hex())\n                self._retry = 0\n                self.response_future.set_result(data)\n            else:\n                logger.debug(\"Received invalid response: %s\", data.hex())\n                asyncio",
          "C01.R1"),
        M("C01", "tcp-deliver-on-invalid", P,
          "                self.response_future.set_exception(RequestRejectedException())\n",
          "                self.response_future.set_result(data)\n", "C01.R1"),
        M("C01", "deliver-other-value", P,
          "                self.response_future.set_result(data)\n            else:\n                logger.debug(\"Received invalid response: %s\", data.hex())\n                self._retry = 0",
          "                self.response_future.set_result(self._partial_data or data)\n            else:\n                logger.debug(\"Received invalid response: %s\", data.hex())\n                self._retry = 0",
          "C01.R1"),
        M("C01", "deliver-in-error-received", P, "        self._retry = 0\n        self.response_future.set_exception(exc)\n", "        self._retry = 0\n        self.response_future.set_result(b'')\n", "C01.R1"),
        M("C01", "concat-after-validation", P,
          "            if self.command.validator(data):\n                logger.debug(\"Received: %s\", data.hex())\n                self._retry = 0\n                self.response_future.set_result(data)\n            else:\n                logger.debug(\"Received invalid response: %s\", data.hex())\n                asyncio",
          "            if self.command.validator(data):\n                logger.debug(\"Received: %s\", data.hex())\n                self._retry = 0\n                data = data + b''\n                self.response_future.set_result(data)\n            else:\n                logger.debug(\"Received invalid response: %s\", data.hex())\n                asyncio",
          "C01.R1"),
        M("C01", "read-command-validator-rebound", P, "            create_modbus_rtu_request(comm_addr, MODBUS_READ_CMD, offset, count),\n            MODBUS_READ_CMD, offset, count)\n",
          "            create_modbus_rtu_request(comm_addr, MODBUS_READ_CMD, offset, count),\n            MODBUS_READ_CMD, offset, count)\n        self.validator = lambda x: len(x) > 4\n", "C01.R1"),
        M("C01", "benign-validator-result-in-variable", P,
          "            if self.command.validator(data):\n                logger.debug(\"Received: %s\", data.hex())\n                self._retry = 0\n                self.response_future.set_result(data)\n            else:\n                logger.debug(\"Received invalid response: %s\", data.hex())\n                asyncio",
          "            valid = self.command.validator(data)\n            if valid:\n                logger.debug(\"Received: %s\", data.hex())\n                self._retry = 0\n                self.response_future.set_result(data)\n            else:\n                logger.debug(\"Received invalid response: %s\", data.hex())\n                asyncio",
          "clean"),
        # R2
        M("C01", "rtu-bytecount-not-checked", MB, "        if data[4] != value * 2:", "        if data[4] > value * 2:", "C01.R2"),
        M("C01", "rtu-length-off-by-two", MB, "        expected_length = data[4] + 7\n        if len(data) < expected_length:",
          "        expected_length = data[4] + 7\n        if len(data) < expected_length - 2:", "C01.R2|C01.R4"),
        M("C01", "rtu-offset-echo-weakened", MB, "        response_offset = int.from_bytes(data[4:6], byteorder='big', signed=False)\n        if response_offset != offset:",
          "        response_offset = int.from_bytes(data[4:6], byteorder='big', signed=False)\n        if response_offset < offset:", "C01.R2"),
        M("C01", "rtu-value-echo-dropped", MB, "        response_value = int.from_bytes(data[6:8], byteorder='big', signed=True)\n        if response_value != value:",
          "        response_value = int.from_bytes(data[6:8], byteorder='big', signed=True)\n        if response_value != value and False:", "C01.R2"),
        M("C01", "rtu-crc-range-shifted", MB, "_modbus_checksum(data[2:checksum_offset])", "_modbus_checksum(data[3:checksum_offset])", "C01.R2"),
        M("C01", "rtu-crc-bytes-swapped", MB, "((data[checksum_offset + 1] << 8) + data[checksum_offset])",
          "((data[checksum_offset] << 8) + data[checksum_offset + 1])", "C01.R2"),
        M("C01", "rtu-fc-compare-weakened", MB, "    if data[3] != cmd:\n        failure_code = FAILURE_CODES.get(data[4], \"UNKNOWN\")",
          "    if data[3] & 0x80:\n        failure_code = FAILURE_CODES.get(data[4], \"UNKNOWN\")", "C01.R2"),
        M("C01", "rtu-crc-compare-weakened", MB, " != ((data[checksum_offset + 1] << 8) + data[checksum_offset]):",
          " < ((data[checksum_offset + 1] << 8) + data[checksum_offset]):", "C01.R2"),
        M("C01", "tcp-bytecount-not-checked", MB, "        if data[8] != value * 2:", "        if data[8] < value * 2:", "C01.R2"),
        M("C01", "tcp-value-echo-wrong-bytes", MB, "int.from_bytes(data[10:12], byteorder='big', signed=True)", "int.from_bytes(data[9:11], byteorder='big', signed=True)", "C01.R2"),
        M("C01", "tcp-write-accepts-multi-as-other", MB, "    elif data[7] in (MODBUS_WRITE_CMD, MODBUS_WRITE_MULTI_CMD):\n        if len(data) < 12:",
          "    elif data[7] in (MODBUS_WRITE_CMD,):\n        if len(data) < 12:", "C01.R2"),
        M("C01", "aa55-too-long-tolerated", P, "        elif len(data) > data[6] + 9:", "        elif len(data) > data[6] + 19:", "C01.R2"),
        M("C01", "aa55-checksum-compare-weakened", P, "        if (checksum & 0xFFFF) != int.from_bytes(data[-2:],", "        if (checksum & 0xFFFF) < int.from_bytes(data[-2:],", "C01.R2"),
        M("C01", "aa55-type-compare-weakened", P, "            if int(response_type, 16) != data_rt_int:", "            if int(response_type, 16) < data_rt_int:", "C01.R2"),
        M("C01", "aa55-checksum-skips-header", P, "        for each in data[:-2]:\n            checksum += each\n        if (checksum",
          "        for each in data[4:-2]:\n            checksum += each\n        if (checksum", "C01.R2"),
        M("C01", "benign-tcp-reorder-checks", MB,
          "        expected_length = data[8] + 9\n        if len(data) < expected_length:\n            raise PartialResponseException(len(data), expected_length)\n        if data[8] != value * 2:\n            logger.debug(\"Response has unexpected length: %d, expected %d.\", data[8], value * 2)\n            return False\n",
          "        if data[8] != value * 2:\n            logger.debug(\"Response has unexpected length: %d, expected %d.\", data[8], value * 2)\n            return False\n        expected_length = 9 + data[8]\n        if expected_length > len(data):\n            raise PartialResponseException(len(data), expected_length)\n",
          "clean"),
        M("C01", "benign-crc-from-bytes", MB, "((data[checksum_offset + 1] << 8) + data[checksum_offset])",
          "int.from_bytes(data[checksum_offset:checksum_offset + 2], byteorder='little', signed=False)", "clean"),
        M("C01", "benign-crc-bitor", MB, "((data[checksum_offset + 1] << 8) + data[checksum_offset])",
          "((data[checksum_offset + 1] << 8) | data[checksum_offset])", "clean"),
        M("C01", "benign-aa55-sum-builtin", P, "        checksum = 0\n        for each in data[:-2]:\n            checksum += each\n        if (checksum",
          "        checksum = sum(data[:-2])\n        if (checksum", "clean"),
        M("C01", "aa55-validator-reuses-unmasked-helper", P, "        checksum = 0\n        for each in data[:-2]:\n            checksum += each\n        if (checksum & 0xFFFF) != int.from_bytes(data[-2:], byteorder=\"big\", signed=False):", "        if Aa55ProtocolCommand._checksum(data[:-2]) != data[-2:]:", "C01.R4"),
        M("C01", "benign-aa55-validator-reuses-masked-helper", P, "        checksum = 0\n        for each in data[:-2]:\n            checksum += each\n        if (checksum & 0xFFFF) != int.from_bytes(data[-2:], byteorder=\"big\", signed=False):", "        if Aa55ProtocolCommand._checksum(data[:-2]) != data[-2:]:", "clean",
          also=[(P, "        return checksum.to_bytes(2, byteorder=\"big\", signed=False)", "        return (checksum & 0xFFFF).to_bytes(2, byteorder=\"big\", signed=False)")]),
        M("C02", "aa55-validator-reuses-unmasked-helper", P, "        checksum = 0\n        for each in data[:-2]:\n            checksum += each\n        if (checksum & 0xFFFF) != int.from_bytes(data[-2:], byteorder=\"big\", signed=False):", "        if Aa55ProtocolCommand._checksum(data[:-2]) != data[-2:]:", "C02.R1"),
        M("C02", "benign-aa55-validator-reuses-masked-helper", P, "        checksum = 0\n        for each in data[:-2]:\n            checksum += each\n        if (checksum & 0xFFFF) != int.from_bytes(data[-2:], byteorder=\"big\", signed=False):", "        if Aa55ProtocolCommand._checksum(data[:-2]) != data[-2:]:", "clean",
          also=[(P, "        return checksum.to_bytes(2, byteorder=\"big\", signed=False)", "        return (checksum & 0xFFFF).to_bytes(2, byteorder=\"big\", signed=False)")]),
        # R3
        M("C01", "rtu-reject-before-crc", MB, "    checksum_offset = expected_length - 2\n    if _modbus_checksum(data[2:checksum_offset])",
          "    if data[3] != cmd:\n        raise RequestRejectedException(FAILURE_CODES.get(data[4], \"UNKNOWN\"))\n    checksum_offset = expected_length - 2\n    if _modbus_checksum(data[2:checksum_offset])",
          "C01.R3"),
        # R4
        M("C01", "rtu-short-frame-guard-weakened", MB, "    if len(data) <= 4:", "    if len(data) <= 3:", "C01.R4"),
        M("C01", "tcp-short-frame-guard-weakened", MB, "    if len(data) <= 8:", "    if len(data) <= 7:", "C01.R4"),
        M("C01", "aa55-short-frame-guard-weakened", P, "        if len(data) <= 8:\n            logger.debug(\"Response too short.\")", "        if len(data) <= 5:\n            logger.debug(\"Response too short.\")", "C01.R4"),
        M("C01", "validator-raises-valueerror", MB, "    if len(data) <= 8:\n        logger.debug(\"Response is too short.\")\n        return False",
          "    if len(data) <= 8:\n        logger.debug(\"Response is too short.\")\n        raise ValueError(\"short\")", "C01.R4"),
        # R5
        M("C01", "crc-poly-changed", MB, "crc = (crc >> 1) ^ 0xA001", "crc = (crc >> 1) ^ 0xA003", "C01.R5"),
        M("C01", "crc-init-changed", MB, "    crc = 0xFFFF\n", "    crc = 0x0000\n", "C01.R5"),
        M("C01", "crc-shift-changed", MB, "crc = (crc >> 8) ^ _CRC_16_TABLE[(crc ^ ch) & 0xFF]", "crc = (crc >> 4) ^ _CRC_16_TABLE[(crc ^ ch) & 0xFF]", "C01.R5"),
        M("C01", "crc-mask-changed", MB, "crc = (crc >> 8) ^ _CRC_16_TABLE[(crc ^ ch) & 0xFF]", "crc = (crc >> 8) ^ _CRC_16_TABLE[(crc ^ ch) & 0x7F]", "C01.R5"),
        M("C01", "crc-table-short", MB, "    for i in range(256):", "    for i in range(255):", "C01.R5"),
        M("C01", "benign-crc-xor-operands-swapped", MB, "crc = (crc >> 8) ^ _CRC_16_TABLE[(crc ^ ch) & 0xFF]", "crc = _CRC_16_TABLE[(ch ^ crc) & 0xFF] ^ (crc >> 8)", "clean"),
    ]


def c02() -> List[M]:
    return [
        M("C02", "revert-fix-aa55-checksum-signed", P, "        if (checksum & 0xFFFF) != int.from_bytes(data[-2:], byteorder=\"big\", signed=False):",
          "        if checksum != int.from_bytes(data[-2:], byteorder=\"big\", signed=True):", "C02.R1"),
        M("C02", "aa55-checksum-unmasked", P, "        if (checksum & 0xFFFF) != int.from_bytes(data[-2:], byteorder=\"big\", signed=False):",
          "        if checksum != int.from_bytes(data[-2:], byteorder=\"big\", signed=False):", "C02.R1"),
        M("C02", "aa55-length-strict-less", P, "        elif len(data) > data[6] + 9:", "        elif len(data) >= data[6] + 9:", "C02.R1"),
        M("C02", "benign-aa55-mask-by-modulo", P, "        if (checksum & 0xFFFF) != int.from_bytes(", "        if (checksum % 65536) != int.from_bytes(", "clean"),
        M("C02", "benign-aa55-mask-commuted", P, "        if (checksum & 0xFFFF) != int.from_bytes(", "        if (0xFFFF & checksum) != int.from_bytes(", "clean"),
        M("C02", "aa55-response-type-high-bit", ES, "_READ_DEVICE_VERSION_INFO: ProtocolCommand = Aa55ProtocolCommand(\"010200\", \"0182\")",
          "_READ_DEVICE_VERSION_INFO: ProtocolCommand = Aa55ProtocolCommand(\"010200\", \"8182\")", "C02.R2|C02.R1"),
        M("C02", "rtu-read-no-trailing-bytes", MB, "        expected_length = data[4] + 7\n        if len(data) < expected_length:",
          "        expected_length = data[4] + 7\n        if len(data) != expected_length:", "C02.R4"),
        M("C02", "rtu-write-no-trailing-bytes", MB, "        if len(data) < 10:", "        if len(data) != 10:", "C02.R4"),
        M("C02", "rtu-crc-position-from-len", MB, "    checksum_offset = expected_length - 2\n", "    checksum_offset = len(data) - 2\n", "C02.R4"),
        M("C02", "rtu-value-echo-unsigned", MB, "int.from_bytes(data[6:8], byteorder='big', signed=True)", "int.from_bytes(data[6:8], byteorder='big', signed=False)", "C02.R5|C02.R4"),
        M("C02", "tcp-value-echo-unsigned", MB, "int.from_bytes(data[10:12], byteorder='big', signed=True)", "int.from_bytes(data[10:12], byteorder='big', signed=False)", "C02.R5|C02.R4"),
        M("C02", "tcp-write-min-length-too-strict", MB, "        if len(data) < 12:", "        if len(data) <= 12:", "C02.R4"),
        M("C02", "tcp-offset-echo-signed", MB, "int.from_bytes(data[8:10], byteorder='big', signed=False)", "int.from_bytes(data[8:10], byteorder='big', signed=True)", "C02.R4"),
        M("C02", "rtu-read-bytecount-vs-value", MB, "        if data[4] != value * 2:", "        if data[4] != value:", "C02.R4"),
        M("C02", "tcp-get-offset-scale", P, "        return (address - self.first_address) * 2\n\n\nclass ModbusTcpReadCommand", "        return (address - self.first_address)\n\n\nclass ModbusTcpReadCommand", "C02.R3"),
        M("C02", "rtu-first-address-zero", P, "            lambda x: validate_modbus_rtu_response(x, cmd, offset, value),\n        )\n        self.first_address: int = offset",
          "            lambda x: validate_modbus_rtu_response(x, cmd, offset, value),\n        )\n        self.first_address: int = 0", "C02.R3"),
        M("C02", "rtu-read-args-swapped", P, "            create_modbus_rtu_request(comm_addr, MODBUS_READ_CMD, offset, count),\n            MODBUS_READ_CMD, offset, count)",
          "            create_modbus_rtu_request(comm_addr, MODBUS_READ_CMD, offset, count),\n            MODBUS_READ_CMD, count, offset)", "C02.R3"),
        M("C02", "aa55-get-offset-added", P, "    def trim_response(self, raw_response: bytes):\n        \"\"\"Trim raw response from header and checksum data\"\"\"\n        return raw_response[7:-2]\n",
          "    def trim_response(self, raw_response: bytes):\n        \"\"\"Trim raw response from header and checksum data\"\"\"\n        return raw_response[7:-2]\n\n    def get_offset(self, address: int):\n        return address * 2\n", "C02.R3"),
        M("C02", "response-data-untrimmed", P, "            return self.command.trim_response(self.raw_data)", "            return self.raw_data", "C02.R3"),
        M("C02", "et-write-value-unsigned", ET, "            value = int.from_bytes(raw_value, byteorder=\"big\", signed=True)\n            await self._read_from_socket(self._write_command(setting.offset, value))",
          "            value = int.from_bytes(raw_value, byteorder=\"big\", signed=False)\n            await self._read_from_socket(self._write_command(setting.offset, value))", "C02.R5"),
        M("C02", "dt-single-write-up-to-4-bytes", DT, "        if len(raw_value) <= 2:", "        if len(raw_value) <= 4:", "C02.R5"),
        M("C02", "et-clear-param-large-constant", ET, "self._write_command(0xb9ad, 1)", "self._write_command(0xb9ad, 0xFFFF)", "C02.R5"),
        M("C02", "tcp-validator-args-swapped", P, "lambda x: validate_modbus_tcp_response(x, cmd, offset, value)", "lambda x: validate_modbus_tcp_response(x, cmd, value, offset)", "C02.R3"),
        M("C02", "benign-rtu-length-test-flipped", MB, "        expected_length = data[4] + 7\n        if len(data) < expected_length:",
          "        expected_length = 7 + data[4]\n        if expected_length > len(data):", "clean"),
    ]


def c09() -> List[M]:
    return [
        M("C09", "revert-fix-execute-oserror", P, "        except (asyncio.CancelledError, OSError):\n            raise RequestFailedException(",
          "        except (asyncio.CancelledError, ConnectionRefusedError):\n            raise RequestFailedException(", "C09.R1"),
        M("C09", "revert-fix-error-received-guard", P, "        try:\n            self.response_future.set_exception(exc)\n        except asyncio.InvalidStateError:\n            logger.debug(\"Response already handled.\")\n",
          "        self.response_future.set_exception(exc)\n", "C09.R2"),
        M("C09", "revert-fix-discover-decode", INIT, "        except (InverterError, UnicodeDecodeError) as ex:\n            failures.append(ex)\n\n    # Probe",
          "        except InverterError as ex:\n            failures.append(ex)\n\n    # Probe", "C09.R1"),
        M("C09", "revert-fix-dt-model-decode", DT, "            except (InverterError, UnicodeDecodeError) as e:", "            except InverterError as e:", "C09.R1"),
        M("C09", "execute-lets-cancelled-through", P, "        except (asyncio.CancelledError, OSError):\n            raise RequestFailedException(",
          "        except OSError:\n            raise RequestFailedException(", "C09.R1"),
        M("C09", "decode-helper-wrong-handler", INV, "        except ValueError:\n            return data.hex()", "        except KeyError:\n            return data.hex()", "C09.R1"),
        M("C09", "es-firmware-int-unprotected", ES, "        except ValueError:\n            logger.exception(\"Error decoding firmware version %s.\", self.firmware)",
          "        except KeyError:\n            logger.exception(\"Error decoding firmware version %s.\", self.firmware)", "C09.R1"),
        M("C09", "search-uses-ascii-decode", INIT, "            return result.response_data()\n", "            return result.response_data().decode(\"ascii\").encode(\"ascii\")\n", "C09.R1"),
        M("C09", "udp-invalid-state-handler-removed", P, "        except asyncio.InvalidStateError:\n            logger.debug(\"Response already handled: %s\", data.hex())\n        except RequestRejectedException as ex:\n            logger.debug(\"Received exception response: %s\", data.hex())\n            self._retry = 0\n            if self.response_future and not self.response_future.done():\n                self.response_future.set_exception(ex)\n            self._close_transport()",
          "        except RequestRejectedException as ex:\n            logger.debug(\"Received exception response: %s\", data.hex())\n            self._retry = 0\n            if self.response_future and not self.response_future.done():\n                self.response_future.set_exception(ex)\n            self._close_transport()", "C09.R2"),
        M("C09", "tcp-rejected-handler-unguarded", P, "            if self.response_future and not self.response_future.done():\n                self.response_future.set_exception(ex)\n            # self._close_transport()",
          "            self.response_future.set_exception(ex)\n            # self._close_transport()", "C09.R2"),
        M("C09", "counter-not-reset-on-success", INV, "            self._consecutive_failures_count = 0\n            return result", "            return result", "C09.R3"),
        M("C09", "counter-double-increment", INV, "        except RequestFailedException as ex:\n            self._consecutive_failures_count += 1\n",
          "        except RequestFailedException as ex:\n            self._consecutive_failures_count += 1\n            self._consecutive_failures_count += 1\n", "C09.R3"),
        M("C09", "counter-not-passed", INV, "            raise RequestFailedException(ex.message, self._consecutive_failures_count) from None", "            raise RequestFailedException(ex.message) from None", "C09.R3"),
        M("C09", "counter-incremented-by-two", INV, "        except MaxRetriesException:\n            self._consecutive_failures_count += 1", "        except MaxRetriesException:\n            self._consecutive_failures_count += 2", "C09.R3"),
        M("C09", "es-bypasses-read-from-socket", ES, "        response = await self._read_from_socket(self._READ_DEVICE_RUNNING_DATA)\n", "        response = await self._READ_DEVICE_RUNNING_DATA.execute(self._protocol)\n", "C09.R3"),
        M("C09", "exception-drops-count", "goodwe/exceptions.py", "        self.consecutive_failures_count: int = consecutive_failures_count", "        self.consecutive_failures_count: int = 0", "C09.R3"),
        M("C09", "benign-error-received-done-guard", P, "        try:\n            self.response_future.set_exception(exc)\n        except asyncio.InvalidStateError:\n            logger.debug(\"Response already handled.\")\n",
          "        if self.response_future and not self.response_future.done():\n            self.response_future.set_exception(exc)\n", "clean"),
        M("C09", "benign-tcp-narrower-retry-handler", P, "        except (ConnectionRefusedError, TimeoutError, OSError, asyncio.TimeoutError):", "        except (OSError, asyncio.TimeoutError):", "clean"),
    ]


def c04() -> List[M]:
    ARM = "self._timer = asyncio.get_running_loop().call_later(self.timeout, self._timeout_mechanism)"
    return [
        M("C04", "udp-send-without-timer", P, "        self._transport.sendto(payload)\n        " + ARM + "\n", "        self._transport.sendto(payload)\n", "C04.R1"),
        M("C04", "tcp-timer-wrong-delay", P, "        self._transport.write(payload)\n        " + ARM, "        self._transport.write(payload)\n        self._timer = asyncio.get_running_loop().call_later(self.timeout * 1000, self._timeout_mechanism)", "C04.R1"),
        M("C04", "tcp-timer-wrong-callback", P, "        self._transport.write(payload)\n        " + ARM, "        self._transport.write(payload)\n        self._timer = asyncio.get_running_loop().call_later(self.timeout, self._close_transport)", "C04.R1"),
        M("C04", "udp-timer-handle-dropped", P, "        self._transport.sendto(payload)\n        " + ARM, "        self._transport.sendto(payload)\n        asyncio.get_running_loop().call_later(self.timeout, self._timeout_mechanism)", "C04.R1"),
        M("C04", "udp-invalid-datagram-ignored", P, "                asyncio.get_running_loop().call_soon(self._timeout_mechanism)\n", "                pass\n", "C04.R2"),
        M("C04", "udp-partial-no-rearm", P, "            self._partial_missing = ex.expected - ex.length\n            " + ARM + "\n        except asyncio.InvalidStateError:\n            logger.debug(\"Response already handled: %s\", data.hex())\n        except RequestRejectedException as ex:\n            logger.debug(\"Received exception response: %s\", data.hex())\n            self._retry = 0\n            if self.response_future and not self.response_future.done():\n                self.response_future.set_exception(ex)\n            self._close_transport()",
          "            self._partial_missing = ex.expected - ex.length\n        except asyncio.InvalidStateError:\n            logger.debug(\"Response already handled: %s\", data.hex())\n        except RequestRejectedException as ex:\n            logger.debug(\"Received exception response: %s\", data.hex())\n            self._retry = 0\n            if self.response_future and not self.response_future.done():\n                self.response_future.set_exception(ex)\n            self._close_transport()", "C04.R2"),
        M("C04", "tcp-invalid-response-ignored", P, "                self.response_future.set_exception(RequestRejectedException())\n                self._close_transport()\n", "                pass\n", "C04.R2"),
        M("C04", "udp-rejected-not-delivered", P, "            if self.response_future and not self.response_future.done():\n                self.response_future.set_exception(ex)\n            self._close_transport()\n", "            pass\n", "C04.R2"),
        M("C04", "udp-timeout-does-not-cancel", P, "            if self.response_future and not self.response_future.done():\n                self.response_future.cancel()\n\n    async def close(self):", "            pass\n\n    async def close(self):", "C04.R3"),
        M("C04", "close-transport-keeps-future-pending", P, "        if self.response_future and not self.response_future.done():\n            self.response_future.cancel()\n\n    async def close(self) -> None:", "        pass\n\n    async def close(self) -> None:", "C04.R3"),
        M("C04", "tcp-timeout-does-not-close", P, "                self._timer = None\n            self._close_transport()\n", "                self._timer = None\n", "C04.R3"),
        M("C04", "udp-retry-no-increment", P, "            if self._retry < self.retries:\n                self._retry += 1\n                if self._lock and self._lock.locked():\n                    self._lock.release()\n                if not self.keep_alive:",
          "            if self._retry < self.retries:\n                if self._lock and self._lock.locked():\n                    self._lock.release()\n                if not self.keep_alive:", "C04.R4"),
        M("C04", "udp-retry-off-by-one", P, "            if self._retry < self.retries:\n                self._retry += 1\n                if self._lock and self._lock.locked():\n                    self._lock.release()\n                if not self.keep_alive:",
          "            if self._retry <= self.retries:\n                self._retry += 1\n                if self._lock and self._lock.locked():\n                    self._lock.release()\n                if not self.keep_alive:", "C04.R4"),
        M("C04", "tcp-connect-retry-no-increment", P, "                logger.debug(\"Connection refused error.\")\n                self._retry += 1\n", "                logger.debug(\"Connection refused error.\")\n", "C04.R4"),
        M("C04", "tcp-retry-resets-counter", P, "                    logger.debug(\"Connection broken error.\")\n                self._retry += 1\n", "                    logger.debug(\"Connection broken error.\")\n                self._retry += 1\n                self._retry = 0\n", "C04.R4"),
        M("C04", "max-retries-future-left-pending", P, "        self.response_future.set_exception(MaxRetriesException)\n", "", "C04.R4"),
        M("C04", "udp-exhausted-budget-retries-anyway", P, "                return await self.send_request(command)\n            return self._max_retries_reached()\n        except OSError:\n            self._retry = 0",
          "                return await self.send_request(command)\n            return await self.send_request(command)\n        except OSError:\n            self._retry = 0", "C04.R4"),
        M("C04", "tcp-connect-unbounded", P, "            await asyncio.wait_for(self._connect(), timeout=5)", "            await self._connect()", "C04.R5"),
        M("C04", "tcp-connect-bound-50s", P, "            await asyncio.wait_for(self._connect(), timeout=5)", "            await asyncio.wait_for(self._connect(), timeout=50)", "C04.R5"),
        M("C04", "benign-budget-test-flipped", P, "            if self._retry < self.retries:\n                self._retry += 1\n                if self._lock and self._lock.locked():\n                    self._lock.release()\n                if not self.keep_alive:",
          "            if self.retries > self._retry:\n                self._retry = self._retry + 1\n                if self._lock and self._lock.locked():\n                    self._lock.release()\n                if not self.keep_alive:", "clean"),
    ]


def c05() -> List[M]:
    return [
        M("C05", "revert-fix-discover-args", INIT, "UdpInverterProtocol(host, port, 0, timeout, retries)", "UdpInverterProtocol(host, port, timeout, retries)", "C05.R1"),
        M("C05", "revert-fix-search-args", INIT, 'UdpInverterProtocol("255.255.255.255", 48899, 0, 1, 0)', 'UdpInverterProtocol("255.255.255.255", 48899, 1, 0)', "C05.R1"),
        M("C05", "revert-fix-max-retries-reset", P, "        self._close_transport()\n        self._retry = 0\n        self.response_future = asyncio.get_running_loop().create_future()",
          "        self._close_transport()\n        self.response_future = asyncio.get_running_loop().create_future()", "C05.R2"),
        M("C05", "revert-fix-udp-rejected-reset", P, "            self._retry = 0\n            if self.response_future and not self.response_future.done():\n                self.response_future.set_exception(ex)\n            self._close_transport()",
          "            if self.response_future and not self.response_future.done():\n                self.response_future.set_exception(ex)\n            self._close_transport()", "C05.R2"),
        M("C05", "revert-fix-tcp-invalid-reset", P, "                self._retry = 0\n                self.response_future.set_exception(RequestRejectedException())", "                self.response_future.set_exception(RequestRejectedException())", "C05.R2"),
        M("C05", "revert-fix-udp-error-reset", P, "        self._retry = 0\n        try:\n            self.response_future.set_exception(exc)", "        try:\n            self.response_future.set_exception(exc)", "C05.R2"),
        M("C05", "success-does-not-reset", P, "                logger.debug(\"Received: %s\", data.hex())\n                self._retry = 0\n                self.response_future.set_result(data)\n            else:\n                logger.debug(\"Received invalid response: %s\", data.hex())\n                asyncio",
          "                logger.debug(\"Received: %s\", data.hex())\n                self.response_future.set_result(data)\n            else:\n                logger.debug(\"Received invalid response: %s\", data.hex())\n                asyncio", "C05.R2"),
        M("C05", "connect-swaps-timeout-retries", INIT, "        inv = ET(host, port, comm_addr, timeout, retries)", "        inv = ET(host, port, comm_addr, retries, timeout)", "C05.R1"),
        M("C05", "discover-et-uses-default-like-literal-roles", INIT, "                    i = DT(host, port, 0, timeout, retries)", "                    i = DT(host, port, 0, retries, timeout)", "C05.R1"),
        M("C05", "probe-loop-drops-comm-addr", INIT, "        i = inv(host, port, 0, timeout, retries)", "        i = inv(host, port, timeout, retries)", "C05.R1"),
        M("C05", "create-protocol-tcp-swapped", INV, "            return TcpInverterProtocol(host, port, comm_addr, timeout, retries)", "            return TcpInverterProtocol(host, port, comm_addr, retries, timeout)", "C05.R1"),
        M("C05", "es-init-drops-timeout", ES, "        super().__init__(host, port, comm_addr if comm_addr else 0xf7, timeout, retries)\n        self._settings: dict[str, Sensor] = {s.id_: s for s in self.__all_settings}\n\n    def _supports_eco_mode_v2",
          "        super().__init__(host, port, comm_addr if comm_addr else 0xf7, retries, retries)\n        self._settings: dict[str, Sensor] = {s.id_: s for s in self.__all_settings}\n\n    def _supports_eco_mode_v2", "C05.R1"),
        M("C05", "protocol-init-swaps-fields", P, "        self.timeout: int = timeout\n        self.retries: int = retries", "        self.timeout: int = retries\n        self.retries: int = timeout", "C05.R1"),
        M("C05", "udp-init-super-swapped", P, "    def __init__(self, host: str, port: int, comm_addr: int, timeout: int = 1, retries: int = 3):\n        super().__init__(host, port, comm_addr, timeout, retries)",
          "    def __init__(self, host: str, port: int, comm_addr: int, timeout: int = 1, retries: int = 3):\n        super().__init__(host, port, comm_addr, retries, timeout)", "C05.R1"),
        M("C05", "retries-consumed-permanently", P, "                self._retry += 1\n                if self._lock and self._lock.locked():\n                    self._lock.release()\n                if not self.keep_alive:",
          "                self._retry += 1\n                self.retries -= 0\n                if self._lock and self._lock.locked():\n                    self._lock.release()\n                if not self.keep_alive:", "C05.R1"),
        M("C05", "ensure-lock-keeps-old-transport", P, "        self._running_loop = asyncio.get_event_loop()\n        self._close_transport()\n", "        self._running_loop = asyncio.get_event_loop()\n", "C05.R3"),
        M("C05", "ensure-lock-ignores-loop", P, "        if self._lock and self._running_loop == asyncio.get_event_loop():", "        if self._lock:", "C05.R3"),
        M("C05", "revert-fix-close-transport-cancels-timer", P, "    def _close_transport(self) -> None:\n        if self._timer:\n            self._timer.cancel()\n            self._timer = None\n        if self._transport:", "    def _close_transport(self) -> None:\n        if self._transport:", "C05.R4"),
        M("C05", "udp-error-received-skips-close", P, "            logger.debug(\"Response already handled.\")\n        self._close_transport()", "            logger.debug(\"Response already handled.\")", "C05.R4"),
        M("C05", "revert-fix-udp-oserror-reset", P, "        except OSError:\n            self._retry = 0\n            raise\n        finally:", "        finally:", "C05.R2"),
        M("C05", "tcp-exhausted-connect-reraises", P, "                return await self.send_request(command)\n            return self._max_retries_reached()\n        finally:\n            if self._lock and self._lock.locked():\n                self._lock.release()\n\n    def _send_request",
          "                return await self.send_request(command)\n            self._close_transport()\n            raise\n        finally:\n            if self._lock and self._lock.locked():\n                self._lock.release()\n\n    def _send_request", "C05.R2"),
        M("C05", "benign-keyword-arguments", INIT, "        inv = ET(host, port, comm_addr, timeout, retries)", "        inv = ET(host, port, comm_addr, retries=retries, timeout=timeout)", "clean"),
    ]


def c06() -> List[M]:
    UDP_FINALLY = "        finally:\n            if self._lock and self._lock.locked():\n                self._lock.release()\n            if not self.keep_alive:\n                self._close_transport()\n"
    UDP_RETRY = "                self._retry += 1\n                if self._lock and self._lock.locked():\n                    self._lock.release()\n                if not self.keep_alive:\n                    self._close_transport()\n                return await self.send_request(command)"
    return [
        M("C06", "udp-finally-no-release", P, UDP_FINALLY, "        finally:\n            if not self.keep_alive:\n                self._close_transport()\n", "C06.R2"),
        M("C06", "udp-retry-without-release", P, UDP_RETRY, "                self._retry += 1\n                if not self.keep_alive:\n                    self._close_transport()\n                return await self.send_request(command)", "C06.R3|C06.R2"),
        M("C06", "tcp-close-no-release", P, "            self._close_transport()\n        finally:\n            if self._lock and self._lock.locked():\n                self._lock.release()\n\n\nclass ProtocolResponse",
          "            self._close_transport()\n        finally:\n            pass\n\n\nclass ProtocolResponse", "C06.R2"),
        M("C06", "udp-finally-unguarded-release", P, UDP_FINALLY, "        finally:\n            self._lock.release()\n            if not self.keep_alive:\n                self._close_transport()\n", "C06.R2"),
        M("C06", "udp-retry-suspends-before-close", P, UDP_RETRY, "                self._retry += 1\n                if self._lock and self._lock.locked():\n                    self._lock.release()\n                await asyncio.sleep(0)\n                if not self.keep_alive:\n                    self._close_transport()\n                return await self.send_request(command)", "C06.R4"),
        M("C06", "udp-finally-suspends-before-release", P, UDP_FINALLY, "        finally:\n            await asyncio.sleep(0)\n            if self._lock and self._lock.locked():\n                self._lock.release()\n            if not self.keep_alive:\n                self._close_transport()\n", "C06.R2|C06.R4"),
        M("C06", "execute-suspends-before-close", P, "            if not protocol.keep_alive:\n                await protocol.close()", "            if not protocol.keep_alive:\n                await asyncio.sleep(0)\n                await protocol.close()", "C06.R4"),
        M("C06", "udp-close-suspends", P, "    async def close(self):\n        self._close_transport()\n", "    async def close(self):\n        await asyncio.sleep(0)\n        self._close_transport()\n", "C06.R4"),
        M("C06", "tcp-retry-sends-outside-lock", P, "                    self._lock.release()\n                self._close_transport()\n                return await self.send_request(command)", "                    self._lock.release()\n                self._send_request(command, asyncio.get_running_loop().create_future())\n                return await self.send_request(command)", "C06.R1|C06.R3"),
        M("C06", "connect-rebinds-future", P, "    async def _connect(self) -> None:\n        if not self._transport or self._transport.is_closing():\n            self._transport, self.protocol = await asyncio.get_running_loop().create_datagram_endpoint(",
          "    async def _connect(self) -> None:\n        self.response_future = None\n        if not self._transport or self._transport.is_closing():\n            self._transport, self.protocol = await asyncio.get_running_loop().create_datagram_endpoint(", "C06.R1"),
        M("C06", "udp-awaits-shared-field", P, "            self._send_request(command, response_future)\n            await response_future\n            return response_future\n        except asyncio.CancelledError:\n            if self._retry < self.retries:\n                self._retry += 1",
          "            self._send_request(command, response_future)\n            await self.response_future\n            return response_future\n        except asyncio.CancelledError:\n            if self._retry < self.retries:\n                self._retry += 1", "C06.R5"),
        M("C06", "tcp-returns-shared-field", P, "            await response_future\n            return response_future\n        except asyncio.CancelledError:\n            if self._retry < self.retries:\n                if self._timer:",
          "            await response_future\n            return self.response_future\n        except asyncio.CancelledError:\n            if self._retry < self.retries:\n                if self._timer:", "C06.R5"),
        M("C06", "tcp-send-request-ignores-given-future", P, "        self.response_future = response_future\n        self._partial_data = None\n        self._partial_missing = 0\n        payload = command.request_bytes()\n        if self._retry > 0:\n            logger.debug(\"Sending: %s - retry #%s/%s\", self.command, self._retry, self.retries)\n        else:\n            logger.debug(\"Sending: %s\", self.command)\n        self._transport.write(payload)",
          "        self.response_future = asyncio.get_running_loop().create_future()\n        self._partial_data = None\n        self._partial_missing = 0\n        payload = command.request_bytes()\n        if self._retry > 0:\n            logger.debug(\"Sending: %s - retry #%s/%s\", self.command, self._retry, self.retries)\n        else:\n            logger.debug(\"Sending: %s\", self.command)\n        self._transport.write(payload)", "C06.R5"),
        M("C06", "udp-timer-cancel-moved-to-success-branch", P, "        \"\"\"On datagram received\"\"\"\n        if self._timer:\n            self._timer.cancel()\n            self._timer = None\n        try:", "        \"\"\"On datagram received\"\"\"\n        try:", "C06.R6"),
        M("C06", "tcp-timer-not-cancelled-on-data", P, "        \"\"\"On data received\"\"\"\n        if self._timer:\n            self._timer.cancel()\n", "        \"\"\"On data received\"\"\"\n", "C06.R6"),
        M("C06", "ensure-lock-always-new", P, "        if self._lock and self._running_loop == asyncio.get_event_loop():\n            return self._lock\n", "", "C06.R7"),
        M("C06", "ensure-lock-new-when-unlocked", P, "        if self._lock and self._running_loop == asyncio.get_event_loop():", "        if self._lock and self._lock.locked() and self._running_loop == asyncio.get_event_loop():", "C06.R7"),
        M("C06", "benign-udp-finally-close-before-release", P, UDP_FINALLY, "        finally:\n            if not self.keep_alive:\n                self._close_transport()\n            if self._lock and self._lock.locked():\n                self._lock.release()\n", "clean"),
    ]


def c07() -> List[M]:
    EXC = "goodwe/exceptions.py"
    return [
        M("C07", "udp-send-keeps-fragment", P, "        self.response_future = response_future\n        self._partial_data = None\n        self._partial_missing = 0\n        payload = command.request_bytes()\n        if self._retry > 0:\n            logger.debug(\"Sending: %s - retry #%s/%s\", self.command, self._retry, self.retries)\n        else:\n            logger.debug(\"Sending: %s\", self.command)\n        self._transport.sendto(payload)",
          "        self.response_future = response_future\n        self._partial_missing = 0\n        payload = command.request_bytes()\n        if self._retry > 0:\n            logger.debug(\"Sending: %s - retry #%s/%s\", self.command, self._retry, self.retries)\n        else:\n            logger.debug(\"Sending: %s\", self.command)\n        self._transport.sendto(payload)", "C07.R1"),
        M("C07", "tcp-clears-after-write", P, "        self._transport.write(payload)\n", "        self._transport.write(payload)\n        self._partial_data = None\n        self._partial_missing = 0\n", "clean"),
        M("C07", "tcp-send-keeps-missing-count", P, "        self._partial_data = None\n        self._partial_missing = 0\n        payload = command.request_bytes()\n        if self._retry > 0:\n            logger.debug(\"Sending: %s - retry #%s/%s\", self.command, self._retry, self.retries)\n        else:\n            logger.debug(\"Sending: %s\", self.command)\n        self._transport.write(payload)",
          "        payload = command.request_bytes()\n        if self._retry > 0:\n            logger.debug(\"Sending: %s - retry #%s/%s\", self.command, self._retry, self.retries)\n        else:\n            logger.debug(\"Sending: %s\", self.command)\n        self._transport.write(payload)\n        self._partial_data = None\n        self._partial_missing = 0", "C07.R1"),
        M("C07", "join-on-at-least-missing", P, "if self._partial_data and self._partial_missing == len(data):", "if self._partial_data and self._partial_missing <= len(data):", "C07.R2", count=2),
        M("C07", "join-without-length-test", P, "if self._partial_data and self._partial_missing == len(data):", "if self._partial_data:", "C07.R2", count=2),
        M("C07", "join-keeps-buffer", P, "                data = self._partial_data + data\n                self._partial_data = None\n", "                data = self._partial_data + data\n", "C07.R2", count=2),
        M("C07", "join-wrong-order", P, "                data = self._partial_data + data\n", "                data = data + self._partial_data\n", "C07.R2", count=2),
        M("C07", "timeout-reads-fragment", P, "            if self._timer:\n                logger.debug(\"Failed to receive response to %s in time (%ds).\", self.command, self.timeout)\n                self._timer = None\n            if self.response_future and not self.response_future.done():\n                self.response_future.cancel()",
          "            if self._timer:\n                logger.debug(\"Failed to receive response to %s in time (%ds).\", self.command, self.timeout)\n                self._timer = None\n            if self._partial_data and self.response_future and not self.response_future.done():\n                self.response_future.set_result(self._partial_data)\n            if self.response_future and not self.response_future.done():\n                self.response_future.cancel()", "C07.R2"),
        M("C07", "missing-count-is-total", P, "            self._partial_missing = ex.expected - ex.length\n", "            self._partial_missing = ex.expected\n", "C07.R3", count=2),
        M("C07", "fragment-not-stored", P, "            self._partial_data = data\n", "            self._partial_data = None\n", "C07.R3", count=2),
        M("C07", "partial-args-swapped", MB, "            raise PartialResponseException(len(data), expected_length)", "            raise PartialResponseException(expected_length, len(data))", "C07.R3", count=2),
        M("C07", "aa55-announces-short-total", P, "            raise PartialResponseException(len(data), data[6] + 9)", "            raise PartialResponseException(len(data), data[6] + 7)", "C07.R3"),
        M("C07", "tcp-partial-without-header", MB, "    if len(data) <= 8:", "    if len(data) <= 7:", "C07.R3"),
        M("C07", "exception-fields-swapped", EXC, "        self.length: int = length\n        self.expected: int = expected", "        self.length: int = expected\n        self.expected: int = length", "C07.R3"),
        M("C07", "udp-partial-rearm-fixed-delay", P, "            self._partial_missing = ex.expected - ex.length\n            self._timer = asyncio.get_running_loop().call_later(self.timeout, self._timeout_mechanism)\n        except asyncio.InvalidStateError:\n            logger.debug(\"Response already handled: %s\", data.hex())\n        except RequestRejectedException as ex:\n            logger.debug(\"Received exception response: %s\", data.hex())\n            self._retry = 0\n            if self.response_future and not self.response_future.done():\n                self.response_future.set_exception(ex)\n            self._close_transport()",
          "            self._partial_missing = ex.expected - ex.length\n            self._timer = asyncio.get_running_loop().call_later(60, self._timeout_mechanism)\n        except asyncio.InvalidStateError:\n            logger.debug(\"Response already handled: %s\", data.hex())\n        except RequestRejectedException as ex:\n            logger.debug(\"Received exception response: %s\", data.hex())\n            self._retry = 0\n            if self.response_future and not self.response_future.done():\n                self.response_future.set_exception(ex)\n            self._close_transport()", "C07.R3"),
        M("C07", "benign-missing-count-rewritten", P, "            self._partial_missing = ex.expected - ex.length\n", "            self._partial_missing = -(ex.length - ex.expected)\n", "clean", count=2),
    ]


def c08() -> List[M]:
    return [
        M("C08", "table-code2-text", MB, "ILLEGAL_DATA_ADDRESS: str = 'ILLEGAL DATA ADDRESS'", "ILLEGAL_DATA_ADDRESS: str = 'ILLEGAL ADDRESS'", "C08.R1"),
        M("C08", "table-codes-shifted", MB, "    3: \"ILLEGAL DATA VALUE\",\n    4: \"SLAVE DEVICE FAILURE\",", "    4: \"ILLEGAL DATA VALUE\",\n    3: \"SLAVE DEVICE FAILURE\",", "C08.R1"),
        M("C08", "rtu-code-byte-wrong", MB, "        failure_code = FAILURE_CODES.get(data[4], \"UNKNOWN\")\n        logger.debug(\"Response is command failure: %s.\", FAILURE_CODES.get(data[4], \"UNKNOWN\"))",
          "        failure_code = FAILURE_CODES.get(data[3], \"UNKNOWN\")\n        logger.debug(\"Response is command failure: %s.\", FAILURE_CODES.get(data[4], \"UNKNOWN\"))", "C08.R1"),
        M("C08", "tcp-default-reason-changed", MB, "        failure_code = FAILURE_CODES.get(data[8], \"UNKNOWN\")", "        failure_code = FAILURE_CODES.get(data[8], \"\")", "C08.R1"),
        M("C08", "tcp-reason-is-code-number", MB, "        failure_code = FAILURE_CODES.get(data[8], \"UNKNOWN\")", "        failure_code = str(data[8])", "C08.R1"),
        M("C08", "rejected-exception-drops-message", "goodwe/exceptions.py", "    def __init__(self, message: str = ''):\n        self.message: str = message", "    def __init__(self, message: str = ''):\n        self.message: str = ''", "C08.R1"),
        M("C08", "udp-rejection-waits-for-timeout", P, "            self._retry = 0\n            if self.response_future and not self.response_future.done():\n                self.response_future.set_exception(ex)\n            self._close_transport()",
          "            self._retry = 0\n            self._timer = asyncio.get_running_loop().call_later(self.timeout, self._timeout_mechanism)", "C08.R2"),
        M("C08", "udp-rejection-cancels-instead", P, "            self._retry = 0\n            if self.response_future and not self.response_future.done():\n                self.response_future.set_exception(ex)\n            self._close_transport()",
          "            self._retry = 0\n            self._close_transport()", "C08.R2"),
        M("C08", "tcp-rejection-replaced", P, "            if self.response_future and not self.response_future.done():\n                self.response_future.set_exception(ex)\n            # self._close_transport()",
          "            if self.response_future and not self.response_future.done():\n                self.response_future.set_exception(RequestRejectedException())\n            # self._close_transport()", "C08.R2"),
        M("C08", "udp-retries-on-inverter-error", P, "        except asyncio.CancelledError:\n            if self._retry < self.retries:\n                self._retry += 1\n                if self._lock and self._lock.locked():",
          "        except (asyncio.CancelledError, RequestRejectedException):\n            if self._retry < self.retries:\n                self._retry += 1\n                if self._lock and self._lock.locked():", "C08.R2"),
        M("C08", "tcp-retries-on-any-exception", P, "        except (ConnectionRefusedError, TimeoutError, OSError, asyncio.TimeoutError):", "        except Exception:", "C08.R2"),
        M("C08", "execute-converts-rejection", P, "        except (asyncio.CancelledError, OSError):\n            raise RequestFailedException(", "        except (asyncio.CancelledError, OSError, RequestRejectedException):\n            raise RequestFailedException(", "C08.R2"),
        M("C08", "read-from-socket-swallows-rejection", INV, "        except RequestFailedException as ex:\n            self._consecutive_failures_count += 1\n            raise RequestFailedException(ex.message, self._consecutive_failures_count) from None",
          "        except RequestRejectedException:\n            return None\n        except RequestFailedException as ex:\n            self._consecutive_failures_count += 1\n            raise RequestFailedException(ex.message, self._consecutive_failures_count) from None", "C08.R2",
          also=[(INV, "from .exceptions import MaxRetriesException, RequestFailedException", "from .exceptions import MaxRetriesException, RequestFailedException, RequestRejectedException")]),
        M("C08", "et-compares-with-literal-typo", ET, "            if ex.message == ILLEGAL_DATA_ADDRESS:\n                logger.debug(\"EcoModeV2 settings not supported, switching to EcoModeV1.\")", "            if ex.message == 'ILLEGAL_DATA_ADDRESS':\n                logger.debug(\"EcoModeV2 settings not supported, switching to EcoModeV1.\")", "C08.R3"),
        M("C08", "benign-dt-compares-with-literal", DT, "            if ex.message == ILLEGAL_DATA_ADDRESS:", "            if ex.message == 'ILLEGAL DATA ADDRESS':", "clean"),
    ]


def c10() -> List[M]:
    return [
        M("C10", "udp-connect-always", P, "        if not self._transport or self._transport.is_closing():\n            self._transport, self.protocol = await asyncio.get_running_loop().create_datagram_endpoint(",
          "        if True:\n            self._transport, self.protocol = await asyncio.get_running_loop().create_datagram_endpoint(", "C10.R1"),
        M("C10", "tcp-connect-guard-inverted", P, "        if not self._transport or self._transport.is_closing():\n            logger.debug(\"Opening connection.\")", "        if self._transport or not self._transport.is_closing():\n            logger.debug(\"Opening connection.\")", "C10.R1"),
        M("C10", "udp-new-transport-not-kept", P, "            self._transport, self.protocol = await asyncio.get_running_loop().create_datagram_endpoint(", "            _, self.protocol = await asyncio.get_running_loop().create_datagram_endpoint(", "C10.R1"),
        M("C10", "close-transport-forgets-without-close", P, "            try:\n                self._transport.close()\n            except RuntimeError:\n                logger.debug(\"Failed to close transport.\")\n            self._transport = None", "            self._transport = None", "C10.R2|C10.R4"),
        M("C10", "udp-connection-made-drops-transport", P, "        \"\"\"On connection made\"\"\"\n        self._transport = transport", "        \"\"\"On connection made\"\"\"\n        self._transport = None", "C10.R2"),
        M("C10", "eof-forgets-transport", P, "        logger.debug(\"EOF received.\")\n        self._close_transport()", "        logger.debug(\"EOF received.\")\n        self._transport = None", "C10.R2|C10.R4"),
        M("C10", "execute-closes-only-when-keepalive", P, "            if not protocol.keep_alive:\n                await protocol.close()", "            if protocol.keep_alive:\n                await protocol.close()", "C10.R3"),
        M("C10", "execute-never-closes", P, "        finally:\n            if not protocol.keep_alive:\n                await protocol.close()", "        finally:\n            pass", "C10.R3|error"),
        M("C10", "udp-close-is-noop", P, "    async def close(self):\n        self._close_transport()\n", "    async def close(self):\n        pass\n", "C10.R3"),
        M("C10", "max-retries-keeps-transport", P, "        self._close_transport()\n        self._retry = 0\n        self.response_future = asyncio.get_running_loop().create_future()", "        self._retry = 0\n        self.response_future = asyncio.get_running_loop().create_future()", "C10.R3"),
        M("C10", "udp-finally-keeps-socket", P, "            if self._lock and self._lock.locked():\n                self._lock.release()\n            if not self.keep_alive:\n                self._close_transport()\n\n    def _send_request", "            if self._lock and self._lock.locked():\n                self._lock.release()\n\n    def _send_request", "C10.R3"),
        M("C10", "tcp-close-skips-when-unlocked", P, "        try:\n            self._close_transport()\n        finally:\n            if self._lock and self._lock.locked():", "        try:\n            if not self._timer:\n                self._close_transport()\n        finally:\n            if self._lock and self._lock.locked():", "C10.R3"),
        M("C10", "close-transport-intolerant", P, "            except RuntimeError:\n                logger.debug(\"Failed to close transport.\")", "            except ValueError:\n                logger.debug(\"Failed to close transport.\")", "C10.R4"),
        M("C10", "udp-connection-lost-keeps-transport", P, "            logger.debug(\"Socket closed.\")\n        self._close_transport()", "            logger.debug(\"Socket closed.\")", "C10.R4"),
        M("C10", "ensure-lock-keeps-old-transport", P, "        self._running_loop = asyncio.get_event_loop()\n        self._close_transport()\n", "        self._running_loop = asyncio.get_event_loop()\n", "C10.R4"),
        M("C10", "es-sends-directly", ES, "        response = await self._read_from_socket(self._READ_DEVICE_RUNNING_DATA)\n", "        response = ProtocolResponse((await self._protocol.send_request(self._READ_DEVICE_RUNNING_DATA)).result(), self._READ_DEVICE_RUNNING_DATA)\n", "C10.R3"),
        M("C10", "udp-success-closes-socket", P, "                self._retry = 0\n                self.response_future.set_result(data)\n            else:\n                logger.debug(\"Received invalid response: %s\", data.hex())\n                asyncio", "                self._retry = 0\n                self.response_future.set_result(data)\n                self._close_transport()\n            else:\n                logger.debug(\"Received invalid response: %s\", data.hex())\n                asyncio", "C10.R5"),
        M("C10", "udp-finally-closes-always", P, "            if self._lock and self._lock.locked():\n                self._lock.release()\n            if not self.keep_alive:\n                self._close_transport()\n\n    def _send_request", "            if self._lock and self._lock.locked():\n                self._lock.release()\n            self._close_transport()\n\n    def _send_request", "C10.R5|C10.R3"),
        M("C10", "tcp-success-closes-connection", P, "            await response_future\n            return response_future\n        except asyncio.CancelledError:\n            if self._retry < self.retries:\n                if self._timer:", "            await response_future\n            self._close_transport()\n            return response_future\n        except asyncio.CancelledError:\n            if self._retry < self.retries:\n                if self._timer:", "C10.R5"),
        M("C10", "benign-connect-guard-is-none", P, "        if not self._transport or self._transport.is_closing():\n            self._transport, self.protocol = await asyncio.get_running_loop().create_datagram_endpoint(",
          "        if self._transport is None or self._transport.is_closing():\n            self._transport, self.protocol = await asyncio.get_running_loop().create_datagram_endpoint(", "clean"),
    ]


def c14() -> List[M]:
    return [
        M("C14", "et-running-window-shrunk", ET, "self._read_command(0x891c, 0x007d)", "self._read_command(0x891c, 0x0070)", "C14.R1"),
        M("C14", "et-basic-meter-window-one-short", ET, "self._read_command(0x8ca0, 0x2d)", "self._read_command(0x8ca0, 0x2c)", "C14.R1"),
        M("C14", "et-basic-meter-filter-too-wide", ET, "        return s.offset < 36045", "        return s.offset < 36050", "C14.R1"),
        M("C14", "dt-meter-window-one-short", DT, "self._read_command(0x75f3, 0xF)", "self._read_command(0x75f3, 0xE)", "C14.R1"),
        M("C14", "dt-last-sensor-widened", DT, 'Integer("rssi", 30172, "RSSI")', 'Long("rssi", 30172, "RSSI")', "C14.R1"),
        M("C14", "et-ext2-fallback-reads-basic-block", ET, "                    response = await self._read_from_socket(self._READ_METER_DATA_EXTENDED)\n                    data.update(\n                        self._map_response(response, self._sensors_meter))\n                else:\n                    raise ex\n        elif",
          "                    response = await self._read_from_socket(self._READ_METER_DATA)\n                    data.update(\n                        self._map_response(response, self._sensors_meter))\n                else:\n                    raise ex\n        elif", "C14.R1"),
        M("C14", "et-battery2-window-short", ET, "self._read_command(0x9858, 0x0016)", "self._read_command(0x9858, 0x0015)", "C14.R1"),
        M("C14", "et-getter-reads-outside-window", ET, "                   read_bytes2_signed(data, 35140),\n                   \"House Consumption\"", "                   read_bytes2_signed(data, 36008),\n                   \"House Consumption\"", "C14.R1"),
        M("C14", "et-modbus-n-reads-four-bytes", ET, "            response = await self._read_from_socket(self._read_command(int(sensor_id[7:]), 1))\n            return int.from_bytes(response.read(2), byteorder=\"big\", signed=True)",
          "            response = await self._read_from_socket(self._read_command(int(sensor_id[7:]), 1))\n            return int.from_bytes(response.read(4), byteorder=\"big\", signed=True)", "C14.R2"),
        M("C14", "benign-basic-meter-window-wider", ET, "self._read_command(0x8ca0, 0x2d)", "self._read_command(0x8ca0, 0x2e)", "clean"),
    ]


def c15() -> List[M]:
    return [
        M("C15", "et-sensors-forgets-battery2", ET, "        if self._has_battery2:\n            result = result + self._sensors_battery2\n", "", "C15.R1"),
        M("C15", "et-mppt-refusal-not-recorded", ET, "                    logger.info(\"MPPT values not supported, disabling further attempts.\")\n                    self._has_mppt = False", "                    logger.info(\"MPPT values not supported, disabling further attempts.\")", "C15.R1"),
        M("C15", "et-battery-refusal-not-recorded", ET, "                    logger.info(\"Battery values not supported, disabling further attempts.\")\n                    self._has_battery = False", "                    logger.info(\"Battery values not supported, disabling further attempts.\")", "C15.R1"),
        M("C15", "et-ext2-refusal-not-recorded", ET, "                    self._has_meter_extended2 = False\n", "", "C15.R2"),
        M("C15", "et-sensors-always-lists-mppt", ET, "        if self._has_mppt:\n            result = result + self._sensors_mppt", "        result = result + self._sensors_mppt", "C15.R1"),
        M("C15", "dt-meter-refusal-not-recorded", DT, "                logger.info(\"Meter values not supported, disabling further attempts.\")\n                self._has_meter = False", "                logger.info(\"Meter values not supported, disabling further attempts.\")", "C15.R1"),
        M("C15", "dt-sensors-ignores-meter-flag", DT, "        if self._has_meter:\n            result = result + self._sensors_meter\n        return result", "        result = result + self._sensors_meter\n        return result", "C15.R1"),
        M("C15", "et-745-forgets-mppt-flag", ET, "            self._has_mppt = True\n            self._has_meter_extended = True", "            self._has_meter_extended = True", "clean"),
        M("C15", "es-sensors-other-table", ES, "    def sensors(self) -> tuple[Sensor, ...]:\n        return self.__sensors", "    def sensors(self) -> tuple[Sensor, ...]:\n        return self.__sensors[:10]", "C15.R3"),
        M("C15", "benign-et-ext-refusal-retried-every-call", ET, "                    self._has_meter_extended = False\n", "", "clean"),
        M("C15", "benign-et-sensors-order", ET, "        if self._has_battery:\n            result = result + self._sensors_battery\n        if self._has_battery2:\n            result = result + self._sensors_battery2\n",
          "        if self._has_battery2:\n            result = result + self._sensors_battery2\n        if self._has_battery:\n            result = result + self._sensors_battery\n", "clean"),
    ]


def c12() -> List[M]:
    return [
        M("C12", "voltage-scale-changed", S, "    value = int.from_bytes(buffer.read(2), byteorder=\"big\", signed=False)\n    return float(value) / 10 if value != 0xffff else 0\n\n\ndef encode_voltage",
          "    value = int.from_bytes(buffer.read(2), byteorder=\"big\", signed=False)\n    return float(value) / 100 if value != 0xffff else 0\n\n\ndef encode_voltage", "C12.R1"),
        M("C12", "bytes2-read-signed", S, "    value = int.from_bytes(buffer.read(2), byteorder=\"big\", signed=False)\n    return undef if value == 0xffff else value", "    value = int.from_bytes(buffer.read(2), byteorder=\"big\", signed=True)\n    return undef if value == 0xffff else value", "C12.R1"),
        M("C12", "temp-sentinel-dropped", S, "    if value == -1 or value == 32767:", "    if value == -1:", "C12.R1"),
        M("C12", "bytes4-signed-little-endian", S, "    return int.from_bytes(buffer.read(4), byteorder=\"big\", signed=True)", "    return int.from_bytes(buffer.read(4), byteorder=\"little\", signed=True)", "C12.R1"),
        M("C12", "energy4w-scale-changed", S, "        return float(value) / 1000 if value is not None else None", "        return float(value) / 100 if value is not None else None", "C12.R1"),
        M("C12", "freq-scale-changed", S, "    value = int.from_bytes(buffer.read(2), byteorder=\"big\", signed=True)\n    return float(value) / 100\n", "    value = int.from_bytes(buffer.read(2), byteorder=\"big\", signed=True)\n    return float(value) / 10\n", "C12.R1"),
        M("C12", "integer-sentinel-becomes-none", S, "        return read_bytes2(data, None, 0)\n\n    def encode_value(self, value: Any, register_value: bytes = None) -> bytes:\n        return int.to_bytes(int(value), length=2, byteorder=\"big\", signed=False)",
          "        return read_bytes2(data)\n\n    def encode_value(self, value: Any, register_value: bytes = None) -> bytes:\n        return int.to_bytes(int(value), length=2, byteorder=\"big\", signed=False)", "C12.R1"),
        M("C12", "bytel-reads-high-byte", S, "    def read_value(self, data: ProtocolResponse):\n        read_byte(data)\n        return read_byte(data)\n\n    def encode_value", "    def read_value(self, data: ProtocolResponse):\n        return read_byte(data)\n\n    def encode_value", "C12.R1"),
        M("C12", "ecomode-v1-fields-swapped", S, "        self.on_off = read_byte(data)\n        if self.on_off not in (0, -1):\n            raise ValueError(f\"{self.id_}: on_off value {self.on_off} out of range.\")\n        self.day_bits = read_byte(data)",
          "        self.day_bits = read_byte(data)\n        self.on_off = read_byte(data)\n        if self.on_off not in (0, -1):\n            raise ValueError(f\"{self.id_}: on_off value {self.on_off} out of range.\")", "C12.R1"),
        M("C12", "schedule-soc-read-unsigned-4", S, "        self.soc = read_bytes2_signed(data)", "        self.soc = read_bytes2(data, None, 0)", "C12.R1"),
        M("C12", "sensor-read-without-seek", INV, "        data.seek(self.offset)\n        return self.read_value(data)", "        return self.read_value(data)", "C12.R2"),
        M("C12", "power4-fixed-address", S, "    def read_value(self, data: ProtocolResponse):\n        return read_bytes4(data)\n", "    def read_value(self, data: ProtocolResponse):\n        return read_bytes4(data, 35105)\n", "C12.R2"),
        M("C12", "bitmap4-no-seek", S, "        bits = read_bytes4_signed(data, self.offset)", "        bits = read_bytes4_signed(data)", "C12.R2"),
        M("C12", "bitmap22-low-word-from-high-offset", S, "read_bytes2(data, self.offset, 0) << 16 + read_bytes2(data, self._offsetL, 0)", "read_bytes2(data, self.offset, 0) << 16 + read_bytes2(data, self.offset + 6, 0)", "C12.R2"),
        M("C12", "rtu-offset-map-scale", P, "        return (address - self.first_address) * 2\n\n\nclass ModbusRtuReadCommand", "        return (address - self.first_address) * 4\n\n\nclass ModbusRtuReadCommand", "C12.R3"),
        M("C12", "response-seek-raw-address", P, "            self._bytes.seek(self.command.get_offset(address))", "            self._bytes.seek(address)", "C12.R3"),
        M("C12", "apparent4-reads-two-bytes", S, "    \"\"\"Sensor representing apparent power [VA] value encoded in 4 bytes\"\"\"\n\n    def __init__(self, id_: str, offset: int, name: str, kind: Optional[SensorKind]):\n        super().__init__(id_, offset, name, 4, \"VA\", kind)\n\n    def read_value(self, data: ProtocolResponse):\n        return read_bytes4_signed(data)",
          "    \"\"\"Sensor representing apparent power [VA] value encoded in 4 bytes\"\"\"\n\n    def __init__(self, id_: str, offset: int, name: str, kind: Optional[SensorKind]):\n        super().__init__(id_, offset, name, 4, \"VA\", kind)\n\n    def read_value(self, data: ProtocolResponse):\n        return read_bytes2_signed(data)", "C12.R1|C12.R4"),
        M("C12", "benign-voltage-conditional-flipped", S, "    value = int.from_bytes(buffer.read(2), byteorder=\"big\", signed=False)\n    return float(value) / 10 if value != 0xffff else 0\n\n\ndef encode_voltage",
          "    value = int.from_bytes(buffer.read(2), byteorder=\"big\", signed=False)\n    if value == 0xffff:\n        return 0\n    return value / 10\n\n\ndef encode_voltage", "clean"),
        M("C12", "benign-temp-sentinels-as-set", S, "    if value == -1 or value == 32767:", "    if value == 32767 or value == -1:", "clean"),
    ]


def c16() -> List[M]:
    return [
        M("C16", "revert-fix-apparent4-size", S, '        super().__init__(id_, offset, name, 4, "VA", kind)', '        super().__init__(id_, offset, name, 2, "VA", kind)', "C16.R1"),
        M("C16", "revert-fix-sensor-map-cache", ET, "        self._sensors_map = {s.id_: s for s in self.sensors()}\n        return self._sensors_map.get(sensor_id)",
          "        if self._sensors_map is None:\n            self._sensors_map = {s.id_: s for s in self.sensors()}\n        return self._sensors_map.get(sensor_id)", "C16.R3"),
        M("C16", "dt-cache-only-when-empty", DT, "        self._sensors_map = {s.id_: s for s in self.sensors()}\n        return self._sensors_map.get(sensor_id)",
          "        if not self._sensors_map:\n            self._sensors_map = {s.id_: s for s in self.sensors()}\n        return self._sensors_map.get(sensor_id)", "C16.R3"),
        M("C16", "et-count-rounds-down", ET, "            count = (sensor.size_ + (sensor.size_ % 2)) // 2", "            count = sensor.size_ // 2", "C16.R1"),
        M("C16", "dt-single-read-next-register", DT, "self._read_command(setting.offset, count))\n            return setting.read_value(response)", "self._read_command(setting.offset + 1, count))\n            return setting.read_value(response)", "C16.R1"),
        M("C16", "energy8-declared-4", S, '        super().__init__(id_, offset, name, 8, "kWh", kind)', '        super().__init__(id_, offset, name, 4, "kWh", kind)', "C16.R1"),
        M("C16", "timestamp-declared-4", S, '        super().__init__(id_, offset, name, 6, "", kind)', '        super().__init__(id_, offset, name, 4, "", kind)', "C16.R1"),
        M("C16", "dt-new-calculated-sensor", DT, '        Integer("rssi", 30172, "RSSI"),\n    )', '        Integer("rssi", 30172, "RSSI"),\n        Calculated("pgrid_total", lambda data: read_bytes4(data, 30127, 0), "Total", "W", Kind.AC),\n    )', "C16.R2"),
        M("C16", "voltage-bulk-decoder-differs", S, "    def read_value(self, data: ProtocolResponse):\n        return read_voltage(data)\n",
          "    def read_value(self, data: ProtocolResponse):\n        return read_voltage(data)\n\n    def read(self, data: ProtocolResponse):\n        return read_current_signed(data, self.offset)\n", "C16.R4"),
        M("C16", "es-read-sensor-single", ES, "        data = await self.read_runtime_data()\n        return data[sensor_id]", "        return None", "C16.R4"),
        M("C16", "benign-count-ceil-other-form", ET, "            count = (sensor.size_ + (sensor.size_ % 2)) // 2", "            count = (sensor.size_ + 1) // 2", "clean"),
    ]


def c13() -> List[M]:
    return [
        M("C13", "label-other-register", ET, 'Enum2("grid_mode_label", 35136, GRID_MODES', 'Enum2("grid_mode_label", 35137, GRID_MODES', "C13.R1"),
        M("C13", "label-other-half", ET, 'EnumL("pv3_mode_label", 35119, PV_MODES', 'EnumH("pv3_mode_label", 35119, PV_MODES', "C13.R1"),
        M("C13", "enum2-sentinel-differs", S, "        return self._labels.get(read_bytes2(data, None, 0))", "        return self._labels.get(read_bytes2(data))", "C13.R1"),
        M("C13", "bitmap4-sentinel-dropped", S, "        return decode_bitmap(bits if bits != -1 else 0, self._labels)", "        return decode_bitmap(bits, self._labels)", "C13.R1"),
        M("C13", "calculated-label-other-register", ET, "                       lambda data: read_grid_mode(data, 35140), GRID_IN_OUT_MODES,", "                       lambda data: read_grid_mode(data, 35138), GRID_IN_OUT_MODES,", "C13.R1"),
        M("C13", "es-enum-label-offset", ES, 'Enum("battery_mode_label", 30, BATTERY_MODES', 'Enum("battery_mode_label", 29, BATTERY_MODES', "C13.R1"),
        M("C13", "bitmap22-words-swapped", ET, 'EnumBitmap22("battery_error", 37012, 37006,', 'EnumBitmap22("battery_error", 37006, 37012,', "C13.R2"),
        M("C13", "benign-bitmap22-parenthesised", S, "read_bytes2(data, self.offset, 0) << 16 + read_bytes2(data, self._offsetL, 0)", "(read_bytes2(data, self.offset, 0) << 16) + read_bytes2(data, self._offsetL, 0)", "clean"),
        M("C13", "benign-bitmap22-bitor", S, "read_bytes2(data, self.offset, 0) << 16 + read_bytes2(data, self._offsetL, 0)", "read_bytes2(data, self.offset, 0) * 65536 + read_bytes2(data, self._offsetL, 0)", "clean"),
        M("C13", "bitmap22-shift-8", S, "read_bytes2(data, self.offset, 0) << 16 + read_bytes2(data, self._offsetL, 0)", "(read_bytes2(data, self.offset, 0) << 8) + read_bytes2(data, self._offsetL, 0)", "C13.R2"),
        M("C13", "decode-bitmap-16-bits", S, "    for i in range(32):\n        if bits & 0x1 == 1:", "    for i in range(16):\n        if bits & 0x1 == 1:", "C13.R2"),
        M("C13", "decode-bitmap-shift-two", S, "        bits = bits >> 1\n", "        bits = bits >> 2\n", "C13.R2"),
        M("C13", "house-consumption-battery-unsigned", ET, "                   read_bytes4_signed(data, 35182) -", "                   read_bytes4(data, 35182, 0) -", "C13.R3"),
        M("C13", "dt-ppv2-wrong-current", DT, '        Calculated("ppv2",\n                   lambda data: round(read_voltage(data, 30105) * read_current(data, 30106)),', '        Calculated("ppv2",\n                   lambda data: round(read_voltage(data, 30105) * read_current(data, 30104)),', "C13.R3"),
        M("C13", "et-ppv-drops-string4", ET, "                   max(0, read_bytes4(data, 35113, 0)) +\n                   max(0, read_bytes4(data, 35117, 0)),", "                   max(0, read_bytes4(data, 35113, 0)),", "C13.R3"),
        M("C13", "et-house-consumption-sign", ET, "                   read_bytes4_signed(data, 35182) -\n                   read_bytes2_signed(data, 35140),", "                   read_bytes4_signed(data, 35182) +\n                   read_bytes2_signed(data, 35140),", "C13.R3"),
        M("C13", "es-plant-power-other-register", ES, "round(read_bytes2(data, 47, 0) + read_bytes2(data, 81, 0))", "round(read_bytes2(data, 47, 0) + read_bytes2(data, 75, 0))", "C13.R3"),
        M("C13", "es-pgrid1-product-without-round", DT, '        Calculated("pgrid1",\n                   lambda data: round(read_voltage(data, 30118) * read_current(data, 30121)),', '        Calculated("pgrid1",\n                   lambda data: int(read_voltage(data, 30118) * read_current(data, 30121)),', "C13.R3"),
        M("C13", "dt-ppv-total-misses-ppv3", DT, "                       round(read_voltage(data, 30105) * read_current(data, 30106))) + (\n                                    round(read_voltage(data, 30107) * read_current(data, 30108))),",
          "                       round(read_voltage(data, 30105) * read_current(data, 30106))),", "C13.R3"),
    ]


def c11() -> List[M]:
    return [
        M("C11", "revert-fix-day-of-week-pop", S, "    days = \"\"\n    for each, dayname in zip(bits[::-1], DAY_NAMES):\n        if each == '1':\n            if len(days) > 0:\n                days += \",\"\n            days += dayname\n    return days",
          "    daynames = list(DAY_NAMES)\n    days = \"\"\n    for each in bits[::-1]:\n        if each == '1':\n            if len(days) > 0:\n                days += \",\"\n            days += daynames[0]\n        daynames.pop(0)\n    return days", "C11.R1"),
        M("C11", "ppv-getter-none-arithmetic", ET, "                   max(0, read_bytes4(data, 35105, 0)) +", "                   max(0, read_bytes4(data, 35105)) +", "C11.R1"),
        M("C11", "energy-float-of-none", S, "        value = read_bytes2(data)\n        return float(value) / 10 if value is not None else None", "        value = read_bytes2(data)\n        return float(value) / 10", "C11.R1"),
        M("C11", "ecomode-raises-keyerror", S, "            raise ValueError(f\"{self.id_}: power value {self.power} out of range.\")\n        self.on_off = read_byte(data)", "            raise KeyError(f\"{self.id_}: power value {self.power} out of range.\")\n        self.on_off = read_byte(data)", "C11.R1"),
        M("C11", "float4-unguarded-unpack", S, "    if len(data) == 4:\n        return unpack('>f', data)[0]\n    return float(0)", "    return unpack('>f', data)[0]", "C11.R1"),
        M("C11", "float-one-arg-round", S, "        return round(read_float4(data) / self.scale, 3)", "        return round(read_float4(data) / self.scale)", "C11.R1"),
        M("C11", "decimal-row-scale-zero", ET, 'Decimal("power_factor", 45482, 100, "Power Factor")', 'Decimal("power_factor", 45482, 0, "Power Factor")', "C11.R1|error"),
        M("C11", "es-dod-getter-none", ES, 'Calculated("dod", lambda data: 100 - read_bytes2(data, 32, 0), "Depth of Discharge", "%")', 'Calculated("dod", lambda data: 100 - read_bytes2(data, 32), "Depth of Discharge", "%")', "C11.R1"),
        M("C11", "schedule-type-detect-raises-lookuperror", S, "        raise ValueError(f\"{value}: on_off value {value} out of range.\")", "        raise LookupError(f\"{value}: on_off value {value} out of range.\")", "C11.R1"),
        M("C11", "map-response-wrong-handler", INV, "            except ValueError:\n                logger.exception(\"Error reading sensor %s.\", sensor.id_)", "            except KeyError:\n                logger.exception(\"Error reading sensor %s.\", sensor.id_)", "C11.R2"),
        M("C11", "map-response-drops-failed-key", INV, "                logger.exception(\"Error reading sensor %s.\", sensor.id_)\n                result[sensor.id_] = None", "                logger.exception(\"Error reading sensor %s.\", sensor.id_)", "C11.R2"),
        M("C11", "map-response-try-around-loop", INV, "        for sensor in sensors:\n            try:\n                result[sensor.id_] = sensor.read(response)\n            except ValueError:\n                logger.exception(\"Error reading sensor %s.\", sensor.id_)\n                result[sensor.id_] = None",
          "        try:\n            for sensor in sensors:\n                result[sensor.id_] = sensor.read(response)\n        except ValueError:\n            logger.exception(\"Error reading sensors.\")", "C11.R2"),
        M("C11", "et-settings-failure-aborts", ET, "            except (ValueError, RequestFailedException):\n                logger.exception(\"Error reading setting %s.\", setting.id_)", "            except ValueError:\n                logger.exception(\"Error reading setting %s.\", setting.id_)", "C11.R2"),
        M("C11", "es-runtime-bypasses-map-response", ES, "        data = self._map_response(response, self.__sensors)\n        return data", "        data = {s.id_: s.read(response) for s in self.__sensors}\n        return data", "C11.R2"),
        M("C11", "benign-map-response-catches-exception", INV, "            except ValueError:\n                logger.exception(\"Error reading sensor %s.\", sensor.id_)", "            except Exception:\n                logger.exception(\"Error reading sensor %s.\", sensor.id_)", "clean"),
    ]


def c18() -> List[M]:
    return [
        M("C18", "et-dod-getter-writes", ET, "    async def get_ongrid_battery_dod(self) -> int:\n        return 100 - await self.read_setting('battery_discharge_depth')",
          "    async def get_ongrid_battery_dod(self) -> int:\n        await self.write_setting('battery_discharge_depth', 10)\n        return 100 - await self.read_setting('battery_discharge_depth')", "C18.R1"),
        M("C18", "es-settings-read-command-is-write", ES, 'Aa55ProtocolCommand("010900", "0189")', 'Aa55ProtocolCommand("030900", "0389")', "C18.R1"),
        M("C18", "dt-runtime-sends-write", DT, "                response = await self._read_from_socket(self._READ_METER_DATA)", "                response = await self._read_from_socket(self._write_command(0x75f3, 0xF))", "C18.R1"),
        M("C18", "es-get-mode-sets-offgrid", ES, "    async def get_operation_mode(self) -> OperationMode | None:\n        mode_id = await self.read_setting('work_mode')\n        try:\n            mode = OperationMode(mode_id)\n        except ValueError:\n            logger.debug(\"Unknown work_mode value %s\", mode_id)\n            return None\n        if OperationMode.ECO != mode:\n            return mode\n        eco_mode = await self.read_setting('eco_mode_1')\n        if eco_mode.is_eco_charge_mode():\n            return OperationMode.ECO_CHARGE\n        if eco_mode.is_eco_discharge_mode():\n            return OperationMode.ECO_DISCHARGE\n        return OperationMode.ECO\n\n    async def set_operation_mode(self, operation_mode: OperationMode, eco_mode_power: int = 100,\n                                 eco_mode_soc: int = 100) -> None:\n        if operation_mode == OperationMode.GENERAL:\n            await self._set_general_mode()",
          "    async def get_operation_mode(self) -> OperationMode | None:\n        await self._set_offgrid_work_mode(0)\n        mode_id = await self.read_setting('work_mode')\n        try:\n            mode = OperationMode(mode_id)\n        except ValueError:\n            logger.debug(\"Unknown work_mode value %s\", mode_id)\n            return None\n        if OperationMode.ECO != mode:\n            return mode\n        eco_mode = await self.read_setting('eco_mode_1')\n        if eco_mode.is_eco_charge_mode():\n            return OperationMode.ECO_CHARGE\n        if eco_mode.is_eco_discharge_mode():\n            return OperationMode.ECO_DISCHARGE\n        return OperationMode.ECO\n\n    async def set_operation_mode(self, operation_mode: OperationMode, eco_mode_power: int = 100,\n                                 eco_mode_soc: int = 100) -> None:\n        if operation_mode == OperationMode.GENERAL:\n            await self._set_general_mode()", "C18.R1"),
        M("C18", "et-read-sensor-unsupported-writes-back", ET, "                self._settings.pop(sensor.id_, None)\n                raise ValueError(f'Unknown sensor/setting \"{sensor.id_}\"')", "                self._settings.pop(sensor.id_, None)\n                await self._read_from_socket(self._write_command(sensor.offset, 0))\n                raise ValueError(f'Unknown sensor/setting \"{sensor.id_}\"')", "C18.R1"),
        M("C18", "discover-uses-send-command", INIT, "            await i.read_device_info()\n            await i.read_runtime_data()", "            await i.read_device_info()\n            await i.send_command(b'\\x00')\n            await i.read_runtime_data()", "C18.R1"),
        M("C18", "benign-es-runtime-payload-concatenated", ES, 'Aa55ProtocolCommand("010600", "0186")', 'Aa55ProtocolCommand("01" + "0600", "0186")', "clean"),
        M("C18", "et-export-limit-accepts-minus-one", ET, "        if export_limit >= 0:\n            await self.write_setting('grid_export_limit', export_limit)", "        if export_limit >= -1:\n            await self.write_setting('grid_export_limit', export_limit)", "C18.R2"),
        M("C18", "dt-export-limit-unguarded", DT, "        if export_limit >= 0:\n            return await self.write_setting('grid_export_limit', export_limit)", "        if True:\n            return await self.write_setting('grid_export_limit', export_limit)", "C18.R2"),
        M("C18", "es-dod-accepts-101", ES, "        if 0 <= dod <= 100:", "        if 0 <= dod <= 101:", "C18.R2"),
        M("C18", "et-dod-upper-unchecked", ET, "        if 0 <= dod <= 100:", "        if 0 <= dod:", "C18.R2"),
        M("C18", "et-eco-power-upper-1000", ET, "            if eco_mode_power < 0 or eco_mode_power > 100:\n                raise ValueError()", "            if eco_mode_power < 0 or eco_mode_power > 1000:\n                raise ValueError()", "C18.R2"),
        M("C18", "es-eco-soc-silently-ignored", ES, "            if eco_mode_soc < 0 or eco_mode_soc > 100:\n                raise ValueError()", "            if eco_mode_soc < 0 or eco_mode_soc > 100:\n                return", "C18.R2"),
        M("C18", "es-eco-check-after-request", ES, "            if eco_mode_power < 0 or eco_mode_power > 100:\n                raise ValueError()\n            if eco_mode_soc < 0 or eco_mode_soc > 100:\n                raise ValueError()\n            eco_mode: EcoMode | Sensor = self._settings.get('eco_mode_1')\n            # Load the current values to try to detect schedule type\n            try:\n                await self._read_setting(eco_mode)\n            except ValueError:\n                pass\n",
          "            eco_mode: EcoMode | Sensor = self._settings.get('eco_mode_1')\n            # Load the current values to try to detect schedule type\n            try:\n                await self._read_setting(eco_mode)\n            except ValueError:\n                pass\n            if eco_mode_power < 0 or eco_mode_power > 100:\n                raise ValueError()\n            if eco_mode_soc < 0 or eco_mode_soc > 100:\n                raise ValueError()\n", "C18.R2"),
        M("C18", "es-charge-limit-upper-unchecked", ES, "        if limit < 0 or limit > 100:\n            raise ValueError()\n        await self._read_from_socket(Aa55ProtocolCommand(\n            f\"032c05", "        if limit < 0:\n            raise ValueError()\n        await self._read_from_socket(Aa55ProtocolCommand(\n            f\"032c05", "C18.R2"),
        M("C18", "benign-et-export-limit-early-return", ET, "        if export_limit >= 0:\n            await self.write_setting('grid_export_limit', export_limit)", "        if export_limit < 0:\n            return\n        await self.write_setting('grid_export_limit', export_limit)", "clean"),
        M("C18", "et-unknown-id-silently-ignored", ET, "            if setting_id.startswith(\"modbus\"):\n                await self._read_from_socket(self._write_command(int(setting_id[7:]), int(value)))\n            else:\n                raise ValueError(f'Unknown setting \"{setting_id}\"')",
          "            if setting_id.startswith(\"modbus\"):\n                await self._read_from_socket(self._write_command(int(setting_id[7:]), int(value)))\n            else:\n                logger.debug('Unknown setting %s', setting_id)", "C18.R3"),
        M("C18", "dt-unknown-id-treated-as-modbus", DT, "            if setting_id.startswith(\"modbus\"):\n                await self._read_from_socket(self._write_command(", "            if True:\n                await self._read_from_socket(self._write_command(", "C18.R3|error"),
        M("C18", "es-unknown-id-written", ES, "            if not setting:\n                raise ValueError(f'Unknown setting \"{setting_id}\"')\n            await self._write_setting(setting, value)", "            await self._write_setting(setting, value)", "C18.R3|error"),
    ]


def c20() -> List[M]:
    return [
        M("C20", "voltage-caches-last-value", S, "    def read_value(self, data: ProtocolResponse):\n        return read_voltage(data)\n", "    def read_value(self, data: ProtocolResponse):\n        self.last_value = read_voltage(data)\n        return self.last_value\n", "C20.R1"),
        M("C20", "calculated-caches-result", S, "    def read(self, data: ProtocolResponse):\n        return self._getter(data)", "    def read(self, data: ProtocolResponse):\n        self._last = self._getter(data)\n        return self._last", "C20.R1"),
        M("C20", "decimal-encode-rescales-definition", S, "        return int.to_bytes(int(float(value) * self.scale), length=2, byteorder=\"big\", signed=True)", "        self.scale = int(self.scale)\n        return int.to_bytes(int(float(value) * self.scale), length=2, byteorder=\"big\", signed=True)", "C20.R1"),
        M("C20", "timestamp-read-returns-self", S, "    def read_value(self, data: ProtocolResponse):\n        return read_datetime(data)", "    def read_value(self, data: ProtocolResponse):\n        self.value = read_datetime(data)\n        return self", "C20.R1"),
        M("C20", "et-sets-schedule-type-directly", ET, "            eco_mode.set_schedule_type(ScheduleType.ECO_MODE, is_745_platform(self))", "            eco_mode.schedule_type = ScheduleType.ECO_MODE", "C20.R1"),
        M("C20", "dt-settings-shared-dict", DT, "        self._settings: dict[str, Sensor] = {s.id_: s for s in self.__all_settings}", "        self._settings: dict[str, Sensor] = DT_SHARED_SETTINGS", "C20.R2",
          also=[(DT, "logger = logging.getLogger(__name__)\n", "logger = logging.getLogger(__name__)\nDT_SHARED_SETTINGS: dict = {}\n")]),
        M("C20", "es-class-level-list-mutated", ES, "        response = await self._read_from_socket(self._READ_DEVICE_RUNNING_DATA)\n", "        response = await self._read_from_socket(self._READ_DEVICE_RUNNING_DATA)\n        self._history.append(response)\n", "C20.R2",
          also=[(ES, '    _READ_DEVICE_SETTINGS_DATA: ProtocolCommand = Aa55ProtocolCommand("010900", "0189")\n', '    _READ_DEVICE_SETTINGS_DATA: ProtocolCommand = Aa55ProtocolCommand("010900", "0189")\n    _history: list = []\n')]),
        M("C20", "et-mutates-label-table", ET, "        self.modbus_version = read_unsigned_int(response, 0)\n", "        self.modbus_version = read_unsigned_int(response, 0)\n        PV_MODES[3] = 'Unknown'\n", "C20.R3"),
        M("C20", "protocol-second-global", P, "def _next_tx() -> bytes:\n    global _modbus_tcp_tx\n", "_last_host = None\n\n\ndef _remember(host):\n    global _last_host\n    _last_host = host\n\n\ndef _next_tx() -> bytes:\n    global _modbus_tcp_tx\n", "C20.R3"),
        M("C20", "aa55-request-bytes-mutates", P, "    def trim_response(self, raw_response: bytes):\n        \"\"\"Trim raw response from header and checksum data\"\"\"\n        return raw_response[7:-2]\n",
          "    def trim_response(self, raw_response: bytes):\n        \"\"\"Trim raw response from header and checksum data\"\"\"\n        return raw_response[7:-2]\n\n    def request_bytes(self) -> bytes:\n        self.request = bytes(self.request)\n        return self.request\n", "C20.R4|C20.R1"),
        M("C20", "benign-voltage-pure-helper-method", S, "    def read_value(self, data: ProtocolResponse):\n        return read_voltage(data)\n", "    def read_value(self, data: ProtocolResponse):\n        value = read_voltage(data)\n        return value\n", "clean"),
    ]


def c17() -> List[M]:
    return [
        M("C17", "voltage-encoder-scale", S, "    return int.to_bytes(int(float(value) * 10), length=2, byteorder=\"big\", signed=False)\n\n\ndef read_current", "    return int.to_bytes(int(float(value) * 100), length=2, byteorder=\"big\", signed=False)\n\n\ndef read_current", "C17.R1"),
        M("C17", "current-encoder-signed", S, "def encode_current(value: Any) -> bytes:\n    \"\"\"Encode current value to raw (2 unsigned bytes) payload\"\"\"\n    return int.to_bytes(int(float(value) * 10), length=2, byteorder=\"big\", signed=False)",
          "def encode_current(value: Any) -> bytes:\n    \"\"\"Encode current value to raw (2 unsigned bytes) payload\"\"\"\n    return int.to_bytes(int(float(value) * 10), length=2, byteorder=\"big\", signed=True)", "C17.R1"),
        M("C17", "integer-encoder-4-bytes", S, "        return int.to_bytes(int(value), length=2, byteorder=\"big\", signed=False)", "        return int.to_bytes(int(value), length=4, byteorder=\"big\", signed=False)", "C17.R1"),
        M("C17", "long-encoder-little-endian", S, "        return int.to_bytes(int(value), length=4, byteorder=\"big\", signed=False)", "        return int.to_bytes(int(value), length=4, byteorder=\"little\", signed=False)", "C17.R1"),
        M("C17", "decimal-encoder-divides", S, "        return int.to_bytes(int(float(value) * self.scale), length=2, byteorder=\"big\", signed=True)", "        return int.to_bytes(int(float(value) / self.scale), length=2, byteorder=\"big\", signed=True)", "C17.R1"),
        M("C17", "byteh-encoder-writes-low-byte", S, "        word = bytearray(register_value)\n        word[0] = int.to_bytes(int(value), length=1, byteorder=\"big\", signed=True)[0]", "        word = bytearray(register_value)\n        word[1] = int.to_bytes(int(value), length=1, byteorder=\"big\", signed=True)[0]", "C17.R1"),
        M("C17", "byteh-encoder-drops-other-half", S, "        word = bytearray(register_value)\n        word[0] = int.to_bytes(int(value), length=1, byteorder=\"big\", signed=True)[0]", "        word = bytearray(2)\n        word[0] = int.to_bytes(int(value), length=1, byteorder=\"big\", signed=True)[0]", "C17.R1"),
        M("C17", "timestamp-encoder-swaps-day-month", S, "        timestamp.month,\n        timestamp.day,", "        timestamp.day,\n        timestamp.month,", "C17.R1"),
        M("C17", "timestamp-encoder-year-offset", S, "        timestamp.year - 2000,", "        timestamp.year - 1900,", "C17.R1"),
        M("C17", "ecomode-v1-encoder-wrong-length", S, "        if isinstance(value, bytes) and len(value) == 8:", "        if isinstance(value, bytes) and len(value) == 12:", "C17.R1"),
        M("C17", "schedule-encoder-skips-validation", S, "        if isinstance(value, bytes) and len(value) == 12:\n            # try to read_value to check if values are valid\n            if self.read_value(ProtocolResponse(value, None)):\n                return value",
          "        if isinstance(value, bytes) and len(value) == 12:\n            return value", "C17.R1"),
        M("C17", "benign-voltage-encoder-commuted", S, "    return int.to_bytes(int(float(value) * 10), length=2, byteorder=\"big\", signed=False)\n\n\ndef read_current", "    return int.to_bytes(int(10 * float(value)), length=2, byteorder=\"big\", signed=False)\n\n\ndef read_current", "clean"),
        M("C17", "et-writes-next-register", ET, "            await self._read_from_socket(self._write_command(setting.offset, value))\n        else:\n            await self._read_from_socket(self._write_multi_command(setting.offset, raw_value))",
          "            await self._read_from_socket(self._write_command(setting.offset + 1, value))\n        else:\n            await self._read_from_socket(self._write_multi_command(setting.offset, raw_value))", "C17.R2"),
        M("C17", "et-long-value-single-write", ET, "        if len(raw_value) <= 2:\n            value = int.from_bytes(raw_value, byteorder=\"big\", signed=True)\n            await self._read_from_socket(self._write_command(setting.offset, value))",
          "        if len(raw_value) > 2:\n            value = int.from_bytes(raw_value, byteorder=\"big\", signed=True)\n            await self._read_from_socket(self._write_command(setting.offset, value))", "C17.R2"),
        M("C17", "dt-multi-write-truncated", DT, "            await self._read_from_socket(self._write_multi_command(setting.offset, raw_value))", "            await self._read_from_socket(self._write_multi_command(setting.offset, raw_value[0:2]))", "C17.R2"),
        M("C17", "dt-writes-twice", DT, "            await self._read_from_socket(self._write_multi_command(setting.offset, raw_value))", "            await self._read_from_socket(self._write_multi_command(setting.offset, raw_value))\n            await self._read_from_socket(self._write_multi_command(setting.offset, raw_value))", "C17.R2"),
        M("C17", "et-rmw-reads-wrong-half-source", ET, "            raw_value = setting.encode_value(value, response.response_data()[0:2])", "            raw_value = setting.encode_value(value, response.response_data()[2:4])", "C17.R2"),
        M("C17", "et-rmw-skipped", ET, "        if setting.size_ == 1:\n            # modbus can address/store only 16 bit values, read the other 8 bytes\n            response = await self._read_from_socket(self._read_command(setting.offset, 1))\n            raw_value = setting.encode_value(value, response.response_data()[0:2])\n        else:\n            raw_value = setting.encode_value(value)",
          "        raw_value = setting.encode_value(value, b'\\x00\\x00')", "C17.R2"),
        M("C17", "es-write-routing-inverted", ES, "            if self._is_modbus_setting(setting):\n                await self._read_from_socket(self._write_command(setting.offset, value))\n            else:\n                await self._read_from_socket(Aa55WriteCommand(setting.offset, value))",
          "            if not self._is_modbus_setting(setting):\n                await self._read_from_socket(self._write_command(setting.offset, value))\n            else:\n                await self._read_from_socket(Aa55WriteCommand(setting.offset, value))", "C17.R2"),
        M("C17", "es-single-value-unsigned", ES, "            value = int.from_bytes(raw_value, byteorder=\"big\", signed=True)", "            value = int.from_bytes(raw_value, byteorder=\"big\", signed=False)", "C17.R2"),
    ]


def c03() -> List[M]:
    return [
        M("C03", "rtu-register-low-byte-wrong", MB, "    data: bytearray = bytearray(6)\n    data[0] = comm_addr\n    data[1] = cmd\n    data[2] = (offset >> 8) & 0xFF\n    data[3] = offset & 0xFF", "    data: bytearray = bytearray(6)\n    data[0] = comm_addr\n    data[1] = cmd\n    data[2] = (offset >> 8) & 0xFF\n    data[3] = (offset >> 8) & 0xFF", "C03.R1"),
        M("C03", "tcp-value-bytes-swapped", MB, "    data[10] = (value >> 8) & 0xFF\n    data[11] = value & 0xFF", "    data[10] = value & 0xFF\n    data[11] = (value >> 8) & 0xFF", "C03.R1"),
        M("C03", "tcp-length-field-wrong", MB, "    data[4] = 0\n    data[5] = 6\n", "    data[4] = 0\n    data[5] = 5\n", "C03.R1"),
        M("C03", "tcp-protocol-id-nonzero", MB, "    data: bytearray = bytearray(12)\n    data[0] = 0\n    data[1] = 1  # Not transaction ID support yet\n    data[2] = 0", "    data: bytearray = bytearray(12)\n    data[0] = 0\n    data[1] = 1  # Not transaction ID support yet\n    data[2] = 1", "C03.R1"),
        M("C03", "rtu-crc-high-byte-first", MB, "    checksum = _modbus_checksum(data)\n    data.append(checksum & 0xFF)\n    data.append((checksum >> 8) & 0xFF)\n    return bytes(data)\n\n\ndef create_modbus_tcp_request", "    checksum = _modbus_checksum(data)\n    data.append((checksum >> 8) & 0xFF)\n    data.append(checksum & 0xFF)\n    return bytes(data)\n\n\ndef create_modbus_tcp_request", "C03.R1"),
        M("C03", "rtu-multi-crc-before-payload", MB, "    data.extend(values)\n    checksum = _modbus_checksum(data)\n    data.append(checksum & 0xFF)", "    checksum = _modbus_checksum(data)\n    data.extend(values)\n    data.append(checksum & 0xFF)", "C03.R1"),
        M("C03", "rtu-multi-count-is-bytes", MB, "    data[5] = len(values) // 2\n    data[6] = len(values)\n    data.extend(values)\n    checksum", "    data[5] = len(values)\n    data[6] = len(values)\n    data.extend(values)\n    checksum", "C03.R1"),
        M("C03", "tcp-multi-length-off-by-one", MB, "    data[5] = 7 + len(values)", "    data[5] = 6 + len(values)", "C03.R1"),
        M("C03", "benign-mask-written-decimal", MB, "    data: bytearray = bytearray(6)\n    data[0] = comm_addr\n    data[1] = cmd\n    data[2] = (offset >> 8) & 0xFF\n    data[3] = offset & 0xFF", "    data: bytearray = bytearray(6)\n    data[0] = comm_addr\n    data[1] = cmd\n    data[2] = 255 & (offset >> 8)\n    data[3] = 0xFF & offset", "clean"),
        M("C03", "benign-tcp-multi-length-commuted", MB, "    data[5] = 7 + len(values)", "    data[5] = len(values) + 7", "clean"),
        M("C03", "revert-fix-aa55-write-negative", P, "{value & 0xFFFF:04x}", "{value:04x}", "C03.R2"),
        M("C03", "rtu-value-high-unmasked", MB, "    data[4] = (value >> 8) & 0xFF\n    data[5] = value & 0xFF\n    checksum", "    data[4] = value >> 8\n    data[5] = value & 0xFF\n    checksum", "C03.R2|C03.R1"),
        M("C03", "es-relay-param-too-wide", ES, "        elif mode == 3:\n            param = 48\n        await self._read_from_socket(Aa55ProtocolCommand(f\"03270200", "        elif mode == 3:\n            param = 480\n        await self._read_from_socket(Aa55ProtocolCommand(f\"03270200", "C03.R2"),
        M("C03", "es-dod-sent-unguarded", ES, "        if 0 <= dod <= 100:\n            await self._read_from_socket(Aa55WriteCommand(0x560, 100 - dod))", "        await self._read_from_socket(Aa55ProtocolCommand(f\"023905056001{100 - dod:04x}\", \"02B9\"))", "C03.R2"),
        M("C03", "aa55-write-length-byte", P, 'f"023905{register:04x}01', 'f"023906{register:04x}01', "C03.R3"),
        M("C03", "aa55-read-length-byte", P, 'f"011A03{offset:04x}{count:02x}"', 'f"011A02{offset:04x}{count:02x}"', "C03.R3"),
        M("C03", "aa55-multi-length-byte", P, 'f"02390B{offset:04x}', 'f"02390C{offset:04x}', "C03.R3"),
        M("C03", "es-charge-limit-length-byte", ES, 'f"032c05{start_h:02x}', 'f"032c04{start_h:02x}', "C03.R3"),
        M("C03", "aa55-checksum-over-other-string", P, '                + self._checksum(bytes.fromhex("AA55C07F" + payload)).hex()', '                + self._checksum(bytes.fromhex("AA55C07F" + payload[2:])).hex()', "C03.R3"),
        M("C03", "aa55-request-checksum-little-endian", P, '        return checksum.to_bytes(2, byteorder="big", signed=False)', '        return checksum.to_bytes(2, byteorder="little", signed=False)', "C03.R3"),
        M("C03", "tx-wraps-to-zero", P, "    if _modbus_tcp_tx == 0xFFFF:\n        _modbus_tcp_tx = 1", "    if _modbus_tcp_tx == 0xFFFF:\n        _modbus_tcp_tx = 0", "C03.R4"),
        M("C03", "tx-not-incremented", P, "    _modbus_tcp_tx += 1\n", "    _modbus_tcp_tx += 0\n", "C03.R4"),
        M("C03", "tx-stamp-wrong-slice", P, "        self.request = _next_tx() + self.request[2:]", "        self.request = _next_tx() + self.request[1:]", "C03.R4"),
        M("C03", "tcp-retransmits-same-tx", P, "        payload = command.request_bytes()\n        if self._retry > 0:\n            logger.debug(\"Sending: %s - retry #%s/%s\", self.command, self._retry, self.retries)\n        else:\n            logger.debug(\"Sending: %s\", self.command)\n        self._transport.write(payload)",
          "        payload = command.request\n        if self._retry > 0:\n            logger.debug(\"Sending: %s - retry #%s/%s\", self.command, self._retry, self.retries)\n        else:\n            logger.debug(\"Sending: %s\", self.command)\n        self._transport.write(payload)", "C03.R4"),
        M("C03", "tx-stamped-per-execute", P, "    def request_bytes(self) -> bytes:\n        \"\"\"Return raw bytes payload, optionally pre-processed\"\"\"\n        # Apply sequential Modbus/TCP transaction identifier\n        self.request = _next_tx() + self.request[2:]\n        return self.request\n",
          "    async def execute(self, protocol: InverterProtocol) -> ProtocolResponse:\n        self.request = _next_tx() + self.request[2:]\n        return await super().execute(protocol)\n", "C03.R4"),
        M("C03", "benign-tx-stamped-in-send-request", P, "        payload = command.request_bytes()\n        if self._retry > 0:\n            logger.debug(\"Sending: %s - retry #%s/%s\", self.command, self._retry, self.retries)\n        else:\n            logger.debug(\"Sending: %s\", self.command)\n        self._transport.write(payload)",
          "        payload = command.request_bytes()\n        payload = _next_tx() + payload[2:]\n        command.request = payload\n        if self._retry > 0:\n            logger.debug(\"Sending: %s - retry #%s/%s\", self.command, self._retry, self.retries)\n        else:\n            logger.debug(\"Sending: %s\", self.command)\n        self._transport.write(payload)", "clean",
          also=[(P, "        # Apply sequential Modbus/TCP transaction identifier\n        self.request = _next_tx() + self.request[2:]\n        return self.request", "        return self.request")]),
        M("C03", "benign-tx-wrap-at-65536", P, "    if _modbus_tcp_tx == 0xFFFF:\n        _modbus_tcp_tx = 1", "    if _modbus_tcp_tx == 0x10000:\n        _modbus_tcp_tx = 1", "clean"),
    ]


def c19() -> List[M]:
    return [
        M("C19", "et-backup-writes-offgrid-code", ET, "            await self.write_setting('work_mode', 2)", "            await self.write_setting('work_mode', 1)", "C19.R1"),
        M("C19", "et-eco-charge-leaves-general", ET, "            await self.write_setting('eco_mode_4_switch', 0)\n            await self.write_setting('work_mode', 3)", "            await self.write_setting('eco_mode_4_switch', 0)\n            await self.write_setting('work_mode', 0)", "C19.R1"),
        M("C19", "es-backup-ends-in-general", ES, "        await self._set_offgrid_work_mode(0)\n        await self._set_work_mode(OperationMode.BACKUP)", "        await self._set_offgrid_work_mode(0)\n        await self._set_work_mode(OperationMode.GENERAL)", "C19.R1"),
        M("C19", "es-eco-charge-sets-general-mode", ES, "            await self.write_setting('eco_mode_4_switch', 0)\n            await self._set_eco_mode()", "            await self.write_setting('eco_mode_4_switch', 0)\n            await self._set_general_mode()", "C19.R1"),
        M("C19", "et-getter-reads-other-setting", ET, "        mode_id = await self.read_setting('work_mode')", "        mode_id = await self.read_setting('grid_export')", "C19.R1"),
        M("C19", "es-getter-swaps-emulated-modes", ES, "        if eco_mode.is_eco_charge_mode():\n            return OperationMode.ECO_CHARGE\n        if eco_mode.is_eco_discharge_mode():\n            return OperationMode.ECO_DISCHARGE", "        if eco_mode.is_eco_charge_mode():\n            return OperationMode.ECO_DISCHARGE\n        if eco_mode.is_eco_discharge_mode():\n            return OperationMode.ECO_CHARGE", "C19.R1"),
        M("C19", "es-offers-peak-shaving", ES, "        result.remove(OperationMode.PEAK_SHAVING)\n        result.remove(OperationMode.SELF_USE)", "        result.remove(OperationMode.SELF_USE)", "C19.R2"),
        M("C19", "es-offers-self-use", ES, "        result.remove(OperationMode.PEAK_SHAVING)\n        result.remove(OperationMode.SELF_USE)", "        result.remove(OperationMode.PEAK_SHAVING)", "C19.R2"),
        M("C19", "et-self-use-branch-dropped", ET, "        elif operation_mode == OperationMode.SELF_USE:\n            await self.write_setting('work_mode', 5)\n            await self._set_offline(False)\n            await self._clear_battery_mode_param()\n", "", "C19.R2|C19.R1"),
        M("C19", "benign-et-always-offers-peak-shaving", ET, "        if not self._has_peak_shaving:\n            result.remove(OperationMode.PEAK_SHAVING)\n", "", "clean"),
        M("C19", "et-group2-left-on", ET, "            await self.write_setting('eco_mode_2_switch', 0)", "            await self.write_setting('eco_mode_2_switch', 1)", "C19.R3"),
        M("C19", "es-group4-not-switched-off", ES, "            await self.write_setting('eco_mode_4_switch', 0)\n", "", "C19.R3"),
        M("C19", "et-charge-args-swapped", ET, "eco_mode.encode_charge(eco_mode_power, eco_mode_soc)", "eco_mode.encode_charge(eco_mode_soc, eco_mode_power)", "C19.R3"),
        M("C19", "et-eco-written-to-group2", ET, "                await self.write_setting('eco_mode_1', eco_mode.encode_discharge(eco_mode_power))", "                await self.write_setting('eco_mode_2', eco_mode.encode_discharge(eco_mode_power))", "C19.R3"),
        M("C19", "et-discharge-branch-encodes-charge", ET, "                await self.write_setting('eco_mode_1', eco_mode.encode_discharge(eco_mode_power))", "                await self.write_setting('eco_mode_1', eco_mode.encode_charge(eco_mode_power))", "C19.R3"),
        M("C19", "v1-template-end-hour-24", S, 'return bytes.fromhex("0000173b{:04x}ff7f".format((-1 * abs(eco_mode_power)) & (2 ** 16 - 1)))', 'return bytes.fromhex("0000183b{:04x}ff7f".format((-1 * abs(eco_mode_power)) & (2 ** 16 - 1)))', "C19.R4"),
        M("C19", "v1-template-six-days", S, 'return bytes.fromhex("0000173b{:04x}ff7f".format(abs(eco_mode_power)))', 'return bytes.fromhex("0000173b{:04x}ff3f".format(abs(eco_mode_power)))', "C19.R4"),
        M("C19", "v1-discharge-negative-power", S, 'return bytes.fromhex("0000173b{:04x}ff7f".format(abs(eco_mode_power)))', 'return bytes.fromhex("0000173b{:04x}ff7f".format((-1 * abs(eco_mode_power)) & (2 ** 16 - 1)))', "C19.R4"),
        M("C19", "schedule-on-off-byte-off-by-one", S, "            \"0000173b{:02x}7f{:04x}{:04x}{:04x}\".format(\n                255 - self.schedule_type,", "            \"0000173b{:02x}7f{:04x}{:04x}{:04x}\".format(\n                254 - self.schedule_type,", "C19.R4"),
        M("C19", "schedule-months-other-mask", S, "                eco_mode_soc,\n                0 if self.schedule_type != ScheduleType.ECO_MODE_745 else 0x0fff))", "                eco_mode_soc,\n                0 if self.schedule_type != ScheduleType.ECO_MODE_745 else 0x0ffe))", "C19.R4"),
        M("C19", "schedule-charge-power-unmasked-positive", S, "                (-1 * abs(self.schedule_type.encode_power(eco_mode_power))) & (2 ** 16 - 1),", "                abs(self.schedule_type.encode_power(eco_mode_power)),", "C19.R4"),
        M("C19", "recogniser-needs-all-eight-bits", S, "            and self.on_off == (-1 - self.schedule_type) \\\n            and self.day_bits == 127 \\\n            and self.power < 0 \\", "            and self.on_off == (-1 - self.schedule_type) \\\n            and self.day_bits == -1 \\\n            and self.power < 0 \\", "C19.R4"),
        M("C19", "encode-power-745-x100", S, "        if self == ScheduleType.ECO_MODE_745:\n            return value * 10\n        return value", "        if self == ScheduleType.ECO_MODE_745:\n            return value * 100\n        return value", "C19.R4"),
        M("C19", "range-745-too-narrow", S, "            return -1000 <= value <= 1000", "            return -100 <= value <= 100", "C19.R4"),
        M("C19", "revert-fix-es-forces-eco-type", ES, "            eco_mode.set_schedule_type(ScheduleType.ECO_MODE, False)\n", "", "C19.R6"),
        M("C19", "et-type-forced-only-after-successful-read", ET, "            try:\n                await self._read_sensor(eco_mode)\n            except ValueError:\n                pass\n            eco_mode.set_schedule_type(ScheduleType.ECO_MODE, is_745_platform(self))",
          "            try:\n                await self._read_sensor(eco_mode)\n                eco_mode.set_schedule_type(ScheduleType.ECO_MODE, is_745_platform(self))\n            except ValueError:\n                pass", "C19.R6"),
        M("C19", "et-forces-peak-shaving-type", ET, "            eco_mode.set_schedule_type(ScheduleType.ECO_MODE, is_745_platform(self))", "            eco_mode.set_schedule_type(ScheduleType.PEAK_SHAVING, is_745_platform(self))", "C19.R6"),
        M("C19", "et-dod-written-raw", ET, "            await self.write_setting('battery_discharge_depth', 100 - dod)", "            await self.write_setting('battery_discharge_depth', dod)", "C19.R5"),
        M("C19", "et-dod-getter-other-base", ET, "        return 100 - await self.read_setting('battery_discharge_depth')", "        return 99 - await self.read_setting('battery_discharge_depth')", "C19.R5"),
        M("C19", "es-dod-sent-raw", ES, "Aa55WriteCommand(0x560, 100 - dod)", "Aa55WriteCommand(0x560, dod)", "C19.R5"),
        M("C19", "dt-export-limit-writes-switch", DT, "            return await self.write_setting('grid_export_limit', export_limit)", "            return await self.write_setting('grid_export', export_limit)", "C19.R5"),
        M("C19", "et-export-limit-getter-other-id", ET, "        return await self.read_setting('grid_export_limit')", "        return await self.read_setting('grid_export')", "C19.R5"),
    ]



def scan() -> List[M]:
    """Single-point mutants found undetected by tools/mutscan.py (the suite passes on each of them) and the rules added
    for them."""
    return [
        M("C19", "scan-es-power-100-rejected", ES, "            if eco_mode_power < 0 or eco_mode_power > 100:", "            if eco_mode_power < 0 or eco_mode_power >= 100:", "C19.R8"),
        M("C19", "scan-et-soc-0-rejected", ET, "            if eco_mode_soc < 0 or eco_mode_soc > 100:", "            if eco_mode_soc <= 0 or eco_mode_soc > 100:", "C19.R8"),
        M("C19", "scan-dt-export-limit-0-ignored", DT, "        if export_limit >= 0:", "        if export_limit > 0:", "C19.R8"),
        M("C19", "scan-et-power-0-rejected-is-fine", ET, "            if eco_mode_power < 0 or eco_mode_power > 100:", "            if eco_mode_power <= 0 or eco_mode_power > 100:", "clean"),
        M("C19", "scan-es-switch-offset", ES, 'ByteH("eco_mode_1_switch", 1796,', 'ByteH("eco_mode_1_switch", 1797,', "C19.R3"),
        M("C19", "scan-discharge-recogniser-excludes-1", S, "            and self.power > 0 \\", "            and self.power > 1 \\", "C19.R4"),
        M("C17", "scan-es-known-setting-not-written", ES, "            await self._write_setting(setting, value)\n", "            pass\n", "C17.R4"),
        M("C17", "scan-dt-modbus-write-register-parse", DT, "self._write_command(int(setting_id[7:]), int(value))", "self._write_command(int(setting_id[8:]), int(value))", "C17.R4"),
        M("C14", "scan-et-modbus-read-unsigned", ET, "            response = await self._read_from_socket(self._read_command(int(sensor_id[7:]), 1))\n            return int.from_bytes(response.read(2), byteorder=\"big\", signed=True)",
          "            response = await self._read_from_socket(self._read_command(int(sensor_id[7:]), 1))\n            return int.from_bytes(response.read(2), byteorder=\"big\", signed=False)", "C14.R2"),
        M("C14", "scan-dt-modbus-read-one-byte", DT, "            response = await self._read_from_socket(self._read_command(int(setting_id[7:]), 1))\n            return int.from_bytes(response.read(2),",
          "            response = await self._read_from_socket(self._read_command(int(setting_id[7:]), 1))\n            return int.from_bytes(response.read(1),", "C14.R2"),
        M("C14", "scan-dt-modbus-read-register-parse", DT, "self._read_command(int(sensor_id[7:]), 1)", "self._read_command(int(sensor_id[8:]), 1)", "C14.R2"),
        M("C14", "scan-et-modbus-read-two-registers", ET, "self._read_command(int(setting_id[7:]), 1)", "self._read_command(int(setting_id[7:]), 2)", "C14.R2"),
        M("C14", "scan-dt-modbus-read-swapped-args", DT, "self._read_command(int(sensor_id[7:]), 1)", "self._read_command(1, int(sensor_id[7:]))", "C14.R2"),
        M("C02", "scan-execute-result-test-negated", P, "            if result is not None:\n                return ProtocolResponse(result, self)", "            if result is None:\n                return ProtocolResponse(result, self)", "C02.R8"),
        M("C02", "scan-tcp-multi-count-doubled", P, "            create_modbus_tcp_multi_request(comm_addr, MODBUS_WRITE_MULTI_CMD, offset, values),\n            MODBUS_WRITE_MULTI_CMD, offset, len(values) // 2)",
          "            create_modbus_tcp_multi_request(comm_addr, MODBUS_WRITE_MULTI_CMD, offset, values),\n            MODBUS_WRITE_MULTI_CMD, offset, len(values) * 2)", "C02.R5"),
        M("C04", "scan-retry-reset-to-minus-one", P, "            logger.debug(\"Response already received.\")\n            self._retry = 0", "            logger.debug(\"Response already received.\")\n            self._retry = -1", "C04.R4"),
        M("C07", "scan-rtu-first-fragment-5-bytes-refused", MB, "    if len(data) <= 4:", "    if len(data) <= 5:", "C07.R3"),
        M("C07", "scan-tcp-first-fragment-9-bytes-refused", MB, "    if len(data) <= 8:", "    if len(data) <= 9:", "C07.R3"),
        M("C07", "scan-udp-fragment-never-joined", P, "                data = self._partial_data + data\n", "                pass\n", "C07.R2", count=2),
        M("C03", "scan-aa55-write-mask-drops-bit", P, "{value & 0xFFFF:04x}", "{value & 0xFFFE:04x}", "C03.R2"),
        M("C09", "scan-connect-guard-and", P, "        if not self._transport or self._transport.is_closing():", "        if not self._transport and self._transport.is_closing():", "C09.R6", count=2),
        M("C09", "scan-release-guard-or", P, "        finally:\n            if self._lock and self._lock.locked():\n                self._lock.release()\n            if not self.keep_alive:",
          "        finally:\n            if self._lock or self._lock.locked():\n                self._lock.release()\n            if not self.keep_alive:", "C09.R6"),
        M("C02", "scan-execute-result-never-read", P, "            result = response_future.result()\n", "            result = None\n", "C02.R8"),
        M("C09", "scan-map-response-swapped-arguments", ET, "data.update(self._map_response(response, self._sensors_battery))", "data.update(self._map_response(self._sensors_battery, response))", "C09.R1|error"),
        # round-8 seeds (sibling variants): rules added, and the neighbouring rewrites that must stay silent
        M("C08", "h-tcp-write-branch-on-command", MB, "    elif data[7] in (MODBUS_WRITE_CMD, MODBUS_WRITE_MULTI_CMD):\n        if len(data) < 12:", "    elif cmd in (MODBUS_WRITE_CMD, MODBUS_WRITE_MULTI_CMD):\n        if len(data) < 12:", "C08.R5"),
        M("C08", "h-rtu-write-branch-on-command", MB, "    elif data[3] in (MODBUS_WRITE_CMD, MODBUS_WRITE_MULTI_CMD):\n        if len(data) < 10:", "    elif cmd in (MODBUS_WRITE_CMD, MODBUS_WRITE_MULTI_CMD):\n        if len(data) < 10:", "C08.R5"),
        M("C08", "h-benign-tcp-write-branch-both", MB, "    elif data[7] in (MODBUS_WRITE_CMD, MODBUS_WRITE_MULTI_CMD):\n        if len(data) < 12:", "    elif data[7] == cmd and cmd in (MODBUS_WRITE_CMD, MODBUS_WRITE_MULTI_CMD):\n        if len(data) < 12:", "clean"),
        M("C01", "h-benign-tcp-write-branch-both", MB, "    elif data[7] in (MODBUS_WRITE_CMD, MODBUS_WRITE_MULTI_CMD):\n        if len(data) < 12:", "    elif data[7] == cmd and cmd in (MODBUS_WRITE_CMD, MODBUS_WRITE_MULTI_CMD):\n        if len(data) < 12:", "clean"),
        M("C02", "h-benign-tcp-write-branch-both", MB, "    elif data[7] in (MODBUS_WRITE_CMD, MODBUS_WRITE_MULTI_CMD):\n        if len(data) < 12:", "    elif data[7] == cmd and cmd in (MODBUS_WRITE_CMD, MODBUS_WRITE_MULTI_CMD):\n        if len(data) < 12:", "clean"),
        M("C11", "h-benign-es-modbus-setting-read-via-seek", ES, "            response = await self._read_from_socket(self._read_command(setting.offset, count))\n            return setting.read_value(response)\n        response = await self._read_from_socket(Aa55ReadCommand(",
          "            response = await self._read_from_socket(self._read_command(setting.offset, count))\n            return setting.read(response)\n        response = await self._read_from_socket(Aa55ReadCommand(", "clean"),
        M("C16", "h-benign-es-modbus-setting-read-via-seek", ES, "            response = await self._read_from_socket(self._read_command(setting.offset, count))\n            return setting.read_value(response)\n        response = await self._read_from_socket(Aa55ReadCommand(",
          "            response = await self._read_from_socket(self._read_command(setting.offset, count))\n            return setting.read(response)\n        response = await self._read_from_socket(Aa55ReadCommand(", "clean"),
        M("C17", "h-benign-es-modbus-setting-read-via-seek", ES, "            response = await self._read_from_socket(self._read_command(setting.offset, count))\n            return setting.read_value(response)\n        response = await self._read_from_socket(Aa55ReadCommand(",
          "            response = await self._read_from_socket(self._read_command(setting.offset, count))\n            return setting.read(response)\n        response = await self._read_from_socket(Aa55ReadCommand(", "clean"),
        M("C19", "h-benign-es-modbus-setting-read-via-seek", ES, "            response = await self._read_from_socket(self._read_command(setting.offset, count))\n            return setting.read_value(response)\n        response = await self._read_from_socket(Aa55ReadCommand(",
          "            response = await self._read_from_socket(self._read_command(setting.offset, count))\n            return setting.read(response)\n        response = await self._read_from_socket(Aa55ReadCommand(", "clean"),
        M("C16", "h-es-aa55-setting-read-via-seek", ES, "        response = await self._read_from_socket(Aa55ReadCommand(setting.offset, count))\n        return setting.read_value(response)",
          "        response = await self._read_from_socket(Aa55ReadCommand(setting.offset, count))\n        return setting.read(response)", "C16.R1"),
        M("C17", "h-es-aa55-setting-read-via-seek", ES, "        response = await self._read_from_socket(Aa55ReadCommand(setting.offset, count))\n        return setting.read_value(response)",
          "        response = await self._read_from_socket(Aa55ReadCommand(setting.offset, count))\n        return setting.read(response)", "C17.R5"),
        M("C19", "h-es-aa55-setting-read-via-seek", ES, "        response = await self._read_from_socket(Aa55ReadCommand(setting.offset, count))\n        return setting.read_value(response)",
          "        response = await self._read_from_socket(Aa55ReadCommand(setting.offset, count))\n        return setting.read(response)", "C19.R9"),
        M("C19", "scan4-detect-type-745-byte", S, "        if value in (6, -7):", "        if value in (6, -8):", "C19.R4"),
        M("C19", "scan4-detect-type-eco-byte", S, "        if value in (0, -1):", "        if value in (0, -2):", "C19.R4"),
        M("C19", "scan4-es-limit-zero-rejected", ES, "        if limit < 0 or limit > 100:", "        if limit <= 0 or limit > 100:", "C19.R2", count=2),
        M("C19", "scan4-benign-es-limit-upper-101", ES, "        if limit < 0 or limit > 100:", "        if limit < 0 or limit > 101:", "clean", count=2),
        M("C18", "scan4-dt-forget-pops-none", DT, "                self._settings.pop(setting.id_, None)", "                self._settings.pop(None, setting.id_)", "C18.R4"),
        M("C09", "scan4-discover-probe-never-sent", INIT, "            response = await DISCOVERY_COMMAND.execute(UdpInverterProtocol(host, port, 0, timeout, retries))\n", "", "C09.R8"),
        M("C17", "scan4-es-read-setting-routing-negated", ES, "        count = (setting.size_ + (setting.size_ % 2)) // 2\n        if self._is_modbus_setting(setting):\n            response = await self._read_from_socket(self._read_command(setting.offset, count))",
          "        count = (setting.size_ + (setting.size_ % 2)) // 2\n        if not self._is_modbus_setting(setting):\n            response = await self._read_from_socket(self._read_command(setting.offset, count))", "C17.R6"),
        M("C19", "scan4-es-read-setting-routing-negated", ES, "        count = (setting.size_ + (setting.size_ % 2)) // 2\n        if self._is_modbus_setting(setting):\n            response = await self._read_from_socket(self._read_command(setting.offset, count))",
          "        count = (setting.size_ + (setting.size_ % 2)) // 2\n        if not self._is_modbus_setting(setting):\n            response = await self._read_from_socket(self._read_command(setting.offset, count))", "C19.R9"),
        M("C09", "scan4-dt-model-fallback-indexes-response-object", DT, "                response = await self._read_from_socket(self._READ_DEVICE_MODEL)\n                response = response.response_data()\n",
          "                response = await self._read_from_socket(self._READ_DEVICE_MODEL)\n", "C09.R1"),
        M("C09", "scan4-dt-read-unsigned-int-swapped", DT, "read_unsigned_int(response, 0)", "read_unsigned_int(0, response)", "C09.R1"),
        M("C19", "scan4-ecomodev1-decoder-refuses-minus-100", S, "        if self.power < -100 or self.power > 100:", "        if self.power < -99 or self.power > 100:", "C19.R4"),
        M("C19", "scan4-benign-ecomodev1-decoder-wider", S, "        if self.power < -100 or self.power > 100:", "        if self.power < -101 or self.power > 100:", "clean"),
        M("C09", "scan4-failure-message-str-minus-str", P, "                \"No valid response received to '\" + self.request.hex() + \"' request.\"", "                \"No valid response received to '\" + self.request.hex() - \"' request.\"", "C09.R1"),
        M("C14", "scan5-dt-modbus-branch-negated", DT, '        if setting_id.startswith("modbus"):\n            response = await self._read_from_socket(self._read_command(int(setting_id[7:]), 1))',
          '        if not setting_id.startswith("modbus"):\n            response = await self._read_from_socket(self._read_command(int(setting_id[7:]), 1))', "C14.R2"),
        M("C14", "scan5-et-modbus-sensor-branch-negated", ET, '        if sensor_id.startswith("modbus"):', '        if not sensor_id.startswith("modbus"):', "C14.R2"),
        M("C19", "scan5-es-emulated-eco-never-sets-work-mode", ES, "            await self.write_setting('eco_mode_4_switch', 0)\n            await self._set_eco_mode()\n", "            await self.write_setting('eco_mode_4_switch', 0)\n", "C19.R1"),
        M("C19", "scan5-es-general-helper-never-sets-work-mode", ES, "        await self._set_offgrid_work_mode(0)\n        await self._set_work_mode(OperationMode.GENERAL)\n", "        await self._set_offgrid_work_mode(0)\n", "C19.R1"),
        # round-12 seeds (sibling variants)
        M("C15", "l-et-battery-table-filter-object", ET, "self._sensors_meter = tuple(filter(self._not_extended_meter2, self._sensors_meter))", "self._sensors_meter = filter(self._not_extended_meter2, self._sensors_meter)", "C15.R0"),
        M("C15", "l-benign-et-meter-table-tuple-of-generator", ET, "self._sensors_meter = tuple(filter(self._not_extended_meter2, self._sensors_meter))", "self._sensors_meter = tuple(s for s in self._sensors_meter if self._not_extended_meter2(s))", "clean"),
        M("C14", "l-benign-et-meter-table-tuple-of-generator", ET, "self._sensors_meter = tuple(filter(self._not_extended_meter2, self._sensors_meter))", "self._sensors_meter = tuple(s for s in self._sensors_meter if self._not_extended_meter2(s))", "clean"),
        M("C04", "l-benign-tcp-connect-in-timeout-scope", P, "            await asyncio.wait_for(self._connect(), timeout=5)\n", "            async with asyncio.timeout(5):\n                await self._connect()\n", "clean"),
        M("C06", "l-benign-tcp-connect-in-timeout-scope", P, "            await asyncio.wait_for(self._connect(), timeout=5)\n", "            async with asyncio.timeout(5):\n                await self._connect()\n", "clean"),
        M("C09", "l-benign-tcp-connect-in-timeout-scope", P, "            await asyncio.wait_for(self._connect(), timeout=5)\n", "            async with asyncio.timeout(5):\n                await self._connect()\n", "clean"),
        M("C04", "l-tcp-connect-in-timeout-scope-60s", P, "            await asyncio.wait_for(self._connect(), timeout=5)\n", "            async with asyncio.timeout(60):\n                await self._connect()\n", "C04.R5"),
        M("C06", "l-benign-tcp-close-async-with-lock", P, "    async def close(self):\n        await self._ensure_lock().acquire()\n        try:\n            self._close_transport()\n        finally:\n            if self._lock and self._lock.locked():\n                self._lock.release()\n",
          "    async def close(self):\n        async with self._ensure_lock():\n            self._close_transport()\n", "clean"),
        M("C10", "l-benign-tcp-close-async-with-lock", P, "    async def close(self):\n        await self._ensure_lock().acquire()\n        try:\n            self._close_transport()\n        finally:\n            if self._lock and self._lock.locked():\n                self._lock.release()\n",
          "    async def close(self):\n        async with self._ensure_lock():\n            self._close_transport()\n", "clean"),
        M("C01", "l-tcp-echo-compared-as-unsigned-bytes", MB, "        response_value = int.from_bytes(data[10:12], byteorder='big', signed=True)\n        if response_value != value:\n            logger.debug(\"Response has wrong value: %X, expected %X.\", response_value, value)\n", "        if data[10:12] != value.to_bytes(2, 'big'):\n            logger.debug(\"Response has wrong value: %s, expected %X.\", data[10:12].hex(), value)\n", "C01.R4"),
        M("C01", "l-benign-tcp-echo-compared-as-signed-bytes", MB, "        response_value = int.from_bytes(data[10:12], byteorder='big', signed=True)\n        if response_value != value:\n            logger.debug(\"Response has wrong value: %X, expected %X.\", response_value, value)\n", "        if data[10:12] != value.to_bytes(2, 'big', signed=True):\n            logger.debug(\"Response has wrong value: %s, expected %X.\", data[10:12].hex(), value)\n", "clean"),
        M("C02", "l-benign-tcp-echo-compared-as-signed-bytes", MB, "        response_value = int.from_bytes(data[10:12], byteorder='big', signed=True)\n        if response_value != value:\n            logger.debug(\"Response has wrong value: %X, expected %X.\", response_value, value)\n", "        if data[10:12] != value.to_bytes(2, 'big', signed=True):\n            logger.debug(\"Response has wrong value: %s, expected %X.\", data[10:12].hex(), value)\n", "clean"),
        M("C04", "l-benign-tcp-echo-compared-as-signed-bytes", MB, "        response_value = int.from_bytes(data[10:12], byteorder='big', signed=True)\n        if response_value != value:\n            logger.debug(\"Response has wrong value: %X, expected %X.\", response_value, value)\n", "        if data[10:12] != value.to_bytes(2, 'big', signed=True):\n            logger.debug(\"Response has wrong value: %s, expected %X.\", data[10:12].hex(), value)\n", "clean"),
        M("C08", "l-benign-tcp-echo-compared-as-signed-bytes", MB, "        response_value = int.from_bytes(data[10:12], byteorder='big', signed=True)\n        if response_value != value:\n            logger.debug(\"Response has wrong value: %X, expected %X.\", response_value, value)\n", "        if data[10:12] != value.to_bytes(2, 'big', signed=True):\n            logger.debug(\"Response has wrong value: %s, expected %X.\", data[10:12].hex(), value)\n", "clean"),
        M("C03", "m-benign-rtu-offset-struct-pack", MB, "    data: bytearray = bytearray(6)\n    data[0] = comm_addr\n    data[1] = cmd\n    data[2] = (offset >> 8) & 0xFF\n    data[3] = offset & 0xFF\n", "    import struct\n    data: bytearray = bytearray(6)\n    data[0] = comm_addr\n    data[1] = cmd\n    data[2:4] = struct.pack(\">H\", offset & 0xFFFF)\n", "clean"),
        M("C03", "m-rtu-offset-struct-pack-little-endian", MB, "    data: bytearray = bytearray(6)\n    data[0] = comm_addr\n    data[1] = cmd\n    data[2] = (offset >> 8) & 0xFF\n    data[3] = offset & 0xFF\n", "    import struct\n    data: bytearray = bytearray(6)\n    data[0] = comm_addr\n    data[1] = cmd\n    data[2:4] = struct.pack(\"<H\", offset & 0xFFFF)\n", "C03.R1"),
        M("C03", "m-rtu-offset-struct-pack-unmasked", MB, "    data: bytearray = bytearray(6)\n    data[0] = comm_addr\n    data[1] = cmd\n    data[2] = (offset >> 8) & 0xFF\n    data[3] = offset & 0xFF\n", "    import struct\n    data: bytearray = bytearray(6)\n    data[0] = comm_addr\n    data[1] = cmd\n    data[2:4] = struct.pack(\">H\", offset)\n", "violation"),
        M("C16", "scan-dt-id-map-never-built", DT, "        self._sensors_map = {s.id_: s for s in self.sensors()}\n        return self._sensors_map.get(sensor_id)", "        return self._sensors_map.get(sensor_id)", "C16.R5"),
    ]

def seeded() -> List[M]:
    """The changes kept under /verif/seeded: every breaking change written by an independent sub-agent must be reported
    by the checks recorded as detecting it; every behaviour-preserving refactoring must leave all 20 checks silent."""
    import glob
    import json
    import os
    root = os.path.dirname(os.path.dirname(os.path.abspath(__file__)))
    out: List[M] = []
    for meta in sorted(glob.glob(os.path.join(root, "seeded", "*", "meta.json"))):
        d = os.path.dirname(meta)
        name = os.path.basename(d)
        try:
            info = json.load(open(meta))
        except ValueError:
            continue
        for pid, lines in sorted((info.get("detected_by") or {}).items()):
            if any("violated" in ln for ln in lines):
                out.append(M(pid, "seed:" + name, "@patch:seeded/%s/patch.diff" % name, "", "", "violation"))
    for patch in sorted(glob.glob(os.path.join(root, "seeded", "benign", "*", "patch.diff"))):
        name = os.path.basename(os.path.dirname(patch))
        for k in range(1, 21):
            out.append(M("C%02d" % k, "refactoring:" + name, "@patch:seeded/benign/%s/patch.diff" % name, "", "", "clean"))
    return out


def corpus() -> List[M]:
    out: List[M] = []
    for name, fn in sorted(globals().items()):
        if len(name) == 3 and name[0] == "c" and name[1:].isdigit() and callable(fn):
            out.extend(fn())
    out.extend(scan())
    out.extend(seeded())
    return out
