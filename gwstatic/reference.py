"""Frozen reference tables (confirmed by reading the pinned tree and the protocol
documentation quoted in the repository's docstrings).  Rules compare *extracted
semantic summaries* against these, never text."""
from __future__ import annotations

from typing import Dict, List, Tuple

from .symx import Lin, Fact

# Modbus exception codes (Modbus Application Protocol v1.1b3, section 7) - C08.R1
MODBUS_EXCEPTION_CODES: Dict[int, str] = {
    1: "ILLEGAL FUNCTION",
    2: "ILLEGAL DATA ADDRESS",
    3: "ILLEGAL DATA VALUE",
    4: "SLAVE DEVICE FAILURE",
    5: "ACKNOWLEDGE",
    6: "SLAVE DEVICE BUSY",
    7: "NEGATIVE ACKNOWLEDGEMENT",   # listed by the repository; code 7 is NAK in older revisions of the standard
    8: "MEMORY PARITY ERROR",
    10: "GATEWAY PATH UNAVAILABLE",
    11: "GATEWAY TARGET DEVICE FAILED TO RESPOND",
}
UNKNOWN_REASON = "UNKNOWN"

MODBUS_READ, MODBUS_WRITE, MODBUS_WRITE_MULTI = 0x03, 0x06, 0x10


def _byte(data: str, i: int) -> Tuple:
    return ("byte", ("var", data), Lin.of_const(i))


def _word(data: str, lo, hi, order: str, signed: bool) -> Tuple:
    lo = Lin.of_const(lo) if isinstance(lo, int) else lo
    hi = Lin.of_const(hi) if isinstance(hi, int) else hi
    return ("int", ("slice", ("var", data), lo, hi), order, signed)


def conforming_modbus(kind: str, data: str, fc: int, lb: int, overhead: int, tail: int, crc_start: int,
                      cmd_t: Tuple, off_t: Tuple, val_t: Tuple, has_crc: bool) -> List[Fact]:
    """What a protocol-conforming answer to a read / write satisfies (the docstrings of the validators
    and of the command classes): used as assumptions to show that no refusing path is feasible."""
    dv = ("var", data)
    ln = Lin.of_term(("len", dv))
    A: List[Fact] = []
    fcb = Lin.of_term(_byte(data, fc))
    A.append(Fact("eq", fcb - Lin.of_term(cmd_t)))                      # function code echoes the command
    if kind == "read":
        A.append(Fact("eq", fcb - Lin.of_const(MODBUS_READ)))
        lbb = Lin.of_term(_byte(data, lb))
        A.append(Fact("eq", lbb - Lin.of_term(val_t).scale(2)))        # byte count = 2 x registers
        A.append(Fact("ge", ln - lbb - Lin.of_const(overhead)))         # whole frame present (trailing bytes allowed)
        end = lbb + Lin.of_const(overhead)
    else:
        A.append(Fact("in", fcb, frozenset((MODBUS_WRITE, MODBUS_WRITE_MULTI))))
        minlen = fc + 5 + tail
        A.append(Fact("ge", ln - Lin.of_const(minlen)))
        A.append(Fact("eq", Lin.of_term(_word(data, fc + 1, fc + 3, "big", False)) - Lin.of_term(off_t)))   # register echo
        A.append(Fact("eq", Lin.of_term(_word(data, fc + 3, fc + 5, "big", True)) - Lin.of_term(val_t)))    # value echo, two's complement
        end = Lin.of_const(minlen)
    if has_crc:
        lo = end - Lin.of_const(2)
        crc = ("call", "_modbus_checksum", (("slice", dv, Lin.of_const(crc_start), lo),))
        A.append(Fact("eq", Lin.of_term(crc) - Lin.of_term(_word(data, lo, end, "little", False))))
    return A


def conforming_aa55(data: str, lb: int, overhead: int, rt_t: Tuple, types_below_0x8000: bool) -> List[Fact]:
    dv = ("var", data)
    ln = Lin.of_term(("len", dv))
    lbb = Lin.of_term(_byte(data, lb))
    A: List[Fact] = [Fact("eq", ln - lbb - Lin.of_const(overhead))]
    want = Lin.of_term(("call", "int", (rt_t, ("lin", Lin.of_const(16)))))
    A.append(Fact("eq", Lin.of_term(_word(data, lb - 2, lb, "big", False)) - want))
    if types_below_0x8000:
        # all response types used by the package are < 0x8000: the signed reading is the same number
        A.append(Fact("eq", Lin.of_term(_word(data, lb - 2, lb, "big", True)) - want))
    A.append(Fact("truthy", None, rt_t))
    sumt = ("call", "sum", (("slice", dv, None, Lin.of_const(-2)),))
    masked = ("call", "BitAnd", (sumt, ("lin", Lin.of_const(0xFFFF))))
    tailw = ("int", ("slice", dv, Lin.of_const(-2), None), "big", False)
    A.append(Fact("eq", Lin.of_term(masked) - Lin.of_term(tailw)))     # 16-bit additive checksum, unsigned
    return A


# Documented interpretation of each sensor type (C12.R1): canonical decoder summaries
#   reads  = bytes consumed after positioning at the sensor's own register (kind+size@byte delta; u/s = unsigned/signed big-endian)
#   cases  = condition -> value, R[...] being the raw register content
# Confirmed on the pinned tree against the class docstrings ("encoded in 2 (unsigned) bytes", ...) and the scales / sentinels
# named in the property (0.1 V, 0.1 A, 0.01 Hz, 0.1 C, 0.1 kWh; Energy4W 0.001, Energy8 0.01; 0xFFFF.. / -1 / 0x7FFF = no value).
# {scale} is the row's own scale argument.
DECODER_REFERENCE = {
    "Timestamp": ("u1@0,u1@1,u1@2,u1@3,u1@4,u1@5", ["always -> datetime((R[u1@0] + 2000), R[u1@1], R[u1@2], R[u1@3], R[u1@4], R[u1@5])"]),
    "Voltage": ("u2@0", ["!R[u2@0]==65535 -> (R[u2@0] * 1/10)", "R[u2@0]==65535 -> 0"]),          # 0.1 V, 0xFFFF -> 0
    "Current": ("u2@0", ["!R[u2@0]==65535 -> (R[u2@0] * 1/10)", "R[u2@0]==65535 -> 0"]),          # 0.1 A
    "CurrentS": ("s2@0", ["always -> (R[s2@0] * 1/10)"]),
    "Frequency": ("s2@0", ["always -> (R[s2@0] * 1/100)"]),                                        # 0.01 Hz
    "Power": ("u2@0", ["!R[u2@0]==65535 -> R[u2@0]", "R[u2@0]==65535 -> None"]),
    "PowerS": ("s2@0", ["always -> R[s2@0]"]),
    "Power4": ("u4@0", ["!R[u4@0]==4294967295 -> R[u4@0]", "R[u4@0]==4294967295 -> None"]),
    "Power4S": ("s4@0", ["always -> R[s4@0]"]),
    "Energy": ("u2@0", ["!R[u2@0]==65535 -> (R[u2@0] * 1/10)", "R[u2@0]==65535 -> None"]),         # 0.1 kWh
    "Energy4": ("u4@0", ["!R[u4@0]==4294967295 -> (R[u4@0] * 1/10)", "R[u4@0]==4294967295 -> None"]),
    "Energy4W": ("u4@0", ["!R[u4@0]==4294967295 -> (R[u4@0] * 1/1000)", "R[u4@0]==4294967295 -> None"]),
    "Energy8": ("u8@0", ["!R[u8@0]==18446744073709551615 -> (R[u8@0] * 1/100)", "R[u8@0]==18446744073709551615 -> None"]),
    "Apparent": ("s2@0", ["always -> R[s2@0]"]),
    "Apparent4": ("s4@0", ["always -> R[s4@0]"]),
    "Reactive": ("s2@0", ["always -> R[s2@0]"]),
    "Reactive4": ("s4@0", ["always -> R[s4@0]"]),
    "Temp": ("s2@0", ["!R[s2@0]==-1 & !R[s2@0]==32767 -> (R[s2@0] * 1/10)", "R[s2@0]==32767 -> None", "R[s2@0]==-1 -> None"]),  # 0.1 C, -1 / 0x7FFF
    "CellVoltage": ("u2@0", ["!R[u2@0]==65535 -> (R[u2@0] * 1/1000)", "R[u2@0]==65535 -> 0"]),
    "Byte": ("s1@0", ["always -> R[s1@0]"]),
    "ByteH": ("s1@0", ["always -> R[s1@0]"]),
    "ByteL": ("s1@0,s1@1", ["always -> R[s1@1]"]),
    "Integer": ("u2@0", ["!R[u2@0]==65535 -> R[u2@0]", "R[u2@0]==65535 -> 0"]),
    "IntegerS": ("s2@0", ["always -> R[s2@0]"]),
    "Long": ("u4@0", ["!R[u4@0]==4294967295 -> R[u4@0]", "R[u4@0]==4294967295 -> 0"]),
    "LongS": ("s4@0", ["always -> R[s4@0]"]),
    "Decimal": ("s2@0", ["always -> (R[s2@0] * 1/{scale})"]),
    "Float": ("float>f4@0", ["always -> round((R[float>f4@0] * 1/{scale}), 3)"]),
    "Enum": ("s1@0", ["always -> label(R[s1@0])"]),
    "EnumH": ("s1@0", ["always -> label(R[s1@0])"]),
    "EnumL": ("s1@0,s1@1", ["always -> label(R[s1@1])"]),
    "Enum2": ("u2@0", ["!R[u2@0]==65535 -> label(R[u2@0])", "R[u2@0]==65535 -> label(0)"]),
}

# field layout of the schedule / eco-mode groups: (attribute, raw field) in wire order
GROUP_LAYOUT = {
    "EcoModeV1": [("start_h", "s1@0"), ("start_m", "s1@1"), ("end_h", "s1@2"), ("end_m", "s1@3"), ("power", "s2@4"), ("on_off", "s1@6"), ("day_bits", "s1@7")],
    "Schedule": [("start_h", "s1@0"), ("start_m", "s1@1"), ("end_h", "s1@2"), ("end_m", "s1@3"), ("on_off", "s1@4"), ("day_bits", "s1@5"),
                 ("power", "s2@6"), ("soc", "s2@8"), ("month_bits", "s2@10")],
}
