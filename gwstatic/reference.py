"""Frozen reference tables (confirmed by reading the pinned tree and the protocol
documentation quoted in the repository's docstrings).  Rules compare *extracted
semantic summaries* against these, never text."""
from __future__ import annotations

from typing import Dict, List, Tuple

from .symx import Lin, Fact

# Modbus exception codes (Modbus Application Protocol v1.1b3, section 7) - C08.R1
MODBUS_EXCEPTION_CODES: Dict[int, str] = {
    1: "ILLEGAL FUNCTION",
    2: "ILLEGAL DATA ADDRESS",
    3: "ILLEGAL DATA VALUE",
    4: "SLAVE DEVICE FAILURE",
    5: "ACKNOWLEDGE",
    6: "SLAVE DEVICE BUSY",
    7: "NEGATIVE ACKNOWLEDGEMENT",   # listed by the repository; code 7 is NAK in older revisions of the standard
    8: "MEMORY PARITY ERROR",
    10: "GATEWAY PATH UNAVAILABLE",
    11: "GATEWAY TARGET DEVICE FAILED TO RESPOND",
}
UNKNOWN_REASON = "UNKNOWN"

MODBUS_READ, MODBUS_WRITE, MODBUS_WRITE_MULTI = 0x03, 0x06, 0x10


def _byte(data: str, i: int) -> Tuple:
    return ("byte", ("var", data), Lin.of_const(i))


def _word(data: str, lo, hi, order: str, signed: bool) -> Tuple:
    lo = Lin.of_const(lo) if isinstance(lo, int) else lo
    hi = Lin.of_const(hi) if isinstance(hi, int) else hi
    return ("int", ("slice", ("var", data), lo, hi), order, signed)


def conforming_modbus(kind: str, data: str, fc: int, lb: int, overhead: int, tail: int, crc_start: int,
                      cmd_t: Tuple, off_t: Tuple, val_t: Tuple, has_crc: bool) -> List[Fact]:
    """What a protocol-conforming answer to a read / write satisfies (the docstrings of the validators
    and of the command classes): used as assumptions to show that no refusing path is feasible."""
    dv = ("var", data)
    ln = Lin.of_term(("len", dv))
    A: List[Fact] = []
    fcb = Lin.of_term(_byte(data, fc))
    A.append(Fact("eq", fcb - Lin.of_term(cmd_t)))                      # function code echoes the command
    if kind == "read":
        A.append(Fact("eq", fcb - Lin.of_const(MODBUS_READ)))
        lbb = Lin.of_term(_byte(data, lb))
        A.append(Fact("eq", lbb - Lin.of_term(val_t).scale(2)))        # byte count = 2 x registers
        A.append(Fact("ge", ln - lbb - Lin.of_const(overhead)))         # whole frame present (trailing bytes allowed)
        end = lbb + Lin.of_const(overhead)
    else:
        A.append(Fact("in", fcb, frozenset((MODBUS_WRITE, MODBUS_WRITE_MULTI))))
        minlen = fc + 5 + tail
        A.append(Fact("ge", ln - Lin.of_const(minlen)))
        A.append(Fact("eq", Lin.of_term(_word(data, fc + 1, fc + 3, "big", False)) - Lin.of_term(off_t)))   # register echo
        A.append(Fact("eq", Lin.of_term(_word(data, fc + 3, fc + 5, "big", True)) - Lin.of_term(val_t)))    # value echo, two's complement
        end = Lin.of_const(minlen)
    if has_crc:
        lo = end - Lin.of_const(2)
        crc = ("call", "_modbus_checksum", (("slice", dv, Lin.of_const(crc_start), lo),))
        A.append(Fact("eq", Lin.of_term(crc) - Lin.of_term(_word(data, lo, end, "little", False))))
    return A


def conforming_aa55(data: str, lb: int, overhead: int, rt_t: Tuple, types_below_0x8000: bool) -> List[Fact]:
    dv = ("var", data)
    ln = Lin.of_term(("len", dv))
    lbb = Lin.of_term(_byte(data, lb))
    A: List[Fact] = [Fact("eq", ln - lbb - Lin.of_const(overhead))]
    want = Lin.of_term(("call", "int", (rt_t, ("lin", Lin.of_const(16)))))
    A.append(Fact("eq", Lin.of_term(_word(data, lb - 2, lb, "big", False)) - want))
    if types_below_0x8000:
        # all response types used by the package are < 0x8000: the signed reading is the same number
        A.append(Fact("eq", Lin.of_term(_word(data, lb - 2, lb, "big", True)) - want))
    A.append(Fact("truthy", None, rt_t))
    sumt = ("call", "sum", (("slice", dv, None, Lin.of_const(-2)),))
    masked = ("call", "BitAnd", (sumt, ("lin", Lin.of_const(0xFFFF))))
    tailw = ("int", ("slice", dv, Lin.of_const(-2), None), "big", False)
    A.append(Fact("eq", Lin.of_term(masked) - Lin.of_term(tailw)))     # 16-bit additive checksum, unsigned
    return A
