"""Command line: python -m gwstatic check <Cxx> [--tier quick|thorough] [--repo DIR]

exit 0  every obligation discharged (or a listed known finding)
exit 1  VIOLATION property=<id> replay=<path>
exit 2  ANALYSIS-ERROR (the analysis cannot give a verdict)
"""
from __future__ import annotations

import argparse
import importlib
import os
import sys
import time
import traceback

from . import AnalysisError, StructuralViolation
from .core import Ctx, Report, apply_known, write_evidence, write_replay

ALL = ["C%02d" % i for i in range(1, 21)]


def run_property(pid: str, repo: str, tier: str = "quick", ctx: Ctx = None):
    """Run the rules of one property. Returns (report, ctx). Raises AnalysisError."""
    mod = importlib.import_module("gwstatic.rules.%s" % pid.lower())
    if ctx is None:
        ctx = Ctx(repo)
    rep = Report(pid, tier)
    try:
        mod.check(ctx, rep)
        if tier == "thorough" and hasattr(mod, "check_thorough"):
            mod.check_thorough(ctx, rep)
        rep.enforce_floors()
    except StructuralViolation as e:
        if pid not in e.pids:
            raise
        rep.rule("%s.R0" % pid, e.rule_text, 1)
        rep.violation("%s.R0" % pid, e.key, e.where, e.msg)
    return rep, ctx, mod


def main(argv=None) -> int:
    ap = argparse.ArgumentParser(prog="gwstatic")
    sub = ap.add_subparsers(dest="cmd", required=True)
    c = sub.add_parser("check")
    c.add_argument("pid")
    c.add_argument("--tier", default=os.environ.get("VERIF_TIER", "quick"), choices=["quick", "thorough"])
    c.add_argument("--repo", default=os.environ.get("GOODWE_REPO", "/repo"))
    c.add_argument("--no-selftest", action="store_true")
    c.add_argument("--verbose", "-v", action="store_true")
    s = sub.add_parser("selftest")
    s.add_argument("pid", nargs="?")
    s.add_argument("--repo", default=os.environ.get("GOODWE_REPO", "/repo"))
    s.add_argument("--jobs", type=int, default=16)
    s.add_argument("--verbose", "-v", action="store_true")
    args = ap.parse_args(argv)

    if args.cmd == "selftest":
        from . import selftest
        res = selftest.run(args.pid, args.repo, jobs=args.jobs, verbose=args.verbose)
        print("selftest: %d variants, %d as expected, %d skipped, %d wrong" % (res["variants"], res["as_expected"], res["skipped"], len(res["wrong"])))
        for w in res["wrong"]:
            print("  WRONG:", w)
        return 0 if not res["wrong"] else 2

    pid = args.pid.upper()
    t0 = time.time()
    rep = Report(pid, args.tier)
    ctx = None
    level = "other"
    explanation = ""
    try:
        rep, ctx, mod = run_property(pid, args.repo, args.tier)
        level = getattr(mod, "LEVEL", "other")
        explanation = getattr(mod, "EXPLANATION", "")
        known = apply_known(rep)
        selftest_res = None
        if args.tier == "thorough" and not args.no_selftest:
            from . import selftest
            selftest_res = selftest.run(pid, args.repo, jobs=int(os.environ.get("GWSTATIC_JOBS", "16")))
            if selftest_res["wrong"]:
                raise AnalysisError("checker self-test failed for %s: %s" % (pid, "; ".join(selftest_res["wrong"][:5])))
        viol = rep.violations()
        status = "violations" if viol else "holds"
        write_evidence(rep, ctx, level, time.time() - t0, explanation, status, selftest_res)
        for o in rep.obligations:
            if o.status == "KNOWN":
                print("KNOWN-FINDING: property=%s %s [%s] %s (%s)" % (pid, o.key, o.rule, o.what, o.where))
        per = {}
        for o in rep.obligations:
            per.setdefault(o.rule, [0, 0])
            per[o.rule][0] += 1
            per[o.rule][1] += o.status == "OK"
        for rid in sorted(rep.rule_text):
            n, ok = per.get(rid, [0, 0])
            print("%-8s %3d/%-3d %s" % (rid, ok, n, rep.rule_text[rid][:110]))
        if args.verbose:
            for n in rep.notes:
                print("note:", n)
        if selftest_res is not None:
            print("selftest: %d variants, %d as expected, %d skipped" % (selftest_res["variants"], selftest_res["as_expected"], selftest_res["skipped"]))
        if viol:
            for o in viol:
                print("  violated %s at %s: %s  [key=%s]" % (o.rule, o.where, o.what, o.key))
                if o.detail and args.verbose:
                    print("     ", o.detail)
            path = write_replay(rep)
            print("VIOLATION property=%s replay=%s" % (pid, path))
            return 1
        print("OK property=%s tier=%s obligations=%d wall=%.2fs" % (pid, args.tier, len(rep.obligations), time.time() - t0))
        return 0
    except AnalysisError as e:
        print("ANALYSIS-ERROR property=%s %s" % (pid, e))
        try:
            write_evidence(rep, ctx, level, time.time() - t0, explanation, "analysis-error", error=str(e))
        except Exception:
            pass
        return 2
    except Exception:
        tb = traceback.format_exc()
        print("ANALYSIS-ERROR property=%s internal error in the checker:\n%s" % (pid, tb))
        try:
            write_evidence(rep, ctx, level, time.time() - t0, explanation, "analysis-error", error=tb[-2000:])
        except Exception:
            pass
        return 2


if __name__ == "__main__":
    sys.exit(main())
