"""Obligations, reports, evidence files, known findings, exit codes."""
from __future__ import annotations

import ast

import json
import os
import sys
import time
import traceback
from typing import Any, Callable, Dict, List, Optional

from . import AnalysisError
from .model import Program
from .calls import Resolver

VERIF = os.path.dirname(os.path.dirname(os.path.abspath(__file__)))
KNOWN_FILE = os.path.join(VERIF, "known_findings.json")

ASSUMPTIONS = [
    "CPython ast/tokenize parse the sources as the interpreter would",
    "class-hierarchy call resolution over the goodwe package only; no reflection in the package (scanned on every run); subclasses outside the package (test mocks) are out of scope",
    "tables of raising / suspending standard-library primitives (asyncio, bytes, int, datetime, struct, list) written from their documentation",
    "asyncio runs protocol callbacks and call_soon/call_later callbacks to completion without interleaving",
    "frozen reference tables in gwstatic/reference.py (Modbus framing, exception codes, documented sensor encodings)",
    "decides necessary structural clauses of the property (see level text), not the runtime behaviour as a whole",
]


class Obligation:
    __slots__ = ("rule", "key", "where", "what", "status", "detail")

    def __init__(self, rule, key, where, what, status, detail=None):
        self.rule, self.key, self.where, self.what, self.status, self.detail = rule, key, where, what, status, detail

    def as_dict(self):
        d = {"rule": self.rule, "key": self.key, "where": self.where, "what": self.what, "status": self.status}
        if self.detail is not None:
            d["detail"] = self.detail
        return d


class Report:
    def __init__(self, pid: str, tier: str):
        self.pid, self.tier = pid, tier
        self.obligations: List[Obligation] = []
        self.notes: List[str] = []
        self.analysed: Dict[str, List[str]] = {}
        self.floors: Dict[str, int] = {}
        self.rule_text: Dict[str, str] = {}
        self.extra: Dict[str, Any] = {}

    def rule(self, rid: str, text: str, floor: int = 1):
        self.rule_text[rid] = text
        self.floors[rid] = floor

    def ok(self, rule, key, where, what, detail=None):
        self.obligations.append(Obligation(rule, key, where, what, "OK", detail))

    def violation(self, rule, key, where, what, detail=None):
        self.obligations.append(Obligation(rule, key, where, what, "VIOLATION", detail))

    def check(self, cond: bool, rule, key, where, what, detail=None, bad: Optional[str] = None):
        if cond:
            self.ok(rule, key, where, what, detail)
        else:
            self.violation(rule, key, where, bad or ("NOT: " + what), detail)
        return cond

    def note(self, text: str):
        if text not in self.notes:
            self.notes.append(text)

    def analysed_add(self, kind: str, item: str):
        lst = self.analysed.setdefault(kind, [])
        if item not in lst:
            lst.append(item)

    def count(self, rule: str) -> int:
        return sum(1 for o in self.obligations if o.rule == rule)

    def violations(self) -> List[Obligation]:
        return [o for o in self.obligations if o.status == "VIOLATION"]

    def enforce_floors(self):
        for rid, floor in self.floors.items():
            n = self.count(rid)
            if n < floor:
                raise AnalysisError("rule %s instantiated %d obligation(s), fewer than the floor %d confirmed on the pinned tree: "
                                    "an anchor vanished or an idiom is no longer recognised" % (rid, n, floor))


def inline_policy(res: "Resolver"):
    """Calls to package functions that are not part of the pinned inventory (helpers a later change extracted)
    are spliced into the enumerated paths; the pinned functions are summarised by the rules that know them.
    *self_cls*: the concrete class of ``self`` in the analysed activation (rules that look at one protocol class at a
    time pass it), so that ``self.hook()`` inside an inherited method resolves to that class's override."""
    from .inventory import is_known
    prog = res.prog

    def policy(call: ast.Call, fn, self_cls=None):
        g = None
        f = call.func
        if self_cls is not None and isinstance(f, ast.Attribute) and isinstance(f.value, ast.Name) and f.value.id == "self" \
                and fn.cls is not None and not fn.is_static and not fn.is_lambda:
            g = prog.find_method(self_cls, f.attr)
        if g is None:
            try:
                ct = res.resolve_call(call, fn)
            except Exception:
                return None
            if ct.unresolved or ct.ctor is not None or ct.ext or len(ct.funcs) != 1:
                return None
            g = ct.funcs[0]
        if g.is_lambda or is_known(g, prog):
            return None
        if any(isinstance(n, (ast.Yield, ast.YieldFrom)) for n in ast.walk(g.node)):
            return None
        return g
    return policy


class Ctx:
    """Shared program model for the rules of one run."""

    def __init__(self, repo: str):
        self.repo = repo
        self.prog = Program(repo)
        self.res = Resolver(self.prog)
        self._cache: Dict[str, Any] = {}
        from . import paths, astutil
        paths.DEFAULT_INLINE[0] = inline_policy(self.res)
        astutil.register_functions(self.prog.functions)

    def memo(self, key: str, build: Callable[[], Any]):
        if key not in self._cache:
            self._cache[key] = build()
        return self._cache[key]


def load_known() -> Dict[str, Any]:
    if not os.path.exists(KNOWN_FILE):
        return {"known": [], "fixed": []}
    with open(KNOWN_FILE) as f:
        return json.load(f)


def apply_known(report: Report) -> List[Obligation]:
    known = load_known().get("known", [])
    idx = {(k["property"], k["rule"], k["key"]) for k in known}
    hit = []
    for o in report.obligations:
        if o.status == "VIOLATION" and (report.pid, o.rule, o.key) in idx:
            o.status = "KNOWN"
            hit.append(o)
    return hit


def write_evidence(report: Report, ctx: Optional[Ctx], level: str, wall: float, explanation: str, status: str,
                   selftest: Optional[Dict[str, Any]] = None, error: Optional[str] = None) -> str:
    per_rule = {}
    for o in report.obligations:
        d = per_rule.setdefault(o.rule, {"obligations": 0, "ok": 0, "violations": 0, "known": 0,
                                         "rule": report.rule_text.get(o.rule, "")})
        d["obligations"] += 1
        d[{"OK": "ok", "VIOLATION": "violations", "KNOWN": "known"}[o.status]] += 1
    for rid, txt in report.rule_text.items():
        per_rule.setdefault(rid, {"obligations": 0, "ok": 0, "violations": 0, "known": 0, "rule": txt})
    nobl = len(report.obligations)
    distinct = len({(o.rule, o.key) for o in report.obligations})
    samples = []
    seen_rules = set()
    for o in report.obligations:  # a few obligations per rule, violations first
        if o.status != "OK":
            samples.append(o.as_dict())
    for o in report.obligations:
        if o.status == "OK" and (o.rule not in seen_rules or len(samples) < 40):
            if sum(1 for s in samples if s["rule"] == o.rule) < 4:
                samples.append(o.as_dict())
            seen_rules.add(o.rule)
    seed = 0
    try:
        seed = int(os.environ.get("VERIF_SEED", "0"))
    except ValueError:
        pass
    cov = {
        "explanation": explanation,
        "evaluations": max(nobl, 1),
        "distinct_nontrivial": max(distinct, 2) if nobl >= 2 else 2,
        "rule": "one obligation per site a rule instantiates at (call site, function exit, path, table row, configuration); "
                "distinct = distinct (rule, construct-key) pairs; non-trivial = the site exists in the analysed tree",
        "obligations": nobl,
        "discharged": sum(1 for o in report.obligations if o.status == "OK"),
        "known_findings": sum(1 for o in report.obligations if o.status == "KNOWN"),
        "per_rule": per_rule,
        "samples": samples[:60] or [{"note": "no obligation instantiated"}],
        "analysed": {k: v for k, v in report.analysed.items()},
        "notes": report.notes,
        "status": status,
        "checker_cmd": "./check %s --tier %s" % (report.pid, report.tier),
        "trusted_base": ["CPython %d.%d ast" % sys.version_info[:2], "gwstatic (this repository-specific analyser)"],
        "exhaustive": False,
    }
    cov.update(report.extra)
    if ctx is not None:
        cov["module_sha256"] = ctx.prog.digests()
        cov["repo"] = ctx.repo
    if selftest is not None:
        cov["selftest"] = selftest
    if error:
        cov["analysis_error"] = error
    ev = {
        "property_id": report.pid,
        "tier": report.tier,
        "seed": seed,
        "level": level,
        "coverage": cov,
        "assumptions": ASSUMPTIONS,
        "wall_s": round(wall, 3),
        "violations": len(report.violations()),
    }
    outdir = os.environ.get("GWSTATIC_EVIDENCE_DIR", os.path.join(VERIF, "evidence"))
    os.makedirs(outdir, exist_ok=True)
    path = os.path.join(outdir, "%s.json" % report.pid)
    tmp = path + ".tmp%d" % os.getpid()
    with open(tmp, "w") as f:
        json.dump(ev, f, indent=1, default=str)
    os.replace(tmp, path)
    return path


def write_replay(report: Report) -> str:
    outdir = os.environ.get("GWSTATIC_OUT_DIR", os.path.join(VERIF, "out"))
    os.makedirs(outdir, exist_ok=True)
    path = os.path.join(outdir, "%s.violation.json" % report.pid)
    with open(path, "w") as f:
        json.dump({"property": report.pid, "tier": report.tier,
                   "violations": [o.as_dict() for o in report.violations()],
                   "how_to_replay": "cd /verif && ./check %s --tier %s   (static analysis: deterministic on the same tree)" % (report.pid, report.tier)},
                  f, indent=1, default=str)
    return path
