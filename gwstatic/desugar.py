"""Desugaring of bounded reflection.

`getattr(obj, "name")` (also with a default: over-approximated by the plain load), `setattr(obj, "name", value)` and loops `for f in <constant tuple of strings>: ... getattr(x, f) ...`
denote ordinary attribute accesses with a finite, syntactically known set of names.  They are rewritten into those
accesses (loops unrolled) before the program model is built, so that every analysis sees plain attribute loads and
stores.  Any other use of getattr / setattr stays in the tree and is refused by the reflection scan."""
from __future__ import annotations

import ast
import copy
from typing import Dict, List, Optional, Tuple


def _const_names(mod_tree: ast.Module) -> Dict[str, Tuple[str, ...]]:
    out: Dict[str, Tuple[str, ...]] = {}
    for st in mod_tree.body:
        tgt = val = None
        if isinstance(st, ast.Assign) and len(st.targets) == 1 and isinstance(st.targets[0], ast.Name):
            tgt, val = st.targets[0].id, st.value
        elif isinstance(st, ast.AnnAssign) and isinstance(st.target, ast.Name) and st.value is not None:
            tgt, val = st.target.id, st.value
        if tgt and isinstance(val, (ast.Tuple, ast.List)) and val.elts and all(isinstance(e, ast.Constant) and isinstance(e.value, str) for e in val.elts):
            out[tgt] = tuple(e.value for e in val.elts)
    return out


def _uses_reflection_on(body: List[ast.stmt], var: str) -> bool:
    for st in body:
        for n in ast.walk(st):
            if isinstance(n, ast.Call) and isinstance(n.func, ast.Name) and n.func.id in ("getattr", "setattr") and len(n.args) >= 2 \
                    and isinstance(n.args[1], ast.Name) and n.args[1].id == var:
                return True
    return False


class _Subst(ast.NodeTransformer):
    def __init__(self, var: str, value: str):
        self.var, self.value = var, value

    def visit_Name(self, n):
        if n.id == self.var and isinstance(n.ctx, ast.Load):
            return ast.copy_location(ast.Constant(value=self.value), n)
        return n


class _Rewrite(ast.NodeTransformer):
    def __init__(self, consts: Dict[str, Tuple[str, ...]]):
        self.consts = consts
        self.count = 0

    def _names_of(self, it: ast.expr) -> Optional[Tuple[str, ...]]:
        if isinstance(it, (ast.Tuple, ast.List)) and it.elts and all(isinstance(e, ast.Constant) and isinstance(e.value, str) for e in it.elts):
            return tuple(e.value for e in it.elts)
        if isinstance(it, ast.Name) and it.id in self.consts:
            return self.consts[it.id]
        return None

    def visit_For(self, node: ast.For):
        names = self._names_of(node.iter)
        if names is not None and isinstance(node.target, ast.Name) and not node.orelse and len(names) <= 32 \
                and _uses_reflection_on(node.body, node.target.id) \
                and not any(isinstance(n, (ast.Break, ast.Continue)) for st in node.body for n in ast.walk(st)):
            out: List[ast.stmt] = []
            for name in names:
                for st in node.body:
                    st2 = _Subst(node.target.id, name).visit(copy.deepcopy(st))
                    out.append(self.visit(st2))
            self.count += 1
            return [ast.fix_missing_locations(s) for s in out]
        return self.generic_visit(node)

    def visit_Expr(self, node: ast.Expr):
        node = self.generic_visit(node)
        c = node.value
        if isinstance(c, ast.Call) and isinstance(c.func, ast.Name) and c.func.id == "setattr" and len(c.args) == 3 and not c.keywords \
                and isinstance(c.args[1], ast.Constant) and isinstance(c.args[1].value, str) and c.args[1].value.isidentifier():
            tgt = ast.Attribute(value=c.args[0], attr=c.args[1].value, ctx=ast.Store())
            self.count += 1
            return ast.fix_missing_locations(ast.copy_location(ast.Assign(targets=[ast.copy_location(tgt, c)], value=c.args[2]), node))
        return node

    def visit_Call(self, node: ast.Call):
        node = self.generic_visit(node)
        if isinstance(node.func, ast.Name) and node.func.id == "getattr" and len(node.args) in (2, 3) and not node.keywords \
                and isinstance(node.args[1], ast.Constant) and isinstance(node.args[1].value, str) and node.args[1].value.isidentifier():
            self.count += 1
            return ast.copy_location(ast.Attribute(value=node.args[0], attr=node.args[1].value, ctx=ast.Load()), node)
        return node


class _MatchToIf(ast.NodeTransformer):
    """match <subject>: case <value patterns> [if guard]: ...   ->   the equivalent if / elif chain.
    Supported patterns: literal / dotted-name values, None / True / False, alternatives of those, the wildcard `_` and a
    bare capture name; anything else (sequence, mapping, class patterns) is left in place and refused by the analyses."""

    def __init__(self):
        self.count = 0

    def _test(self, subject: ast.expr, pat) -> Optional[ast.expr]:
        import copy
        if isinstance(pat, ast.MatchValue):
            return ast.Compare(left=copy.deepcopy(subject), ops=[ast.Eq()], comparators=[pat.value])
        if isinstance(pat, ast.MatchSingleton):
            return ast.Compare(left=copy.deepcopy(subject), ops=[ast.Is()], comparators=[ast.Constant(value=pat.value)])
        if isinstance(pat, ast.MatchOr):
            parts = [self._test(subject, x) for x in pat.patterns]
            if any(x is None for x in parts):
                return None
            if all(isinstance(x, ast.Compare) and isinstance(x.ops[0], ast.Eq) for x in parts):
                return ast.Compare(left=copy.deepcopy(subject), ops=[ast.In()], comparators=[ast.Tuple(elts=[x.comparators[0] for x in parts], ctx=ast.Load())])
            return ast.BoolOp(op=ast.Or(), values=parts)
        return None

    def visit_Match(self, node):
        node = self.generic_visit(node)
        subject = node.subject
        def _pure(x):
            # names, attribute chains, constants and constant subscripts of those (data[3], self.request[5]): evaluating
            # them again gives the same value, and an IndexError comes from the first evaluation in both forms
            if isinstance(x, (ast.Name, ast.Constant)):
                return True
            if isinstance(x, ast.Attribute):
                return _pure(x.value)
            if isinstance(x, ast.Subscript):
                return _pure(x.value) and isinstance(x.slice, ast.Constant)
            return False
        if not _pure(subject):
            return node          # evaluating the subject twice could repeat an effect
        chain: List = []
        for case in node.cases:
            pat = case.pattern
            bind = None
            if isinstance(pat, ast.MatchAs) and pat.pattern is None:
                test = ast.Constant(value=True)
                if pat.name is not None:
                    bind = ast.Assign(targets=[ast.Name(id=pat.name, ctx=ast.Store())], value=subject)
            else:
                test = self._test(subject, pat)
                if test is None:
                    return node
            if case.guard is not None:
                if bind is not None:
                    return node
                test = case.guard if isinstance(test, ast.Constant) else ast.BoolOp(op=ast.And(), values=[test, case.guard])
            chain.append((test, ([bind] if bind is not None else []) + list(case.body)))
        result: List[ast.stmt] = []
        for test, body in reversed(chain):
            if isinstance(test, ast.Constant) and test.value is True:
                result = body
            else:
                result = [ast.If(test=test, body=body, orelse=result)]
        self.count += 1
        out = result if result else [ast.Pass()]
        return [ast.fix_missing_locations(ast.copy_location(x, node)) for x in out]


class _StructCalls(ast.NodeTransformer):
    """``_F = struct.Struct('>f')`` at module level and ``_F.unpack(data)`` / ``_F.unpack_from(buf, off)`` /
    ``_F.pack(v)`` / ``_F.size``: the precompiled form of ``struct.unpack('>f', data)`` ... - rewritten into it."""

    def __init__(self, formats: Dict[str, str]):
        self.formats = formats
        self.count = 0

    def visit_Call(self, node: ast.Call):
        self.generic_visit(node)
        f = node.func
        if isinstance(f, ast.Attribute) and isinstance(f.value, ast.Name) and f.value.id in self.formats \
                and f.attr in ("unpack", "unpack_from", "pack", "pack_into", "iter_unpack"):
            self.count += 1
            new = ast.Call(func=ast.Attribute(value=ast.Name(id="struct", ctx=ast.Load()), attr=f.attr, ctx=ast.Load()),
                           args=[ast.Constant(value=self.formats[f.value.id])] + list(node.args), keywords=list(node.keywords))
            return ast.copy_location(new, node)
        return node

    def visit_Attribute(self, node: ast.Attribute):
        self.generic_visit(node)
        if isinstance(node.value, ast.Name) and node.value.id in self.formats and node.attr == "size" and isinstance(node.ctx, ast.Load):
            import struct as _struct
            try:
                return ast.copy_location(ast.Constant(value=_struct.calcsize(self.formats[node.value.id])), node)
            except _struct.error:
                return node
        return node


def _struct_formats(tree: ast.Module) -> Dict[str, str]:
    out: Dict[str, str] = {}
    stores: Dict[str, int] = {}
    for n in ast.walk(tree):
        if isinstance(n, ast.Name) and isinstance(n.ctx, ast.Store):
            stores[n.id] = stores.get(n.id, 0) + 1
    for st in tree.body:
        tgt = val = None
        if isinstance(st, ast.Assign) and len(st.targets) == 1 and isinstance(st.targets[0], ast.Name):
            tgt, val = st.targets[0].id, st.value
        elif isinstance(st, ast.AnnAssign) and isinstance(st.target, ast.Name) and st.value is not None:
            tgt, val = st.target.id, st.value
        if tgt and stores.get(tgt) == 1 and isinstance(val, ast.Call) and len(val.args) == 1 and not val.keywords \
                and isinstance(val.args[0], ast.Constant) and isinstance(val.args[0].value, str) \
                and ((isinstance(val.func, ast.Name) and val.func.id == "Struct")
                     or (isinstance(val.func, ast.Attribute) and val.func.attr == "Struct" and isinstance(val.func.value, ast.Name) and val.func.value.id == "struct")):
            out[tgt] = val.args[0].value
    return out


class _TestOfFreshLocal(ast.NodeTransformer):
    """``x = <call>`` immediately followed by ``if x:`` / ``if not x:`` where x is used nowhere else in the function:
    the call is put back into the test (same evaluation point, same value), so that the rules which read the test
    (``response_future.done()``, ``validator(data)``, ``lock.locked()``) see it."""

    def __init__(self):
        self.count = 0

    def _fn(self, node):
        self.generic_visit(node)
        uses = {}
        for x in ast.walk(node):
            if isinstance(x, ast.Name):
                uses[x.id] = uses.get(x.id, 0) + 1
        params = {a.arg for a in node.args.posonlyargs + node.args.args + node.args.kwonlyargs}

        def fix(block):
            i = 0
            while i + 1 < len(block):
                a, b = block[i], block[i + 1]
                if isinstance(a, ast.Assign) and len(a.targets) == 1 and isinstance(a.targets[0], ast.Name) and isinstance(a.value, ast.Call) \
                        and isinstance(b, ast.If) and a.targets[0].id not in params and uses.get(a.targets[0].id) == 2:
                    nm = a.targets[0].id
                    t = b.test
                    inner = t.operand if isinstance(t, ast.UnaryOp) and isinstance(t.op, ast.Not) else t
                    if isinstance(inner, ast.Name) and inner.id == nm:
                        if inner is t:
                            b.test = a.value
                        else:
                            t.operand = a.value
                        del block[i]
                        self.count += 1
                        continue
                i += 1
            for st in block:
                for fld in ("body", "orelse", "finalbody"):
                    sub = getattr(st, fld, None)
                    if isinstance(sub, list) and sub and isinstance(sub[0], ast.stmt) and not isinstance(st, (ast.FunctionDef, ast.AsyncFunctionDef, ast.ClassDef)):
                        fix(sub)
                for h in getattr(st, "handlers", []) or []:
                    fix(h.body)
        fix(node.body)
        return node

    visit_FunctionDef = _fn
    visit_AsyncFunctionDef = _fn


class _AsyncWithLock(ast.NodeTransformer):
    """``async with <lock>: body`` where <lock> is ``self._lock`` / ``self._ensure_lock()`` (or any expression whose
    attribute chain names a lock) is what the language defines it to be::

        await <lock>.acquire()
        try: body
        finally: <lock>.release()          # unconditional: RuntimeError when the lock is not held any more

    so the lock typestate rules read the acquire and - above all - the unguarded release at the end."""

    def __init__(self):
        self.count = 0

    @staticmethod
    def _lock_expr(e: ast.expr) -> Optional[ast.expr]:
        inner = e.func if isinstance(e, ast.Call) and not e.args and not e.keywords else e
        parts = []
        while isinstance(inner, ast.Attribute):
            parts.append(inner.attr)
            inner = inner.value
        if not isinstance(inner, ast.Name) or not parts:
            return None
        if not any("lock" in p_.lower() for p_ in parts):
            return None
        if isinstance(e, ast.Call) and parts[0] == "_ensure_lock" and inner.id == "self":
            return ast.Attribute(value=ast.Name(id="self", ctx=ast.Load()), attr="_lock", ctx=ast.Load())
        if isinstance(e, ast.Call):
            return None
        return e

    def visit_AsyncWith(self, node: ast.AsyncWith):
        self.generic_visit(node)
        if len(node.items) != 1 or node.items[0].optional_vars is not None:
            return node
        e = node.items[0].context_expr
        rel = self._lock_expr(e)
        if rel is None:
            return node
        import copy
        acq = ast.Expr(value=ast.Await(value=ast.Call(func=ast.Attribute(value=e, attr="acquire", ctx=ast.Load()), args=[], keywords=[])))
        last = node.body[-1]
        relc = ast.Expr(value=ast.Call(func=ast.Attribute(value=copy.deepcopy(rel), attr="release", ctx=ast.Load()), args=[], keywords=[]))
        for x in ast.walk(relc):
            x.lineno = getattr(last, "end_lineno", last.lineno)
            x.end_lineno = x.lineno
            x.col_offset = x.end_col_offset = 0
        tr = ast.Try(body=node.body, handlers=[], orelse=[], finalbody=[relc])
        ast.copy_location(acq, node)
        ast.copy_location(tr, node)
        for x in ast.walk(acq):
            if not hasattr(x, "lineno"):
                ast.copy_location(x, node)
        self.count += 1
        return [acq, tr]


def desugar(trees: Dict[str, ast.Module]) -> int:
    n = 0
    for name, tree in trees.items():
        if any(isinstance(x, ast.AsyncWith) for x in ast.walk(tree)):
            aw = _AsyncWithLock()
            aw.visit(tree)
            if aw.count:
                ast.fix_missing_locations(tree)
                n += aw.count
    for name, tree in trees.items():
        tl = _TestOfFreshLocal()
        tl.visit(tree)
        if tl.count:
            ast.fix_missing_locations(tree)
            n += tl.count
    for name, tree in trees.items():
        fmts = _struct_formats(tree)
        if fmts:
            sc = _StructCalls(fmts)
            sc.visit(tree)
            ast.fix_missing_locations(tree)
            n += sc.count
    if hasattr(ast, "Match"):
        for name, tree in trees.items():
            if any(isinstance(x, ast.Match) for x in ast.walk(tree)):
                mt = _MatchToIf()
                mt.visit(tree)
                ast.fix_missing_locations(tree)
                n += mt.count
    for name, tree in trees.items():
        src = [x for x in ast.walk(tree) if isinstance(x, ast.Call) and isinstance(x.func, ast.Name) and x.func.id in ("getattr", "setattr")]
        if not src:
            continue
        rw = _Rewrite(_const_names(tree))
        rw.visit(tree)
        ast.fix_missing_locations(tree)
        n += rw.count
    return n
