"""C09 - failures surface only as InverterError, with a correct failure count."""
from __future__ import annotations

import ast
from typing import List

from .. import AnalysisError
from ..astutil import call_chain, chain, self_store
from ..core import Ctx, Report
from ..model import ClassInfo, FuncInfo, norm
from ..paths import enumerate_paths
from .proto import net_mayraise, loop_callbacks, proto_classes, protocol_paths, tags, NetValueError, dominated_by_not_done

PID = "C09"
LEVEL = "other"
EXPLANATION = (
    "Exception-escape analysis over the call graph (class-hierarchy/rapid-type resolution, try/except matched through the class "
    "table): network-caused raising primitives are seeded (awaiting / .result() of the response future raises whatever any "
    "set_exception site may store plus CancelledError; endpoint creation raises OSError; wait_for raises TimeoutError; "
    ".decode() of received bytes raises UnicodeDecodeError; int() of decoded identification text raises ValueError) and the escape "
    "set of every public coroutine must lie inside the InverterError family (R1); no exception may leave an event-loop callback, "
    "with Future.set_result/set_exception raising InvalidStateError unless dominated by a not-done() test (R2); the consecutive "
    "failure counter is reset on success, incremented exactly once before each RequestFailedException and passed to it, and "
    "command.execute is reachable from inverter objects only through _read_from_socket (R3); the request is bound to the protocol "
    "object before the transport write, because a failed send calls error_received synchronously (R4). Counter values over "
    "histories and OS behaviour are not decided."
    ' (R5) no class of the InverterError family is a subclass of an exception class that a handler of the protocol layer catches as a network error (OSError, CancelledError, TimeoutError); call-arity TypeErrors are exception sources; a failure kind that no longer reaches its counting handler in _read_from_socket is a violation.'
    ' Indexing text decoded from a response at a fixed position is an IndexError source unless a length test guards it.'
    " (R6) no method of the protocol classes calls a method / reads an attribute on self.<attr> right after a test found it unset, on any path including the exception handlers; an argument whose inferred type cannot match the parameter's annotation is a TypeError source."
    ' (R7) read_device_info() uses an attribute that __init__ leaves None as text only after assigning it on the same path (model predicates summarised); (R8) definite assignment: no local is read before it is assigned on any path of the inverter / protocol classes and of the entry functions connect / discover / search_inverters (discover, whose paths are too many, by a may-assigned dataflow: a read no assignment can have reached).'
    ' (R9, shared with C04.R12) in-flight fields are bound before an attribute of them is used; (R10) self._transport is used in send_request only right after the awaited connect or under a test of it since the last suspension; (R11) no computed-key lookup in a fixed-key dictionary of the protocol object.'
)

DOCUMENTED_EXPLICIT = ("ValueError", "NotImplementedError")


def public_api(ctx: Ctx) -> List[FuncInfo]:
    prog = ctx.prog
    out: List[FuncInfo] = []
    top = prog.modules["goodwe"]
    for name in ("connect", "discover", "search_inverters"):
        b = top.scope.get(name)
        if not b or b[0] != "func":
            raise AnalysisError("public entry point goodwe.%s not found" % name)
        out.append(b[1])
    inv = prog.cls("Inverter")
    for ci in prog.all_subclasses(inv, include_self=False):
        seen = set()
        for c in prog.mro(ci):
            if isinstance(c, ClassInfo):
                for m in c.methods.values():
                    if m.is_async and not m.name.startswith("_") and m.name not in seen:
                        seen.add(m.name)
                        impl = prog.find_method(ci, m.name)
                        if impl not in out:
                            out.append(impl)
    return out


def check(ctx: Ctx, rep: Report):
    prog, res = ctx.prog, ctx.res
    rep.rule("C09.R1", "only InverterError subclasses escape the public coroutines for network-seeded causes", 30)
    rep.rule("C09.R2", "no exception escapes an event-loop callback (InvalidStateError unless dominated by a not-done() test)", 10)
    rep.rule("C09.R4", "the request is published (self.command, self.response_future bound) before the transport write that can synchronously call error_received", 2)
    rep.rule("C09.R5", "no InverterError class is a subclass of an exception class the network-error handlers catch", 4)
    rep.rule("C09.R8", "no public call can fail with NameError / UnboundLocalError: every local is assigned on the path before it is read", 1)
    r8_unbound(ctx, rep)
    rep.rule("C09.R7", "read_device_info() uses an attribute that __init__ leaves None (serial number, model name ...) as text only after assigning it on that path", 2)
    r7_unset_text(ctx, rep)
    rep.rule("C09.R6", "no method of the protocol layer uses an attribute of self it has just found unset (AttributeError on None)", 1)
    r6_none(ctx, rep)
    rep.rule("C09.R9", "a request that fails before anything was sent fails as documented: no attribute of self.command / self.response_future is used before _send_request bound them on the path (AttributeError on a fresh object; shared with C04.R12)", 2)
    from .proto import inflight_fields_bound
    inflight_fields_bound(ctx, rep, "C09.R9")
    rep.rule("C09.R10", "send_request never uses self._transport after a suspension without having re-established or tested it: the loop may have dropped it meanwhile (AttributeError on None)", 2)
    from .proto import transport_present_when_used
    transport_present_when_used(ctx, rep, "C09.R10")
    rep.rule("C09.R11", "bookkeeping dictionaries of the protocol object are never read with a computed key that may be missing (KeyError in a callback or in send_request)", 2)
    from .proto import dict_lookups_total
    dict_lookups_total(ctx, rep, "C09.R11")
    rep.rule("C09.R3", "_read_from_socket resets the failure counter on success, increments it once before every RequestFailedException and passes it on; execute is reached only through it", 5)
    mr = net_mayraise(ctx)
    inverr = prog.cls("InverterError")
    # ---- R1
    for fn in public_api(ctx):
        rep.analysed_add("entry_points", fn.qualname)
        bad = []
        for exc, w in mr.of(fn).items():
            if prog.is_subclass(exc, inverr):
                continue
            if prog.exc_name(exc) in DOCUMENTED_EXPLICIT and exc is not NetValueError and isinstance(w[1], ast.Raise):
                # explicit raise of the documented API contract (unknown id, unsupported sensor) - not a network cause;
                # walk down to the origin
                continue
            origin = _origin(mr, fn, exc)
            if origin is not None and isinstance(origin[1], ast.Raise) and prog.exc_name(exc) in DOCUMENTED_EXPLICIT:
                continue
            bad.append((exc, origin))
        if not bad:
            rep.ok("C09.R1", "escape:%s" % fn.short, fn.loc(), "escape set of %s is inside the InverterError family: %s" % (
                fn.short, sorted(prog.exc_name(c) for c in mr.classes(fn) if prog.is_subclass(c, inverr))))
        for exc, origin in bad:
            ofn, onode = (origin[0], origin[1]) if origin else (fn, fn.node)
            name = prog.exc_name(exc) if exc is not NetValueError else "ValueError(from received text)"
            key = "escape:%s:%s:%s:%s" % (fn.short, name, ofn.short, norm(onode)[:60])
            rep.violation("C09.R1", key, ofn.loc(onode), "%s can leave %s: raised at %s (%s) and not converted on the way: %s" % (
                name, fn.short, ofn.loc(onode), norm(onode)[:80], " <- ".join(mr.chain(fn, exc)[:6])))
    # ---- R2
    r2(ctx, rep)
    # ---- R3
    r3(ctx, rep)
    # ---- R4
    r4(ctx, rep)


def r4(ctx: Ctx, rep: Report):
    """A datagram transport reports a failed send by calling protocol.error_received(exc) synchronously, from inside
    sendto(); that callback (like every other one) works on self.response_future / self.command.  So the request must be
    published - both attributes bound to the request being sent - before the transport write on every path of
    _send_request; otherwise the callback hits None (AttributeError out of execute) or the previous, finished future."""
    from ..paths import enumerate_paths, no_raise
    from .proto import proto_classes, method, tags
    for ci in proto_classes(ctx):
        sr = method(ctx, ci, "_send_request")
        n = 0
        for p in enumerate_paths(ctx.prog, sr, no_raise):
            sends = [i for i, ev in enumerate(p.events) if ev.kind == "call" and "send" in tags(ev)]
            if not sends:
                continue
            n += 1
            before = set()
            for ev in p.events[:sends[0]]:
                if ev.kind == "stmt":
                    before |= {t for t in tags(ev) if t in ("store:response_future", "store:command")}
            missing = sorted({"store:response_future", "store:command"} - before)
            rep.check(not missing, "C09.R4", "publish-before-send:%s:%s" % (ci.name, p.describe(4)), sr.loc(p.events[sends[0]].node),
                      "%s binds the request (command, response_future) before the transport write" % sr.short,
                      bad="%s writes to the transport before binding self.%s: a send error reported synchronously through error_received() "
                          "meets None (AttributeError leaves execute) or the previous request's future [path %s]" % (
                              sr.short, ", self.".join(m.split(":")[1] for m in missing), p.describe(6)))
        if n == 0:
            raise AnalysisError("%s never transmits" % sr.short)


def _origin(mr, fn, exc):
    cur = fn
    seen = set()
    last = None
    while cur is not None and cur.qualname not in seen:
        seen.add(cur.qualname)
        w = mr.summary.get(cur.qualname, {}).get(exc)
        if w is None:
            break
        last = w
        cur = w[2]
    return last


def r2(ctx: Ctx, rep: Report):
    prog = ctx.prog
    ise = prog.ext_class("asyncio.InvalidStateError")
    for ci in proto_classes(ctx):
        for cb in loop_callbacks(ctx, ci):
            rep.analysed_add("callbacks", "%s.%s" % (ci.name, cb.name))
            escapes = {}
            for p in protocol_paths(ctx, cb):
                if p.end != "raise":
                    continue
                exc, origin = p.end_data, p.end_node
                if exc is ise and dominated_by_not_done(p, origin):
                    continue
                escapes.setdefault((prog.exc_name(exc), id(origin)), (exc, origin, p))
            is_stream = any(isinstance(b, str) and b == "asyncio.Protocol" for b in prog.mro(ci))
            if not escapes:
                rep.ok("C09.R2", "callback:%s.%s" % (ci.name, cb.name), cb.loc(), "no exception can leave %s.%s" % (ci.name, cb.name))
            for (name, _), (exc, origin, p) in escapes.items():
                key = "callback:%s.%s:%s:%s" % (ci.name, cb.name, name, norm(origin)[:60])
                msg = "%s can leave the event-loop callback %s.%s from %s [path %s]" % (name, ci.name, cb.name, norm(origin)[:70], p.describe(8))
                if is_stream and cb.name == "error_received":
                    rep.note("C09.R2 (not armed): %s - asyncio never calls error_received on a stream protocol" % msg)
                    rep.ok("C09.R2", key, cb.loc(origin), "%s.error_received is never invoked by asyncio for a stream protocol" % ci.name)
                else:
                    rep.violation("C09.R2", key, cb.loc(origin), msg)


def is_known_name(ctx: Ctx, fn, call: ast.Call) -> bool:
    """the call goes to a pinned function / outside the package (i.e. it is not a helper a later change extracted)"""
    from ..inventory import is_known
    try:
        ct = ctx.res.resolve_call(call, fn)
    except Exception:
        return True
    return not ct.funcs or all(is_known(g, ctx.prog) for g in ct.funcs)


def _none_unsafe_attrs(fn, pname: str, optional) -> set:
    """Attributes A of parameter *pname* that *fn* uses in a way that raises TypeError / AttributeError on None:
    ``x in p.A``, ``p.A[...]``, ``p.A.method()``, ``len(p.A)``, iteration."""
    out = set()

    def is_attr(e):
        return isinstance(e, ast.Attribute) and isinstance(e.value, ast.Name) and e.value.id == pname and e.attr in optional
    for n in ast.walk(fn.node if not fn.is_lambda else fn.node.body):
        if isinstance(n, ast.Compare):
            for op, c in zip(n.ops, n.comparators):
                if isinstance(op, (ast.In, ast.NotIn)) and is_attr(c):
                    out.add(c.attr)
        elif isinstance(n, ast.Subscript) and is_attr(n.value):
            out.add(n.value.attr)
        elif isinstance(n, ast.Call) and isinstance(n.func, ast.Attribute) and is_attr(n.func.value):
            out.add(n.func.value.attr)
        elif isinstance(n, ast.Call) and isinstance(n.func, ast.Name) and n.func.id in ("len", "iter", "sorted", "list", "tuple") and n.args and is_attr(n.args[0]):
            out.add(n.args[0].attr)
        elif isinstance(n, (ast.For, ast.comprehension)) and is_attr(n.iter):
            out.add(n.iter.attr)
    # a guard 'if p.A' / 'p.A is not None' / 'p.A and ...' anywhere in the function is taken as covering its uses
    for n in ast.walk(fn.node if not fn.is_lambda else fn.node.body):
        tests = []
        if isinstance(n, (ast.If, ast.IfExp, ast.While)):
            tests.append(n.test)
        if isinstance(n, ast.BoolOp):
            tests.extend(n.values[:-1])
        for t in tests:
            for x in ast.walk(t):
                if is_attr(x) and not any(isinstance(y, ast.Compare) and any(z is x for z in y.comparators) and any(isinstance(o, (ast.In, ast.NotIn)) for o in y.ops) for y in ast.walk(t)):
                    out.discard(x.attr)
    return out


def _never_assigned_reads(fn_node):
    """Reads of a local name at a point where no path from the function's entry has assigned it (may-assigned sets:
    union at joins, handlers start with everything the try body may assign, loops are closed under their body).  Such
    a read fails with UnboundLocalError whenever it is reached - no assumption about which calls raise is needed.
    Used where the paths of a function are too many to enumerate."""
    out = []
    scope_stop = (ast.FunctionDef, ast.AsyncFunctionDef, ast.Lambda, ast.ClassDef)

    def stores(node):
        acc = set()
        for x in ast.walk(node):
            if isinstance(x, ast.Name) and isinstance(x.ctx, (ast.Store, ast.Del)):
                acc.add(x.id)
            elif isinstance(x, ast.ExceptHandler) and x.name:
                acc.add(x.name)
            elif isinstance(x, (ast.Import, ast.ImportFrom)):
                acc.update(a.asname or a.name.split(".")[0] for a in x.names)
        return acc

    def reads(expr, may):
        if expr is None:
            return
        comp = {y.id for x in ast.walk(expr) if isinstance(x, ast.comprehension) for y in ast.walk(x.target) if isinstance(y, ast.Name)}
        walrus = {x.target.id for x in ast.walk(expr) if isinstance(x, ast.NamedExpr) and isinstance(x.target, ast.Name)}
        stack = [expr]
        while stack:
            x = stack.pop()
            if isinstance(x, scope_stop):
                continue
            if isinstance(x, ast.Name) and isinstance(x.ctx, ast.Load) and x.id not in may and x.id not in comp and x.id not in walrus:
                out.append(x)
            stack.extend(ast.iter_child_nodes(x))

    def block(stmts, may):
        for st in stmts:
            may = stmt(st, may)
        return may

    def stmt(st, may):
        if isinstance(st, (ast.FunctionDef, ast.AsyncFunctionDef, ast.ClassDef)):
            return may | {st.name}
        if isinstance(st, ast.If):
            reads(st.test, may)
            may = may | stores(st.test)
            return block(st.body, set(may)) | block(st.orelse, set(may))
        if isinstance(st, (ast.For, ast.AsyncFor)):
            reads(st.iter, may)
            inner = may | stores(st.target) | stores(ast.Module(body=st.body, type_ignores=[]))
            block(st.body, set(inner))
            return block(st.orelse, set(inner))
        if isinstance(st, ast.While):
            inner = may | stores(ast.Module(body=st.body, type_ignores=[])) | stores(st.test)
            reads(st.test, inner if may != inner else may)
            block(st.body, set(inner))
            return block(st.orelse, set(inner))
        if isinstance(st, ast.Try):
            body_may = block(st.body, set(may))
            everything = may | stores(ast.Module(body=st.body, type_ignores=[]))
            acc = block(st.orelse, set(body_may))
            for h in st.handlers:
                acc = acc | block(h.body, everything | ({h.name} if h.name else set()))
            return block(st.finalbody, acc | everything)
        if isinstance(st, (ast.With, ast.AsyncWith)):
            for it in st.items:
                reads(it.context_expr, may)
                if it.optional_vars is not None:
                    may = may | stores(it.optional_vars)
            return block(st.body, may)
        if isinstance(st, ast.AugAssign):
            reads(st.value, may)
            if isinstance(st.target, ast.Name):
                if st.target.id not in may:
                    out.append(st.target)
            else:
                reads(st.target, may)
            return may | stores(st.target)
        if isinstance(st, (ast.Assign, ast.AnnAssign)):
            reads(st.value, may)
            may = may | (stores(st.value) if st.value is not None else set())
            for t in (st.targets if isinstance(st, ast.Assign) else [st.target]):
                reads(t, may)               # subscripts / attributes of the target are loads
                if not (isinstance(st, ast.AnnAssign) and st.value is None):
                    may = may | stores(t)
            return may
        for child in ast.iter_child_nodes(st):
            if isinstance(child, ast.expr):
                reads(child, may)
        return may | stores(st)

    a_ = fn_node.args
    params = {x.arg for x in a_.posonlyargs + a_.args + a_.kwonlyargs} | ({a_.vararg.arg} if a_.vararg else set()) | ({a_.kwarg.arg} if a_.kwarg else set())
    block(fn_node.body, set(params))
    return out


def _many_paths(ctx: Ctx, fn) -> bool:
    """More than 1500 paths under the network oracle (loops over the families with a try block in the body)."""
    from ..paths import Enumerator
    from .proto import net_mayraise, _callback_oracle
    mr, extra = net_mayraise(ctx), _callback_oracle(ctx)
    try:
        Enumerator(ctx.prog, fn, lambda node, f: list(dict.fromkeys(list(mr.oracle(node, f)) + list(extra(node, f)))), 2, max_paths=1500).paths()
    except AnalysisError:
        return True
    return False


def r8_unbound(ctx: Ctx, rep: Report):
    """Definite assignment along every path (exception handlers included) of the methods of the inverter and protocol
    classes: a name that is local to the function (assigned somewhere in it) is read only after an assignment on the
    same path; a name that is assigned nowhere must be a parameter, a module-level name or a builtin."""
    import builtins as _b
    from .proto import protocol_paths, proto_classes as _pcs
    prog, res = ctx.prog, ctx.res
    inv = prog.cls("Inverter")
    classes = list(prog.all_subclasses(inv, include_self=True)) + [c for ci in list.__iter__(_pcs(ctx)) for c in prog.mro(ci) if isinstance(c, ClassInfo)] \
        + [prog.cls("ProtocolCommand"), prog.cls("ProtocolResponse")]
    seen, nfn, nbad = set(), 0, 0
    # ... and the module-level functions of the package's entry module (connect, discover, search_inverters)
    entry = [f for f in res.all_funcs() if f.cls is None and not f.is_lambda and f.module.name == "goodwe" and isinstance(f.node, (ast.FunctionDef, ast.AsyncFunctionDef))]
    if len(entry) < 3:
        raise AnalysisError("expected the entry functions connect / discover / search_inverters in goodwe/__init__.py, found %s" % [f.short for f in entry])
    for holder in list(classes) + [None]:
        for m in (holder.methods.values() if holder is not None else entry):
            if m.qualname in seen or m.is_lambda:
                continue
            seen.add(m.qualname)
            nfn += 1
            stored = {n.id for n in ast.walk(m.node) if isinstance(n, ast.Name) and isinstance(n.ctx, (ast.Store, ast.Del))}
            stored |= {h.name for h in ast.walk(m.node) if isinstance(h, ast.ExceptHandler) and h.name}
            stored |= {a.asname or a.name.split(".")[0] for n in ast.walk(m.node) if isinstance(n, (ast.Import, ast.ImportFrom)) for a in n.names}
            comp_vars = {x.id for n in ast.walk(m.node) if isinstance(n, ast.comprehension) for x in ast.walk(n.target) if isinstance(x, ast.Name)}
            lam_params = {a.arg for n in ast.walk(m.node) if isinstance(n, ast.Lambda) for a in n.args.args + n.args.kwonlyargs}
            nested = {n.name for n in ast.walk(m.node) if isinstance(n, (ast.FunctionDef, ast.AsyncFunctionDef, ast.ClassDef)) and n is not m.node}
            a_ = m.node.args
            params = {x.arg for x in a_.posonlyargs + a_.args + a_.kwonlyargs} | ({a_.vararg.arg} if a_.vararg else set()) | ({a_.kwarg.arg} if a_.kwarg else set())
            globs = {g for n in ast.walk(m.node) if isinstance(n, (ast.Global, ast.Nonlocal)) for g in n.names}
            # names assigned nowhere in the function
            flagged = set()
            for n in ast.walk(m.node):
                if isinstance(n, ast.Name) and isinstance(n.ctx, ast.Load) and n.id not in stored | params | comp_vars | lam_params | nested | globs \
                        and prog.lookup(m.module, n.id) is None and not hasattr(_b, n.id) and n.id not in flagged:
                    flagged.add(n.id)
                    nbad += 1
                    rep.violation("C09.R8", "unbound:%s:%s" % (m.short, n.id), m.loc(n), "%s reads the name '%s', which is bound nowhere (no local, parameter, module-level name or builtin): NameError" % (m.short, n.id))
            with_vars = {x.id for n in ast.walk(m.node) if isinstance(n, (ast.With, ast.AsyncWith)) for it in n.items if it.optional_vars is not None
                         for x in ast.walk(it.optional_vars) if isinstance(x, ast.Name)}
            import_names = {a.asname or a.name.split(".")[0] for n in ast.walk(m.node) if isinstance(n, (ast.Import, ast.ImportFrom)) for a in n.names}
            locals_ = (stored - globs) - comp_vars
            if not locals_:
                continue
            if holder is None and _many_paths(ctx, m):
                # too many paths to follow one by one: reads that no path can have assigned before
                for x in _never_assigned_reads(m.node):
                    if x.id in locals_ and x.id not in (nested | with_vars | import_names):
                        nbad += 1
                        rep.violation("C09.R8", "unbound:%s:%s" % (m.short, x.id), m.loc(x),
                                      "%s reads the local '%s' at a point no assignment to it can have reached: UnboundLocalError" % (m.short, x.id))
                continue
            try:
                paths = protocol_paths(ctx, m)
            except AnalysisError:
                continue
            done = set()
            for p in paths:
                assigned = set(params) | nested | with_vars | import_names
                for i, ev in enumerate(p.events):
                    if p.fn_at(i, m) is not m:
                        continue
                    node = ev.node
                    if ev.kind in ("test", "call", "await", "raise") and node is not None:
                        for x in ast.walk(node):
                            if isinstance(x, ast.NamedExpr) and isinstance(x.target, ast.Name):
                                assigned.add(x.target.id)
                        for x in ast.walk(node):
                            if isinstance(x, ast.Name) and isinstance(x.ctx, ast.Load) and x.id in locals_ and x.id not in assigned and (m.qualname, x.id) not in done:
                                done.add((m.qualname, x.id))
                                nbad += 1
                                rep.violation("C09.R8", "unbound:%s:%s" % (m.short, x.id), m.loc(x),
                                              "%s reads the local '%s' on a path on which nothing has been assigned to it: UnboundLocalError [path %s]" % (m.short, x.id, p.describe(6)))
                    if ev.kind == "stmt" and node is not None:
                        val = getattr(node, "value", None)
                        for x in ast.walk(val) if val is not None else []:
                            if isinstance(x, ast.Name) and isinstance(x.ctx, ast.Load) and x.id in locals_ and x.id not in assigned and (m.qualname, x.id) not in done \
                                    and not isinstance(node, ast.AugAssign):
                                done.add((m.qualname, x.id))
                                nbad += 1
                                rep.violation("C09.R8", "unbound:%s:%s" % (m.short, x.id), m.loc(x),
                                              "%s reads the local '%s' on a path on which nothing has been assigned to it: UnboundLocalError [path %s]" % (m.short, x.id, p.describe(6)))
                        for x in ast.walk(node):
                            if isinstance(x, ast.Name) and isinstance(x.ctx, ast.Store):
                                assigned.add(x.id)
                    if ev.kind == "iter" and node is not None and hasattr(node, "target"):
                        for x in ast.walk(node.target):
                            if isinstance(x, ast.Name):
                                assigned.add(x.id)
                    if ev.kind == "catch" and node is not None and getattr(node, "name", None):
                        assigned.add(node.name)
                    if ev.kind in ("return",) and node is not None and getattr(node, "value", None) is not None:
                        for x in ast.walk(node.value):
                            if isinstance(x, ast.Name) and isinstance(x.ctx, ast.Load) and x.id in locals_ and x.id not in assigned and (m.qualname, x.id) not in done:
                                done.add((m.qualname, x.id))
                                nbad += 1
                                rep.violation("C09.R8", "unbound:%s:%s" % (m.short, x.id), m.loc(x),
                                              "%s returns the local '%s' on a path on which nothing has been assigned to it: UnboundLocalError [path %s]" % (m.short, x.id, p.describe(6)))
    rep.ok("C09.R8", "unbound:scan", "goodwe/", "%d methods of the inverter / protocol classes and entry functions followed, %d reads of an unassigned name" % (nfn, nbad))


def r7_unset_text(ctx: Ctx, rep: Report):
    """read_device_info() is the first call on a fresh object: the attributes __init__ sets to None are None until the
    method assigns them, and some assignments sit in handlers that may leave them unset (the model name when the
    registers are not ASCII and the fallback read is refused).  On every path - network exceptions and their handlers
    included - an attribute is used as text (x in a, a[...], a.method(), also inside the model predicates it is handed
    to) only after an assignment of something other than None on that path."""
    from ..astutil import self_store
    from .proto import protocol_paths
    prog, res = ctx.prog, ctx.res
    inv = prog.cls("Inverter")
    init = inv.methods.get("__init__")
    optional = {a for st in ast.walk(init.node) if isinstance(st, ast.stmt) for a, v, _ in self_store(st) if isinstance(v, ast.Constant) and v.value is None} if init else set()
    if len(optional) < 2:
        raise AnalysisError("Inverter.__init__ leaves fewer than two attributes None (%s)" % sorted(optional))
    summaries = {}
    for f in res.all_funcs():
        if f.is_lambda or not f.params:
            continue
        u = _none_unsafe_attrs(f, f.params[0], optional)
        if u:
            summaries[f.qualname] = u
    nfn = 0
    for ci in prog.all_subclasses(inv, include_self=False):
        m = ci.methods.get("read_device_info")
        if m is None:
            continue
        nfn += 1
        bad = None
        for p in protocol_paths(ctx, m):
            assigned = set()
            for i, ev in enumerate(p.events):
                if ev.kind == "stmt":
                    for a, v, _ in self_store(ev.node):
                        if v is not None and not (isinstance(v, ast.Constant) and v.value is None):
                            assigned.add(a)
                        elif a in assigned and isinstance(v, ast.Constant) and v.value is None:
                            assigned.discard(a)
                used = set()
                if ev.kind == "call" and isinstance(ev.node, ast.Call):
                    ct = res.resolve_call(ev.node, p.fn_at(i, m))
                    for g in ct.funcs:
                        u = summaries.get(g.qualname)
                        if not u:
                            continue
                        first = ev.node.args[0] if ev.node.args else None
                        if (isinstance(first, ast.Name) and first.id == "self") or (ct.bound_self and isinstance(ev.node.func, ast.Attribute) and norm(ev.node.func.value) == "self"):
                            used |= {(a, g.short) for a in u}
                if ev.kind in ("test", "call", "stmt") and ev.node is not None and p.fn_at(i, m) is m:
                    own = summaries.get(m.qualname, set())
                    for x in ast.walk(ev.node) if ev.kind != "stmt" else []:
                        if isinstance(x, ast.Attribute) and isinstance(x.value, ast.Name) and x.value.id == "self" and x.attr in own:
                            pass      # direct uses in the method itself are judged through its summary's guard logic only
                for a, where in used:
                    if a not in assigned and bad is None:
                        bad = (p, a, where, ev.node)
        if bad is None:
            rep.ok("C09.R7", "unset-text:%s" % m.short, m.loc(), "%s: every text use of %s follows an assignment on the same path" % (m.short, sorted(optional & {a for u in summaries.values() for a in u})))
        else:
            p, a, where, node = bad
            rep.violation("C09.R7", "unset-text:%s:%s" % (m.short, a), m.loc(node),
                          "%s calls %s, which uses self.%s as text, on a path on which self.%s is still None (left unset by __init__, not assigned on this path): TypeError, an internal exception out of read_device_info() / connect() [path %s]" % (
                              m.short, where, a, a, p.describe(8)))
    if nfn < 2:
        raise AnalysisError("fewer than two read_device_info implementations found")


def r6_none(ctx: Ctx, rep: Report):
    from .proto import none_derefs, proto_classes as _pcs
    prog = ctx.prog
    fns, seen = [], set()
    for ci in list.__iter__(_pcs(ctx)):
        for c in prog.mro(ci):
            if isinstance(c, ClassInfo):
                for m in c.methods.values():
                    if m.qualname not in seen:
                        seen.add(m.qualname)
                        fns.append(m)
    n = 0
    for fn in fns:
        for p, node, what in none_derefs(ctx, fn):
            n += 1
            rep.violation("C09.R6", "none-deref:%s:%s" % (fn.short, norm(node)[:50]), fn.loc(node),
                          "%s evaluates %s on a path on which it has just found %s unset [path %s]: AttributeError on None, an internal exception on every request that takes this path" % (
                              fn.short, norm(node)[:60], what, p.describe(6)))
    rep.ok("C09.R6", "none-deref:scan", "goodwe/protocol.py", "%d methods of the protocol classes followed: %d uses of an attribute found unset" % (len(fns), n))


def r5(ctx: Ctx, rep: Report):
    """The library's own exceptions are outcomes, not network errors: no class of the InverterError family may be a
    subclass of what the network-error handlers of the protocol layer catch (OSError, CancelledError, TimeoutError ...),
    or a refusal / exhausted budget raised below is re-caught there and retried or converted."""
    prog = ctx.prog
    inverr = prog.cls("InverterError")
    fam = prog.all_subclasses(inverr, include_self=True)
    from .proto import proto_classes as _pcs
    fns = [m for ci in list.__iter__(_pcs(ctx)) for c in prog.mro(ci) if isinstance(c, ClassInfo) for m in c.methods.values()]
    fns += list(prog.cls("ProtocolCommand").methods.values()) + list(prog.cls("Inverter").methods.values())
    seen = set()
    for fn in fns:
        if fn.qualname in seen:
            continue
        seen.add(fn.qualname)
        for h in [x for x in ast.walk(fn.node) if isinstance(x, ast.ExceptHandler) and x.type is not None]:
            try:
                classes = prog.resolve_exc_expr(fn.module, h.type)
            except AnalysisError:
                continue
            for c in classes:
                if isinstance(c, ClassInfo):
                    continue          # naming a class of the package is deliberate
                hit = [e for e in fam if prog.is_subclass(e, c)]
                cname = prog.exc_name(c)
                if cname in ("Exception", "BaseException"):
                    continue
                rep.check(not hit, "C09.R5", "family-disjoint:%s:%s" % (fn.short, cname), fn.loc(h),
                          "%s: the handler for %s cannot catch a library exception" % (fn.short, cname),
                          bad="%s catches %s, which now includes %s: the library's own outcome exceptions are treated as network errors there (retried / converted to RequestFailedException)" % (
                              fn.short, cname, ", ".join(sorted(e.name for e in hit))))


def r3(ctx: Ctx, rep: Report):
    prog, res = ctx.prog, ctx.res
    inv = prog.cls("Inverter")
    rfs = inv.methods.get("_read_from_socket")
    if rfs is None:
        raise AnalysisError("Inverter._read_from_socket not found")
    rfe = prog.cls("RequestFailedException")
    mr = net_mayraise(ctx)
    counter = "_consecutive_failures_count"
    paths = [p for p in enumerate_paths(prog, rfs, mr.oracle)]
    nret = nraise = 0
    from ..replay import Replay
    from ..symx import Lin
    cexpr = ast.parse("self." + counter, mode="eval").body
    for p in paths:
        rp = Replay(prog, rfs, p)
        before = rp.sym_at(0).lin(cexpr)
        after = rp.sym.lin(cexpr)
        if p.end == "return":
            nret += 1
            ok = after.is_const() and after.const == 0
            rep.check(ok, "C09.R3", "reset-on-success:%s" % p.describe(6), rfs.loc(p.end_node), "success path resets %s to 0" % counter,
                      bad="_read_from_socket returns a result with %s = %r instead of 0 [path %s]" % (counter, after, p.describe(6)))
        elif p.end == "raise" and p.end_data is rfe and isinstance(p.end_node, ast.Raise):
            nraise += 1
            delta = after - before
            call = p.end_node.exc
            arg = None
            if isinstance(call, ast.Call):
                arg = call.args[1] if len(call.args) > 1 else next((k.value for k in call.keywords if k.arg == "consecutive_failures_count"), None)
            argv = rp.sym.lin(arg) if arg is not None else None
            ok = delta.is_const() and delta.const == 1 and argv is not None and argv == after
            rep.check(ok, "C09.R3", "count-on-failure:%s" % p.describe(6), rfs.loc(p.end_node),
                      "failure path increments %s exactly once and passes it to RequestFailedException" % counter,
                      bad="_read_from_socket raises RequestFailedException after changing %s by %r and passing %s as the count [path %s]" % (
                          counter, delta, norm(arg) if arg is not None else "<missing>", p.describe(6)))
    # any other way out (a refusal by the inverter, an internal error) is neither a success nor a counted failure: the
    # streak of consecutive failures is left as it was
    other_bad = None
    for p in paths:
        if p.end == "raise" and p.end_data is not rfe:
            rp = Replay(prog, rfs, p)
            delta = rp.sym.lin(cexpr) - rp.sym_at(0).lin(cexpr)
            if not (delta.is_const() and delta.const == 0) and other_bad is None:
                other_bad = (p, rp.sym.lin(cexpr))
    rep.check(other_bad is None, "C09.R3", "other-exits-keep-count", rfs.loc(other_bad[0].end_node) if other_bad else rfs.loc(),
              "an exception that passes through _read_from_socket (RequestRejectedException ...) leaves %s untouched" % counter,
              bad="_read_from_socket lets %s pass with %s = %r instead of its value before the request: a refused request ends (or extends) the streak of consecutive failures, the next RequestFailedException reports a wrong count [path %s]" % (
                  prog.exc_name(other_bad[0].end_data) if other_bad else "", counter, other_bad[1] if other_bad else "", other_bad[0].describe(6) if other_bad else ""))
    if not paths:
        raise AnalysisError("_read_from_socket: no path could be followed")
    rep.check(nret > 0 and nraise >= 2, "C09.R3", "outcomes", rfs.loc(), "_read_from_socket has a success path and counts both kinds of failure (retries exhausted, request failed)",
              bad="_read_from_socket: of the outcomes of execute() only %d success and %d counted failure path(s) remain (expected both MaxRetriesException and RequestFailedException to arrive here and be re-raised as RequestFailedException with the count): a failure kind no longer reaches its handler" % (nret, nraise))
    r5(ctx, rep)
    # a refusal by the inverter is an answer, not a communication failure: the counting handlers must not catch it
    rejected = prog.cls("RequestRejectedException")
    for h in [x for x in ast.walk(rfs.node) if isinstance(x, ast.ExceptHandler)]:
        classes = prog.resolve_exc_expr(rfs.module, h.type) if h.type is not None else []
        catches = h.type is None or any(prog.is_subclass(rejected, c) for c in classes)
        counts = any(isinstance(n, ast.stmt) and any(a == counter for a, _, _ in self_store(n)) for b in h.body for n in ast.walk(b)) or \
            any(isinstance(n, ast.Call) and not is_known_name(ctx, rfs, n) for b in h.body for n in ast.walk(b))
        rep.check(not (catches and counts), "C09.R3", "rejection-not-counted:%s" % (norm(h.type) if h.type is not None else "bare"), rfs.loc(h),
                  "handler (%s) does not catch RequestRejectedException" % (norm(h.type) if h.type is not None else "bare"),
                  bad="_read_from_socket's handler for %s also catches RequestRejectedException (class hierarchy): a refused request is counted as a consecutive failure and re-raised as RequestFailedException" % (
                      norm(h.type) if h.type is not None else "everything"))
    # RequestFailedException stores its second argument as consecutive_failures_count
    init = rfe.methods.get("__init__")
    ok = init is not None and any(isinstance(n, (ast.Assign, ast.AnnAssign)) and norm(n.targets[0] if isinstance(n, ast.Assign) else n.target) == "self.consecutive_failures_count"
                                  and isinstance(n.value, ast.Name) and n.value.id == "consecutive_failures_count" for n in ast.walk(init.node))
    rep.check(ok, "C09.R3", "exception-field", rfe.module.relpath, "RequestFailedException keeps the count it is given",
              bad="RequestFailedException.__init__ no longer stores consecutive_failures_count")
    # who-may-call: inside the Inverter classes command.execute is reached only through _read_from_socket
    execute = prog.cls("ProtocolCommand").methods["execute"]
    for ct in res.callers_of(execute):
        fn = ct.caller
        if fn.cls is not None and prog.is_subclass(fn.cls, inv):
            rep.check(fn is rfs, "C09.R3", "execute-caller:%s" % fn.short, fn.loc(ct.node), "execute() is called from _read_from_socket",
                      bad="%s calls command.execute() directly, bypassing the failure counter of _read_from_socket" % fn.short)
    # and send_request only through execute
    for ci in proto_classes(ctx):
        sr = ci.methods["send_request"]
        for ct in res.callers_of(sr):
            fn = ct.caller
            ok = fn is execute or fn is sr or (fn.name == "send_request" and fn.cls is ci)
            rep.check(ok, "C09.R3", "send_request-caller:%s->%s" % (fn.short, ci.name), fn.loc(ct.node), "send_request is called from execute() (or its own retry)",
                      bad="%s calls %s.send_request directly, bypassing ProtocolCommand.execute" % (fn.short, ci.name))
