"""C09 - failures surface only as InverterError, with a correct failure count."""
from __future__ import annotations

import ast
from typing import List

from .. import AnalysisError
from ..astutil import call_chain, chain, self_store
from ..core import Ctx, Report
from ..model import ClassInfo, FuncInfo, norm
from ..paths import enumerate_paths
from .proto import net_mayraise, loop_callbacks, proto_classes, protocol_paths, tags, NetValueError, dominated_by_not_done

PID = "C09"
LEVEL = "other"
EXPLANATION = (
    "Exception-escape analysis over the call graph (class-hierarchy/rapid-type resolution, try/except matched through the class "
    "table): network-caused raising primitives are seeded (awaiting / .result() of the response future raises whatever any "
    "set_exception site may store plus CancelledError; endpoint creation raises OSError; wait_for raises TimeoutError; "
    ".decode() of received bytes raises UnicodeDecodeError; int() of decoded identification text raises ValueError) and the escape "
    "set of every public coroutine must lie inside the InverterError family (R1); no exception may leave an event-loop callback, "
    "with Future.set_result/set_exception raising InvalidStateError unless dominated by a not-done() test (R2); the consecutive "
    "failure counter is reset on success, incremented exactly once before each RequestFailedException and passed to it, and "
    "command.execute is reachable from inverter objects only through _read_from_socket (R3); the request is bound to the protocol "
    "object before the transport write, because a failed send calls error_received synchronously (R4). Counter values over "
    "histories and OS behaviour are not decided."
    ' (R5) no class of the InverterError family is a subclass of an exception class that a handler of the protocol layer catches as a network error (OSError, CancelledError, TimeoutError); call-arity TypeErrors are exception sources; a failure kind that no longer reaches its counting handler in _read_from_socket is a violation.'
    ' Indexing text decoded from a response at a fixed position is an IndexError source unless a length test guards it.'
    " (R6) no method of the protocol classes calls a method / reads an attribute on self.<attr> right after a test found it unset, on any path including the exception handlers; an argument whose inferred type cannot match the parameter's annotation is a TypeError source."
)

DOCUMENTED_EXPLICIT = ("ValueError", "NotImplementedError")


def public_api(ctx: Ctx) -> List[FuncInfo]:
    prog = ctx.prog
    out: List[FuncInfo] = []
    top = prog.modules["goodwe"]
    for name in ("connect", "discover", "search_inverters"):
        b = top.scope.get(name)
        if not b or b[0] != "func":
            raise AnalysisError("public entry point goodwe.%s not found" % name)
        out.append(b[1])
    inv = prog.cls("Inverter")
    for ci in prog.all_subclasses(inv, include_self=False):
        seen = set()
        for c in prog.mro(ci):
            if isinstance(c, ClassInfo):
                for m in c.methods.values():
                    if m.is_async and not m.name.startswith("_") and m.name not in seen:
                        seen.add(m.name)
                        impl = prog.find_method(ci, m.name)
                        if impl not in out:
                            out.append(impl)
    return out


def check(ctx: Ctx, rep: Report):
    prog, res = ctx.prog, ctx.res
    rep.rule("C09.R1", "only InverterError subclasses escape the public coroutines for network-seeded causes", 30)
    rep.rule("C09.R2", "no exception escapes an event-loop callback (InvalidStateError unless dominated by a not-done() test)", 10)
    rep.rule("C09.R4", "the request is published (self.command, self.response_future bound) before the transport write that can synchronously call error_received", 2)
    rep.rule("C09.R5", "no InverterError class is a subclass of an exception class the network-error handlers catch", 4)
    rep.rule("C09.R6", "no method of the protocol layer uses an attribute of self it has just found unset (AttributeError on None)", 1)
    r6_none(ctx, rep)
    rep.rule("C09.R3", "_read_from_socket resets the failure counter on success, increments it once before every RequestFailedException and passes it on; execute is reached only through it", 5)
    mr = net_mayraise(ctx)
    inverr = prog.cls("InverterError")
    # ---- R1
    for fn in public_api(ctx):
        rep.analysed_add("entry_points", fn.qualname)
        bad = []
        for exc, w in mr.of(fn).items():
            if prog.is_subclass(exc, inverr):
                continue
            if prog.exc_name(exc) in DOCUMENTED_EXPLICIT and exc is not NetValueError and isinstance(w[1], ast.Raise):
                # explicit raise of the documented API contract (unknown id, unsupported sensor) - not a network cause;
                # walk down to the origin
                continue
            origin = _origin(mr, fn, exc)
            if origin is not None and isinstance(origin[1], ast.Raise) and prog.exc_name(exc) in DOCUMENTED_EXPLICIT:
                continue
            bad.append((exc, origin))
        if not bad:
            rep.ok("C09.R1", "escape:%s" % fn.short, fn.loc(), "escape set of %s is inside the InverterError family: %s" % (
                fn.short, sorted(prog.exc_name(c) for c in mr.classes(fn) if prog.is_subclass(c, inverr))))
        for exc, origin in bad:
            ofn, onode = (origin[0], origin[1]) if origin else (fn, fn.node)
            name = prog.exc_name(exc) if exc is not NetValueError else "ValueError(from received text)"
            key = "escape:%s:%s:%s:%s" % (fn.short, name, ofn.short, norm(onode)[:60])
            rep.violation("C09.R1", key, ofn.loc(onode), "%s can leave %s: raised at %s (%s) and not converted on the way: %s" % (
                name, fn.short, ofn.loc(onode), norm(onode)[:80], " <- ".join(mr.chain(fn, exc)[:6])))
    # ---- R2
    r2(ctx, rep)
    # ---- R3
    r3(ctx, rep)
    # ---- R4
    r4(ctx, rep)


def r4(ctx: Ctx, rep: Report):
    """A datagram transport reports a failed send by calling protocol.error_received(exc) synchronously, from inside
    sendto(); that callback (like every other one) works on self.response_future / self.command.  So the request must be
    published - both attributes bound to the request being sent - before the transport write on every path of
    _send_request; otherwise the callback hits None (AttributeError out of execute) or the previous, finished future."""
    from ..paths import enumerate_paths, no_raise
    from .proto import proto_classes, method, tags
    for ci in proto_classes(ctx):
        sr = method(ctx, ci, "_send_request")
        n = 0
        for p in enumerate_paths(ctx.prog, sr, no_raise):
            sends = [i for i, ev in enumerate(p.events) if ev.kind == "call" and "send" in tags(ev)]
            if not sends:
                continue
            n += 1
            before = set()
            for ev in p.events[:sends[0]]:
                if ev.kind == "stmt":
                    before |= {t for t in tags(ev) if t in ("store:response_future", "store:command")}
            missing = sorted({"store:response_future", "store:command"} - before)
            rep.check(not missing, "C09.R4", "publish-before-send:%s:%s" % (ci.name, p.describe(4)), sr.loc(p.events[sends[0]].node),
                      "%s binds the request (command, response_future) before the transport write" % sr.short,
                      bad="%s writes to the transport before binding self.%s: a send error reported synchronously through error_received() "
                          "meets None (AttributeError leaves execute) or the previous request's future [path %s]" % (
                              sr.short, ", self.".join(m.split(":")[1] for m in missing), p.describe(6)))
        if n == 0:
            raise AnalysisError("%s never transmits" % sr.short)


def _origin(mr, fn, exc):
    cur = fn
    seen = set()
    last = None
    while cur is not None and cur.qualname not in seen:
        seen.add(cur.qualname)
        w = mr.summary.get(cur.qualname, {}).get(exc)
        if w is None:
            break
        last = w
        cur = w[2]
    return last


def r2(ctx: Ctx, rep: Report):
    prog = ctx.prog
    ise = prog.ext_class("asyncio.InvalidStateError")
    for ci in proto_classes(ctx):
        for cb in loop_callbacks(ctx, ci):
            rep.analysed_add("callbacks", "%s.%s" % (ci.name, cb.name))
            escapes = {}
            for p in protocol_paths(ctx, cb):
                if p.end != "raise":
                    continue
                exc, origin = p.end_data, p.end_node
                if exc is ise and dominated_by_not_done(p, origin):
                    continue
                escapes.setdefault((prog.exc_name(exc), id(origin)), (exc, origin, p))
            is_stream = any(isinstance(b, str) and b == "asyncio.Protocol" for b in prog.mro(ci))
            if not escapes:
                rep.ok("C09.R2", "callback:%s.%s" % (ci.name, cb.name), cb.loc(), "no exception can leave %s.%s" % (ci.name, cb.name))
            for (name, _), (exc, origin, p) in escapes.items():
                key = "callback:%s.%s:%s:%s" % (ci.name, cb.name, name, norm(origin)[:60])
                msg = "%s can leave the event-loop callback %s.%s from %s [path %s]" % (name, ci.name, cb.name, norm(origin)[:70], p.describe(8))
                if is_stream and cb.name == "error_received":
                    rep.note("C09.R2 (not armed): %s - asyncio never calls error_received on a stream protocol" % msg)
                    rep.ok("C09.R2", key, cb.loc(origin), "%s.error_received is never invoked by asyncio for a stream protocol" % ci.name)
                else:
                    rep.violation("C09.R2", key, cb.loc(origin), msg)


def is_known_name(ctx: Ctx, fn, call: ast.Call) -> bool:
    """the call goes to a pinned function / outside the package (i.e. it is not a helper a later change extracted)"""
    from ..inventory import is_known
    try:
        ct = ctx.res.resolve_call(call, fn)
    except Exception:
        return True
    return not ct.funcs or all(is_known(g, ctx.prog) for g in ct.funcs)


def r6_none(ctx: Ctx, rep: Report):
    from .proto import none_derefs, proto_classes as _pcs
    prog = ctx.prog
    fns, seen = [], set()
    for ci in list.__iter__(_pcs(ctx)):
        for c in prog.mro(ci):
            if isinstance(c, ClassInfo):
                for m in c.methods.values():
                    if m.qualname not in seen:
                        seen.add(m.qualname)
                        fns.append(m)
    n = 0
    for fn in fns:
        for p, node, what in none_derefs(ctx, fn):
            n += 1
            rep.violation("C09.R6", "none-deref:%s:%s" % (fn.short, norm(node)[:50]), fn.loc(node),
                          "%s evaluates %s on a path on which it has just found %s unset [path %s]: AttributeError on None, an internal exception on every request that takes this path" % (
                              fn.short, norm(node)[:60], what, p.describe(6)))
    rep.ok("C09.R6", "none-deref:scan", "goodwe/protocol.py", "%d methods of the protocol classes followed: %d uses of an attribute found unset" % (len(fns), n))


def r5(ctx: Ctx, rep: Report):
    """The library's own exceptions are outcomes, not network errors: no class of the InverterError family may be a
    subclass of what the network-error handlers of the protocol layer catch (OSError, CancelledError, TimeoutError ...),
    or a refusal / exhausted budget raised below is re-caught there and retried or converted."""
    prog = ctx.prog
    inverr = prog.cls("InverterError")
    fam = prog.all_subclasses(inverr, include_self=True)
    from .proto import proto_classes as _pcs
    fns = [m for ci in list.__iter__(_pcs(ctx)) for c in prog.mro(ci) if isinstance(c, ClassInfo) for m in c.methods.values()]
    fns += list(prog.cls("ProtocolCommand").methods.values()) + list(prog.cls("Inverter").methods.values())
    seen = set()
    for fn in fns:
        if fn.qualname in seen:
            continue
        seen.add(fn.qualname)
        for h in [x for x in ast.walk(fn.node) if isinstance(x, ast.ExceptHandler) and x.type is not None]:
            try:
                classes = prog.resolve_exc_expr(fn.module, h.type)
            except AnalysisError:
                continue
            for c in classes:
                if isinstance(c, ClassInfo):
                    continue          # naming a class of the package is deliberate
                hit = [e for e in fam if prog.is_subclass(e, c)]
                cname = prog.exc_name(c)
                if cname in ("Exception", "BaseException"):
                    continue
                rep.check(not hit, "C09.R5", "family-disjoint:%s:%s" % (fn.short, cname), fn.loc(h),
                          "%s: the handler for %s cannot catch a library exception" % (fn.short, cname),
                          bad="%s catches %s, which now includes %s: the library's own outcome exceptions are treated as network errors there (retried / converted to RequestFailedException)" % (
                              fn.short, cname, ", ".join(sorted(e.name for e in hit))))


def r3(ctx: Ctx, rep: Report):
    prog, res = ctx.prog, ctx.res
    inv = prog.cls("Inverter")
    rfs = inv.methods.get("_read_from_socket")
    if rfs is None:
        raise AnalysisError("Inverter._read_from_socket not found")
    rfe = prog.cls("RequestFailedException")
    mr = net_mayraise(ctx)
    counter = "_consecutive_failures_count"
    paths = [p for p in enumerate_paths(prog, rfs, mr.oracle)]
    nret = nraise = 0
    from ..replay import Replay
    from ..symx import Lin
    cexpr = ast.parse("self." + counter, mode="eval").body
    for p in paths:
        rp = Replay(prog, rfs, p)
        before = rp.sym_at(0).lin(cexpr)
        after = rp.sym.lin(cexpr)
        if p.end == "return":
            nret += 1
            ok = after.is_const() and after.const == 0
            rep.check(ok, "C09.R3", "reset-on-success:%s" % p.describe(6), rfs.loc(p.end_node), "success path resets %s to 0" % counter,
                      bad="_read_from_socket returns a result with %s = %r instead of 0 [path %s]" % (counter, after, p.describe(6)))
        elif p.end == "raise" and p.end_data is rfe and isinstance(p.end_node, ast.Raise):
            nraise += 1
            delta = after - before
            call = p.end_node.exc
            arg = None
            if isinstance(call, ast.Call):
                arg = call.args[1] if len(call.args) > 1 else next((k.value for k in call.keywords if k.arg == "consecutive_failures_count"), None)
            argv = rp.sym.lin(arg) if arg is not None else None
            ok = delta.is_const() and delta.const == 1 and argv is not None and argv == after
            rep.check(ok, "C09.R3", "count-on-failure:%s" % p.describe(6), rfs.loc(p.end_node),
                      "failure path increments %s exactly once and passes it to RequestFailedException" % counter,
                      bad="_read_from_socket raises RequestFailedException after changing %s by %r and passing %s as the count [path %s]" % (
                          counter, delta, norm(arg) if arg is not None else "<missing>", p.describe(6)))
    if not paths:
        raise AnalysisError("_read_from_socket: no path could be followed")
    rep.check(nret > 0 and nraise >= 2, "C09.R3", "outcomes", rfs.loc(), "_read_from_socket has a success path and counts both kinds of failure (retries exhausted, request failed)",
              bad="_read_from_socket: of the outcomes of execute() only %d success and %d counted failure path(s) remain (expected both MaxRetriesException and RequestFailedException to arrive here and be re-raised as RequestFailedException with the count): a failure kind no longer reaches its handler" % (nret, nraise))
    r5(ctx, rep)
    # a refusal by the inverter is an answer, not a communication failure: the counting handlers must not catch it
    rejected = prog.cls("RequestRejectedException")
    for h in [x for x in ast.walk(rfs.node) if isinstance(x, ast.ExceptHandler)]:
        classes = prog.resolve_exc_expr(rfs.module, h.type) if h.type is not None else []
        catches = h.type is None or any(prog.is_subclass(rejected, c) for c in classes)
        counts = any(isinstance(n, ast.stmt) and any(a == counter for a, _, _ in self_store(n)) for b in h.body for n in ast.walk(b)) or \
            any(isinstance(n, ast.Call) and not is_known_name(ctx, rfs, n) for b in h.body for n in ast.walk(b))
        rep.check(not (catches and counts), "C09.R3", "rejection-not-counted:%s" % (norm(h.type) if h.type is not None else "bare"), rfs.loc(h),
                  "handler (%s) does not catch RequestRejectedException" % (norm(h.type) if h.type is not None else "bare"),
                  bad="_read_from_socket's handler for %s also catches RequestRejectedException (class hierarchy): a refused request is counted as a consecutive failure and re-raised as RequestFailedException" % (
                      norm(h.type) if h.type is not None else "everything"))
    # RequestFailedException stores its second argument as consecutive_failures_count
    init = rfe.methods.get("__init__")
    ok = init is not None and any(isinstance(n, (ast.Assign, ast.AnnAssign)) and norm(n.targets[0] if isinstance(n, ast.Assign) else n.target) == "self.consecutive_failures_count"
                                  and isinstance(n.value, ast.Name) and n.value.id == "consecutive_failures_count" for n in ast.walk(init.node))
    rep.check(ok, "C09.R3", "exception-field", rfe.module.relpath, "RequestFailedException keeps the count it is given",
              bad="RequestFailedException.__init__ no longer stores consecutive_failures_count")
    # who-may-call: inside the Inverter classes command.execute is reached only through _read_from_socket
    execute = prog.cls("ProtocolCommand").methods["execute"]
    for ct in res.callers_of(execute):
        fn = ct.caller
        if fn.cls is not None and prog.is_subclass(fn.cls, inv):
            rep.check(fn is rfs, "C09.R3", "execute-caller:%s" % fn.short, fn.loc(ct.node), "execute() is called from _read_from_socket",
                      bad="%s calls command.execute() directly, bypassing the failure counter of _read_from_socket" % fn.short)
    # and send_request only through execute
    for ci in proto_classes(ctx):
        sr = ci.methods["send_request"]
        for ct in res.callers_of(sr):
            fn = ct.caller
            ok = fn is execute or fn is sr or (fn.name == "send_request" and fn.cls is ci)
            rep.check(ok, "C09.R3", "send_request-caller:%s->%s" % (fn.short, ci.name), fn.loc(ct.node), "send_request is called from execute() (or its own retry)",
                      bad="%s calls %s.send_request directly, bypassing ProtocolCommand.execute" % (fn.short, ci.name))
