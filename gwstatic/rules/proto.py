"""Shared facts about goodwe/protocol.py for the transport rules (C04-C10)."""
from __future__ import annotations

import ast
from typing import Dict, Iterable, List, Optional, Set, Tuple

from .. import AnalysisError
from ..astutil import chain, call_chain, self_store, name_stores, walk_no_lambda
from ..core import Ctx
from ..effects import MayRaise
from ..model import Program, FuncInfo, ClassInfo, NotConst, norm, node_src
from ..paths import Path, Ev, enumerate_paths, eval_order


class NetValueError(ValueError):
    """Marker: a ValueError caused by text received from the network (int() of identification data).
    A subclass so that ``except ValueError`` handlers match it, while explicit ``raise ValueError`` of the
    documented API contract stays distinguishable."""


# ------------------------------------------------------------------ classes
class _ClassLoop(list):
    """The protocol classes; iterating sets paths.CURRENT_SELF_CLS to the class being looked at (and clears it afterwards)."""

    def __iter__(self):
        from .. import paths
        prev = paths.CURRENT_SELF_CLS[0]
        try:
            for c in list.__iter__(self):
                paths.CURRENT_SELF_CLS[0] = c
                yield c
        finally:
            paths.CURRENT_SELF_CLS[0] = prev


def proto_classes(ctx: Ctx) -> List[ClassInfo]:
    base = ctx.prog.cls("InverterProtocol")
    out = [c for c in ctx.prog.all_subclasses(base, include_self=False) if ctx.prog.find_method(c, "send_request") is not None
           and ctx.prog.find_method(c, "send_request").cls is not base]
    if len(out) < 2:
        raise AnalysisError("expected the UDP and TCP protocol classes, found %s" % [c.name for c in out])
    return _ClassLoop(out)


def method(ctx: Ctx, ci: ClassInfo, name: str) -> FuncInfo:
    m = ctx.prog.find_method(ci, name)
    if m is None:
        raise AnalysisError("anchor %s.%s not found" % (ci.name, name))
    return m


def connector(ctx: Ctx, ci: ClassInfo) -> FuncInfo:
    """The method of the protocol class that creates the endpoint (create_datagram_endpoint / create_connection):
    `_connect` on the pinned tree; the role survives inlining it into its caller or renaming it."""
    found = []
    for c in ctx.prog.mro(ci):
        if not hasattr(c, "methods"):
            continue
        for m in c.methods.values():
            if ctx.prog.find_method(ci, m.name) is not m:
                continue
            if any(isinstance(n, ast.Call) and (call_chain(n) or ("",))[-1] in ("create_datagram_endpoint", "create_connection") for n in walk_no_lambda(m.node)):
                found.append(m)
    if len(found) != 1:
        raise AnalysisError("%s: expected one method creating the endpoint, found %s" % (ci.name, [f.short for f in found]))
    return found[0]


def loop_callbacks(ctx: Ctx, ci: Optional[ClassInfo] = None) -> List[FuncInfo]:
    """Methods asyncio invokes on the protocol objects (by base class), plus call_soon/call_later targets."""
    prog = ctx.prog
    names = {"asyncio.DatagramProtocol": ("connection_made", "connection_lost", "datagram_received", "error_received"),
             "asyncio.Protocol": ("connection_made", "connection_lost", "data_received", "eof_received")}
    out: List[FuncInfo] = []
    for c in ([ci] if ci is not None else proto_classes(ctx)):
        for b in prog.mro(c):
            if isinstance(b, str) and b in names:
                for n in names[b]:
                    m = prog.find_method(c, n)
                    if m is not None and m not in out:
                        out.append(m)
        # scheduled callbacks
        for m in list(c.methods.values()) + [x for k in prog.mro(c) if isinstance(k, ClassInfo) for x in k.methods.values()]:
            for n in walk_no_lambda(m.node):
                if isinstance(n, ast.Call) and (call_chain(n) or ("",))[-1] in ("call_soon", "call_later", "call_at", "call_soon_threadsafe"):
                    cbx = n.args[1] if (call_chain(n) or ("",))[-1] in ("call_later", "call_at") and len(n.args) > 1 else (n.args[0] if n.args else None)
                    cc = chain(cbx) if cbx is not None else None
                    if cc and cc[0] == "self" and len(cc) == 2:
                        t = prog.find_method(c, cc[1])
                        if t is not None and t not in out:
                            out.append(t)
    return out


def only_reached_from(ctx: Ctx, fn: FuncInfo, allowed, depth: int = 0) -> bool:
    """fn is one of *allowed*, or a helper outside the pinned inventory all of whose call sites lie (transitively) in
    such functions - a statement moved into an extracted helper keeps the calling context of the place it came from."""
    from ..inventory import is_known
    if fn in allowed:
        return True
    if depth > 4 or is_known(fn, ctx.prog):
        return False
    callers = ctx.res.callers_of(fn)
    return bool(callers) and all(only_reached_from(ctx, ct.caller, allowed, depth + 1) for ct in callers)


# --------------------------------------------------------------------- tags
def tags(ev: Ev) -> Set[str]:
    t: Set[str] = set()
    n = ev.node
    if ev.kind in ("call", "test") and isinstance(n, ast.Call):
        c = call_chain(n) or ()
        last = c[-1] if c else ""
        if c[:2] == ("self", "_transport") and last in ("sendto", "write"):
            t.add("send")
        if last == "call_later":
            t.add("call_later")
        if last == "call_soon":
            t.add("call_soon")
        if c == ("self", "_timer", "cancel"):
            t.add("timer_cancel")
        if len(c) >= 2 and c[-2] == "response_future" or (len(c) == 2 and c[0] == "response_future"):
            if last in ("set_result", "set_exception", "cancel", "done", "result"):
                t.add("fut_" + last)
        if c == ("self", "_close_transport"):
            t.add("close_transport")
        if last == "acquire":
            t.add("acquire")
        if last == "release" and "_lock" in c:
            t.add("release")
        if last == "locked" and "_lock" in c:
            t.add("locked")
        if c == ("self", "send_request"):
            t.add("recursive")
        if c == ("self", "_send_request"):
            t.add("inner_send")
        if c == ("self", "_max_retries_reached"):
            t.add("max_retries")
        if c == ("self", "_connect"):
            t.add("connect")
        if last in ("create_datagram_endpoint", "create_connection"):
            t.add("create_endpoint")
        if last == "close" and c[:2] == ("self", "_transport"):
            t.add("transport_close")
        if last == "validator":
            t.add("validator")
    if ev.kind == "stmt":
        for attr, value, kind in self_store(n):
            t.add("store:" + attr)
            if value is not None and isinstance(value, ast.Constant):
                t.add("store:%s=%r" % (attr, value.value))
            if kind == "aug":
                t.add("aug:" + attr)
    if ev.kind == "await":
        t.add("await")
    return t


def has(ev: Ev, tag: str) -> bool:
    return tag in tags(ev)


def callback_is(call: ast.Call, name: str) -> bool:
    """call_later(delay, self.<name>) / call_soon(self.<name>)"""
    last = (call_chain(call) or ("",))[-1]
    cb = None
    if last == "call_later" and len(call.args) >= 2:
        cb = call.args[1]
    elif last == "call_soon" and call.args:
        cb = call.args[0]
    return cb is not None and chain(cb) == ("self", name)


def no_deferred_after_completion(ctx: Ctx, rep: Report, rule: str):
    """On no path of a loop callback is a method of self scheduled (call_soon / call_later / call_at) after the path has
    completed the response future (set_result / set_exception): the waiting task is woken first and may already have
    started the next request when the deferred call runs - a deferred _close_transport / _timeout_mechanism then closes
    the socket of, and cancels, the wrong request."""
    n = 0
    for ci in proto_classes(ctx):
        for cb in loop_callbacks(ctx, ci):
            bad = None
            for p in protocol_paths(ctx, cb):
                done_at = None
                for i, ev in enumerate(p.events):
                    t = tags(ev)
                    if ev.kind == "call" and (t & {"fut_set_result", "fut_set_exception"}):
                        done_at = ev
                    if ev.kind == "call" and done_at is not None and (call_chain(ev.node) or ("",))[-1] in ("call_soon", "call_later", "call_at", "call_soon_threadsafe"):
                        last = (call_chain(ev.node) or ("",))[-1]
                        cbx = ev.node.args[1] if last in ("call_later", "call_at") and len(ev.node.args) > 1 else (ev.node.args[0] if ev.node.args else None)
                        cc = chain(cbx) if cbx is not None else None
                        if cc and cc[0] == "self" and bad is None:
                            bad = (p, ev.node, done_at.node)
            n += 1
            rep.check(bad is None, rule, "deferred-after-completion:%s" % cb.short, cb.loc(bad[1]) if bad else cb.loc(),
                      "%s schedules nothing on the protocol object after completing the request" % cb.short,
                      bad="%s completes the request (%s) and then schedules %s: the caller is woken first and can have the next request in flight when the deferred call runs - it acts on that request (closes its socket, cancels its future) [path %s]" % (
                          cb.short, norm(bad[2])[:50] if bad else "", norm(bad[1])[:70] if bad else "", bad[0].describe(6) if bad else ""))
    if n == 0:
        raise AnalysisError("no loop callbacks found")


def timeout_delays(ctx: Ctx, rep: Report, rule: str):
    """Inventory of every place that schedules self._timeout_mechanism with a delay (call_later / call_at) in the
    protocol classes: the delay is the configured self.timeout, nothing derived from it (half of it, rounded, capped)
    - a shorter wait abandons a transmission whose answer is still due, a longer one outlasts the budget."""
    from ..astutil import expand_locals
    n = 0
    for ci in proto_classes(ctx):
        for c in ctx.prog.mro(ci):
            if not hasattr(c, "methods"):
                continue
            for m in c.methods.values():
                for call in [x for x in ast.walk(m.node) if isinstance(x, ast.Call)]:
                    last = (call_chain(call) or ("",))[-1]
                    if last not in ("call_later", "call_at") or len(call.args) < 2 or chain(call.args[1]) != ("self", "_timeout_mechanism"):
                        continue
                    key = "delay:%s:%d" % (m.short, sum(1 for o in rep.obligations if o.rule == rule and o.key.startswith("delay:%s:" % m.short)))
                    if any(o.rule == rule and o.where == m.loc(call) for o in rep.obligations):
                        continue
                    n += 1
                    d = expand_locals(call.args[0], m.node)
                    ok = last == "call_later" and chain(d) == ("self", "timeout")
                    rep.check(ok, rule, key, m.loc(call), "%s waits the configured self.timeout" % m.short,
                              bad="%s schedules the timeout %s, not self.timeout seconds from now: the transmission is abandoned (and the lock handed on) at another moment than the one the caller configured" % (
                                  m.short, ("with call_at at the absolute loop time %s" % norm(call.args[0])) if last != "call_later" else ("after %s" % norm(call.args[0]))))
    if n < 1:
        raise AnalysisError("no place schedules self._timeout_mechanism with a delay (expected in _send_request and the partial-response handlers)")


# -------------------------------------------------------------- feasibility
def _mentions(atom: ast.AST) -> Set[str]:
    out = set()
    for n in ast.walk(atom):
        if isinstance(n, ast.Attribute) and isinstance(n.value, ast.Name) and n.value.id == "self":
            out.add("self." + n.attr)
        elif isinstance(n, ast.Name):
            out.add(n.id)
    return out


PURE_CALL_PREFIX = ("logger",)
PURE_METHODS = {"done", "locked", "is_closing", "hex", "get", "startswith", "endswith"}


def feasible(path: Path) -> bool:
    """Prune paths that test the same side-effect-free condition twice with different outcomes while nothing
    that could change it happened in between."""
    seen: Dict[str, Tuple[bool, int]] = {}
    for i, ev in enumerate(path.events):
        if ev.kind == "test":
            key = norm(ev.node)
            if key in seen and seen[key][0] != ev.data:
                # anything in between that may change it?
                j = seen[key][1]
                names = _mentions(ev.node)
                dirty = False
                for e2 in path.events[j + 1:i]:
                    if e2.kind == "stmt":
                        st = set(name_stores(e2.node)) | {"self." + a for a, _, _ in self_store(e2.node)}
                        if st & names:
                            dirty = True
                    elif e2.kind in ("call",):
                        c = call_chain(e2.node) or ("?",)
                        if c[0] in PURE_CALL_PREFIX or c[-1] in PURE_METHODS:
                            continue
                        # a call that is part of this very atom (e.g. .done() inside the test) is not an intervening effect
                        if any(e2.node is x for x in ast.walk(ev.node)) or any(e2.node is x for x in ast.walk(path.events[j].node)):
                            continue
                        dirty = True
                    elif e2.kind in ("await", "catch", "raise"):
                        dirty = True
                if not dirty:
                    return False
            seen[key] = (ev.data, i)
    return True


# ----------------------------------------------------------- network raises
def future_exceptions(ctx: Ctx) -> List:
    """Classes of the exceptions any set_exception(...) site of the package may put on a response future."""
    prog, res = ctx.prog, ctx.res
    out: List = []

    def add(c):
        if c not in out:
            out.append(c)
    for fn in res.all_funcs():
        for n in res._own_nodes(fn):
            if isinstance(n, ast.Call) and isinstance(n.func, ast.Attribute) and n.func.attr == "set_exception" and n.args:
                a = n.args[0]
                e = a.func if isinstance(a, ast.Call) else a
                if isinstance(e, ast.Name):
                    b = prog.lookup(fn.module, e.id)
                    if b and b[0] == "class":
                        add(b[1])
                        continue
                    # a variable: handler variable or parameter
                    found = False
                    for h in ast.walk(fn.node):
                        if isinstance(h, ast.ExceptHandler) and h.name == e.id and h.type is not None \
                                and any(x is n for b in h.body for x in ast.walk(b)):
                            for c in prog.resolve_exc_expr(fn.module, h.type):
                                add(c)
                            found = True
                    if not found and e.id in fn.params:
                        # error_received(exc): asyncio documents OSError
                        add(prog.ext_class("builtins.OSError"))
                        found = True
                    if not found:
                        raise AnalysisError("cannot type the exception set at %s" % fn.loc(n))
                else:
                    raise AnalysisError("cannot type the exception set at %s" % fn.loc(n))
    return out


def tainted_attrs(ctx: Ctx) -> Set[str]:
    """self.<attr> of the inverter classes that hold text decoded from a response."""
    out: Set[str] = set()
    inv = ctx.prog.cls("Inverter")
    for ci in ctx.prog.all_subclasses(inv):
        for m in ci.methods.values():
            for n in ast.walk(m.node):
                if isinstance(n, ast.Assign) and isinstance(n.value, ast.Call):
                    src = norm(n.value)
                    if "_decode(" in src or ".decode(" in src:
                        for t in n.targets:
                            if isinstance(t, ast.Attribute) and isinstance(t.value, ast.Name) and t.value.id == "self":
                                out.add(t.attr)
    return out


def _length_guarded(prog, fn: FuncInfo, sub: ast.Subscript, k: int) -> bool:
    """x[k] lies inside ``if len(x) > k`` (any spelling), or after ``if len(x) <= k: return / raise / continue``."""
    need = k + 1 if k >= 0 else -k
    target = norm(sub.value)
    from ..astutil import single_assignments
    local = single_assignments(fn.node) if not fn.is_lambda else {}

    def min_len(test: ast.expr, truth: bool) -> int:
        """the length of x this test outcome guarantees (0 = nothing)"""
        if isinstance(test, ast.UnaryOp) and isinstance(test.op, ast.Not):
            return min_len(test.operand, not truth)
        if isinstance(test, ast.BoolOp):
            vals = [min_len(v, truth) for v in test.values]
            conj = isinstance(test.op, ast.And) == truth      # all operands hold
            return max(vals) if conj else min(vals)
        if isinstance(test, ast.Compare) and len(test.ops) == 1:
            l, op, r = test.left, test.ops[0], test.comparators[0]
            flip = {ast.Lt: ast.Gt, ast.LtE: ast.GtE, ast.Gt: ast.Lt, ast.GtE: ast.LtE, ast.Eq: ast.Eq, ast.NotEq: ast.NotEq}
            l, r = local.get(l.id, l) if isinstance(l, ast.Name) else l, local.get(r.id, r) if isinstance(r, ast.Name) else r     # n = len(x) kept in a local
            if isinstance(r, ast.Call) and norm(r.func) == "len" and type(op) in flip:
                l, op, r = r, flip[type(op)](), l
            if isinstance(l, ast.Call) and norm(l.func) == "len" and len(l.args) == 1 and norm(l.args[0]) == target:
                try:
                    c = prog.consteval(r, fn.module)
                except Exception:
                    return 0
                if not isinstance(c, int):
                    return 0
                t = type(op)
                if not truth:
                    t = {ast.Lt: ast.GtE, ast.LtE: ast.Gt, ast.Gt: ast.LtE, ast.GtE: ast.Lt, ast.Eq: ast.NotEq, ast.NotEq: ast.Eq}.get(t)
                return {ast.GtE: c, ast.Gt: c + 1, ast.Eq: c}.get(t, 0)
        return 0

    def search(stmts, guaranteed: int) -> Optional[bool]:
        g = guaranteed
        for st in stmts:
            if any(x is sub for x in ast.walk(st)):
                if isinstance(st, ast.If):
                    if any(x is sub for x in ast.walk(st.test)):
                        return g >= need
                    for body, truth in ((st.body, True), (st.orelse, False)):
                        if any(x is sub for b in body for x in ast.walk(b)):
                            return search(body, max(g, min_len(st.test, truth)))
                for fld in ("body", "orelse", "finalbody"):
                    blk = getattr(st, fld, None)
                    if isinstance(blk, list) and any(x is sub for b in blk for x in ast.walk(b) if isinstance(b, ast.AST)):
                        return search(blk, g)
                for h in getattr(st, "handlers", []):
                    if any(x is sub for x in ast.walk(h)):
                        return search(h.body, g)
                return g >= need
            # an early exit narrows what follows
            if isinstance(st, ast.If) and st.body and isinstance(st.body[-1], (ast.Return, ast.Raise, ast.Continue, ast.Break)) and not st.orelse:
                g = max(g, min_len(st.test, False))
        return None
    r = search(fn.node.body if not fn.is_lambda else [], 0)
    return bool(r)


def is_future_expr(fn: FuncInfo, e: ast.expr, depth: int = 0) -> bool:
    """The expression denotes an asyncio future of a request: self.response_future, a name that says so, or a local /
    parameter bound (once) to create_future(), to what send_request() returns, or to another such expression."""
    c = chain(e)
    if c and c[-1] == "response_future":
        return True
    if isinstance(e, ast.Name):
        if "future" in e.id.lower():
            return True
        if depth > 3 or fn.is_lambda:
            return False
        from ..astutil import single_assignments
        v = single_assignments(fn.node).get(e.id)
        if v is None:
            # a parameter annotated as Future
            a = fn.node.args
            for prm in a.posonlyargs + a.args + a.kwonlyargs:
                if prm.arg == e.id and prm.annotation is not None and "Future" in norm(prm.annotation):
                    return True
            return False
        if isinstance(v, ast.Await):
            v = v.value
            return isinstance(v, ast.Call) and (call_chain(v) or ("",))[-1] == "send_request"
        if isinstance(v, ast.Call) and (call_chain(v) or ("",))[-1] in ("create_future", "Future", "_max_retries_reached"):
            return True
        return is_future_expr(fn, v, depth + 1)
    return False


def net_prim(ctx: Ctx):
    prog = ctx.prog
    cancelled = prog.ext_class("asyncio.CancelledError")
    oserror = prog.ext_class("builtins.OSError")
    timeout = prog.ext_class("asyncio.TimeoutError")
    ude = prog.ext_class("builtins.UnicodeDecodeError")
    futexc = future_exceptions(ctx)
    tattrs = tainted_attrs(ctx)
    typeerror = prog.ext_class("builtins.TypeError")
    indexerror = prog.ext_class("builtins.IndexError")
    from ..calls import arity_error, argtype_error

    def prim(node, fn, res):
        out = []
        if isinstance(node, ast.Call) and (arity_error(prog, res, node, fn) is not None or argtype_error(prog, res, node, fn) is not None):
            out.append(typeerror)      # the call fails before / inside the callee with a TypeError (C09: an internal exception on a network path)
        if isinstance(node, ast.Call):
            # <object of a package class without __getitem__>[...]: TypeError (e.g. a ProtocolResponse indexed like its payload)
            own = [node.func] + list(node.args) + [k.value for k in node.keywords]
            for sub in [x for a in own for x in ast.walk(a) if isinstance(x, ast.Subscript) and isinstance(x.ctx, ast.Load)]:
                if any(isinstance(y, ast.Call) and y is not node and any(z is sub for z in ast.walk(y)) for a in own for y in ast.walk(a)):
                    continue      # belongs to an inner call, reported there
                try:
                    src = sub.value
                    if isinstance(src, ast.Name) and not fn.is_lambda:
                        # a local assigned several times (response = await read(..); response = response.response_data()):
                        # the assignment that reaches this use decides, not the union of all of them
                        from ..astutil import reaching_assignment
                        d = reaching_assignment(fn.node, src.id, sub)
                        if d is not None:
                            src = d.value if isinstance(d, ast.Await) else d
                    ts = res.expr_types(src, fn)
                except Exception:
                    ts = []
                if ts and all(t[0] == "inst" and isinstance(t[1], ClassInfo) and prog.find_method(t[1], "__getitem__") is None
                              and not any(isinstance(b, str) for b in prog.mro(t[1])[1:] if b not in ("builtins.object", "abc.ABC")) for t in ts):
                    out.append(typeerror)
        if isinstance(node, ast.Call):
            # text combined with an operator str does not have ("..." + x.hex() - "..."): TypeError while the arguments are built
            def _texty(x):
                return (isinstance(x, ast.Constant) and isinstance(x.value, str)) or isinstance(x, ast.JoinedStr) or \
                    (isinstance(x, ast.Call) and ((isinstance(x.func, ast.Attribute) and x.func.attr in ("hex", "format", "join", "decode", "strip", "rstrip", "lstrip"))
                                                  or (isinstance(x.func, ast.Name) and x.func.id in ("str", "repr", "hex")))) or \
                    (isinstance(x, ast.BinOp) and isinstance(x.op, ast.Add) and (_texty(x.left) or _texty(x.right)))
            for a in list(node.args) + [k.value for k in node.keywords]:
                for b in ast.walk(a):
                    if isinstance(b, ast.BinOp) and isinstance(b.op, (ast.Sub, ast.Div, ast.FloorDiv, ast.Pow, ast.LShift, ast.RShift, ast.BitAnd, ast.BitOr, ast.BitXor, ast.MatMult)) \
                            and (_texty(b.left) or _texty(b.right)):
                        out.append(typeerror)
        if isinstance(node, ast.Call) and (call_chain(node) or ("",))[-1] in ("unpack", "unpack_from", "iter_unpack") and fn.module.name in (
                "goodwe", "goodwe.inverter", "goodwe.et", "goodwe.es", "goodwe.dt"):
            # struct.unpack* of a received payload in the inverter classes (device info, discovery): the peer chooses the
            # length of a checksum-valid answer, a short one raises struct.error (not an InverterError) - unless the length was tested
            a0 = node.args[1] if len(node.args) > 1 else None
            guarded = False
            if a0 is not None:
                for t in ast.walk(fn.node):
                    if isinstance(t, ast.Compare) and any(isinstance(x, ast.Call) and norm(x.func) == "len" and x.args and norm(x.args[0]) == norm(a0) for x in ast.walk(t)) \
                            and getattr(t, "lineno", 0) <= getattr(node, "lineno", 0):
                        guarded = True
            if not guarded:
                out.append(prog.ext_class("struct.error"))
        if isinstance(node, ast.Await):
            v = node.value
            c = chain(v)
            if (c and c[-1] == "response_future") or is_future_expr(fn, v):
                out.append(cancelled)
                out.extend(futexc)
            if isinstance(v, ast.Call):
                cc = call_chain(v) or ()
                if cc and cc[-1] in ("create_datagram_endpoint", "create_connection"):
                    out.append(oserror)
                if cc and cc[-1] == "wait_for":
                    out.append(timeout)
            # async with asyncio.timeout(...): every suspension inside the block can be ended by the deadline
            if node in timeout_scoped_awaits(fn):
                out.append(timeout)
        elif isinstance(node, ast.Call):
            cc = call_chain(node) or ()
            last = cc[-1] if cc else ""
            if last == "result" and len(cc) >= 2 and ("future" in cc[-2] or (isinstance(node.func, ast.Attribute) and is_future_expr(fn, node.func.value))):
                out.append(cancelled)
                out.extend(futexc)
            if isinstance(node.func, ast.Attribute) and node.func.attr == "decode" and not isinstance(node.func.value, ast.Constant):
                if not any(k.arg == "errors" for k in node.keywords) and len(node.args) < 2:
                    out.append(ude)
            if isinstance(node.func, ast.Name) and node.func.id == "int" and node.args:
                src = node.args[0]
                names = {n.attr for n in ast.walk(src) if isinstance(n, ast.Attribute) and isinstance(n.value, ast.Name) and n.value.id == "self"}
                if names & tattrs:
                    out.append(NetValueError)
            # text decoded from a response has whatever length the peer chose: indexing it at a fixed position raises
            # IndexError unless a test of its length encloses (or an early exit precedes) the access
            for sub in [x for a in list(node.args) + [k.value for k in node.keywords] for x in ast.walk(a) if isinstance(x, ast.Subscript)]:
                if isinstance(sub.slice, ast.Slice) or not (isinstance(sub.value, ast.Attribute) and isinstance(sub.value.value, ast.Name)
                                                             and sub.value.value.id == "self" and sub.value.attr in tattrs):
                    continue
                try:
                    k = prog.consteval(sub.slice, fn.module)
                except Exception:
                    continue
                if isinstance(k, int) and not _length_guarded(prog, fn, sub, k):
                    out.append(indexerror)
        return out
    return prim


def timeout_scope_of(w: ast.AST) -> Optional[ast.Call]:
    """The asyncio.timeout(...) / timeout_at(...) call of an ``async with`` statement, or None."""
    if not isinstance(w, ast.AsyncWith):
        return None
    for it in w.items:
        c = it.context_expr
        cc = call_chain(c) if isinstance(c, ast.Call) else None
        if cc and cc[-1] in ("timeout", "timeout_at") and (len(cc) == 1 or cc[0] in ("asyncio", "async_timeout")):
            return c
    return None


def timeout_scoped_awaits(fn: FuncInfo) -> set:
    """The await expressions of fn that lie inside an ``async with asyncio.timeout(...)`` block."""
    got = getattr(fn.node, "_gw_timeout_scoped", None)      # kept on the node itself: ids are reused between programs
    if got is None:
        got = set()
        for w in ast.walk(fn.node):
            if timeout_scope_of(w) is not None:
                for b in w.body:
                    for x in ast.walk(b):
                        if isinstance(x, ast.Await):
                            got.add(x)
        fn.node._gw_timeout_scoped = got
    return got


def net_mayraise(ctx: Ctx) -> MayRaise:
    """Exception-escape summaries seeded with the network-caused primitives (C09), shared by the transport rules."""
    def build():
        return _NetMayRaise(ctx)
    return ctx.memo("netraise", build)


class _NetMayRaise(MayRaise):
    def __init__(self, ctx: Ctx):
        self._ctx = ctx
        prim = net_prim(ctx)
        # wait_for(inner): the inner coroutine's exceptions surface at the await of wait_for
        self._inner_prim = prim
        super().__init__(ctx.prog, ctx.res, self._prim)

    def _prim(self, node, fn, res):
        out = list(self._inner_prim(node, fn, res))
        if isinstance(node, ast.Await) and isinstance(node.value, ast.Call):
            cc = call_chain(node.value) or ()
            if cc and cc[-1] == "wait_for" and node.value.args and isinstance(node.value.args[0], ast.Call):
                ct = res.resolve_call(node.value.args[0], fn)
                for callee in ct.funcs:
                    out.extend(self.summary.get(callee.qualname, {}).keys())
        return out

    def _escapes_stmt(self, fn, st, hctx):
        out = super()._escapes_stmt(fn, st, hctx)
        return out


def dominated_by_not_done(p, origin) -> bool:
    """The raising set_result/set_exception is preceded on the path by `<same future>.done()` tested False
    with nothing completing the future in between."""
    fut = (call_chain(origin) or ())[:-1]
    idx = None
    for i, ev in enumerate(p.events):
        if ev.kind == "raise" and ev.node is origin:
            idx = i
    if idx is None:
        return False
    for k in range(idx - 1, -1, -1):
        ev = p.events[k]
        if ev.kind == "test" and isinstance(ev.node, ast.Call) and (call_chain(ev.node) or ())[-1:] == ("done",) \
                and (call_chain(ev.node) or ())[:-1] == fut:
            return ev.data is False
        t = tags(ev)
        if t & {"fut_set_result", "fut_set_exception", "fut_cancel", "close_transport", "await"}:
            return False
    return False



def _ise_feasible(ctx: Ctx, p: Path) -> bool:
    ise = ctx.prog.ext_class("asyncio.InvalidStateError")
    for ev in p.events:
        if ev.kind == "raise" and ev.data is ise and isinstance(ev.node, ast.Call) and dominated_by_not_done(p, ev.node):
            return False
    return True


def protocol_paths(ctx: Ctx, fn: FuncInfo) -> List[Path]:
    """Feasible paths of a protocol function under the network oracle."""
    from .. import paths as _paths
    key = "ppaths:%s:%s" % (fn.qualname, _paths.CURRENT_SELF_CLS[0].name if _paths.CURRENT_SELF_CLS[0] is not None else "")
    def build():
        mr = net_mayraise(ctx)
        extra = _callback_oracle(ctx)
        def oracle(node, f):
            return list(dict.fromkeys(list(mr.oracle(node, f)) + list(extra(node, f))))
        return [p for p in enumerate_paths(ctx.prog, fn, oracle) if feasible(p) and _ise_feasible(ctx, p)]
    return ctx.memo(key, build)


def _callback_oracle(ctx: Ctx):
    prog = ctx.prog
    partial, rejected = prog.cls("PartialResponseException"), prog.cls("RequestRejectedException")
    ise = prog.ext_class("asyncio.InvalidStateError")

    def oracle(node, fn):
        if isinstance(node, ast.Call):
            c = call_chain(node) or ()
            if c and c[-1] == "validator":
                return [partial, rejected]
            if c and c[-1] in ("set_result", "set_exception") and len(c) >= 2 and ("future" in c[-2] or (isinstance(node.func, ast.Attribute) and is_future_expr(fn, node.func.value))):
                return [ise]
        return []
    return oracle


def every_datagram_validated(ctx: Ctx, rep, rule: str, ci: ClassInfo):
    """Every path of the receive callback evaluates the command's validator on what it received (joined with a
    stored fragment or not): nothing is filtered out, answered or ignored on the strength of an ad-hoc test of the
    bytes before the validator has seen them - such a test drops continuation fragments and conforming frames."""
    cbs = [f for f in loop_callbacks(ctx, ci) if f.name in ("datagram_received", "data_received")]
    for cb in cbs:
        bad = None
        n = 0
        for p in protocol_paths(ctx, cb):
            n += 1
            reached = any(ev.kind in ("call", "raise", "test") and isinstance(ev.node, ast.Call) and (call_chain(ev.node) or ("",))[-1] == "validator" for ev in p.events)
            if not reached and bad is None:
                bad = p
        rep.check(bad is None and n > 0, rule, "validated:%s" % cb.short, cb.loc(), "%s hands every received byte string to the validator (%d paths)" % (cb.short, n),
                  bad="%s can finish without the validator having seen the received bytes [path %s]: frames (or continuation fragments) taking this path are dropped unseen" % (
                      cb.short, bad.describe(8) if bad else ""))


def only_send_request_transmits(ctx: Ctx, rep, rule: str, ci: ClassInfo):
    """The transport write lives in _send_request (or helpers reached only from it): a callback or another method that
    writes to the transport bypasses the request lock, the timer and - for Modbus/TCP - the renewal of the transaction id."""
    sr = method(ctx, ci, "_send_request")
    for c in [x for x in ctx.prog.mro(ci) if hasattr(x, "methods")]:
        for m in c.methods.values():
            if ctx.prog.find_method(ci, m.name) is not m:
                continue
            sends = [n for n in walk_no_lambda(m.node) if isinstance(n, ast.Call) and (call_chain(n) or ())[:2] == ("self", "_transport")
                     and (call_chain(n) or ("",))[-1] in ("sendto", "write")]
            if not sends:
                continue
            ok = only_reached_from(ctx, m, [sr])
            rep.check(ok, rule, "sender:%s.%s" % (ci.name, m.name), m.loc(sends[0]), "%s is the transmission helper of %s" % (m.short, ci.name),
                      bad="%s writes to the transport outside _send_request: the frame goes out without the request lock / timer discipline and (Modbus/TCP) with the transaction id of an earlier transmission" % m.short)


def none_derefs(ctx: Ctx, fn: FuncInfo):
    """Paths of *fn* on which a test has just established that ``self.<attr>`` is unset (falsy / None) and, with no
    assignment of that attribute and no call that could assign it in between, a method is called or an attribute read
    on it: an AttributeError ('NoneType' object has no attribute ...).  [(path, node, 'self.attr')], one per site."""
    out, seen = [], set()
    try:
        net = protocol_paths(ctx, fn)          # with the network exceptions: the handlers' code is on these paths
    except AnalysisError:
        net = []
    for p in list(enumerate_paths(ctx.prog, fn, lambda n, f: [])) + list(net):
        unset = {}
        for i, ev in enumerate(p.events):
            if ev.kind == "test":
                node, val = ev.node, bool(ev.data)
                while isinstance(node, ast.UnaryOp) and isinstance(node.op, ast.Not):
                    node, val = node.operand, not val
                if isinstance(node, ast.Compare) and len(node.ops) == 1 and isinstance(node.comparators[0], ast.Constant) and node.comparators[0].value is None \
                        and isinstance(node.ops[0], (ast.Is, ast.IsNot)):
                    val = (not val) if isinstance(node.ops[0], ast.Is) else val
                    node = node.left
                c = chain(node)
                if c and len(c) == 2 and c[0] == "self" and isinstance(node, ast.Attribute):
                    if val is False:
                        unset[c[1]] = i
                    else:
                        unset.pop(c[1], None)
                    continue
                # any other test: look for a dereference inside it (x.is_closing() after 'not x')
                for x in ast.walk(ev.node):
                    if isinstance(x, ast.Attribute) and isinstance(x.value, ast.Attribute) and chain(x.value) and chain(x.value)[0] == "self" \
                            and len(chain(x.value)) == 2 and chain(x.value)[1] in unset and id(x) not in seen:
                        seen.add(id(x))
                        out.append((p, x, "self." + chain(x.value)[1]))
            elif ev.kind == "stmt":
                from ..astutil import self_store
                for a, _, _ in self_store(ev.node):
                    unset.pop(a, None)
            elif ev.kind in ("call", "await", "enter"):
                node = ev.node
                if ev.kind == "call" and isinstance(node, ast.Call) and isinstance(node.func, ast.Attribute):
                    c = chain(node.func.value)
                    if c and len(c) == 2 and c[0] == "self" and c[1] in unset and id(node) not in seen:
                        seen.add(id(node))
                        out.append((p, node, "self." + c[1]))
                        continue
                    if c and c[0] == "self" and len(c) == 1:
                        unset.clear()          # a method of the same object may assign anything
                if ev.kind == "await":
                    unset.clear()              # other code ran in between
    return out


# ----------------------------------------------------------------------- shared: the retry sends the caller's request
def retry_resends_own_command(ctx: Ctx, rep, rule: str):
    """send_request(command) hands exactly its own parameter to _send_request and to the retry recursion - never the
    request remembered on the protocol object (self.command is the *previous* request until _send_request ran: a
    retry after a failed connect would re-send that one, e.g. a write during a read-only call).  Helpers of the class
    that transmit or retry on behalf of send_request are held to the same: they pass on their own parameter, and
    send_request gives them its own."""
    prog = ctx.prog
    for ci in proto_classes(ctx):
        sr = method(ctx, ci, "send_request")
        rep.analysed_add("functions", sr.qualname)
        methods = {}
        for c in prog.mro(ci):
            if isinstance(c, ClassInfo):
                for nm, m in c.methods.items():
                    methods.setdefault(nm, m)
        bad = None
        n = 0
        carriers = {}      # method name -> index of the parameter that carries the request
        for nm, m in methods.items():
            for c in ast.walk(m.node):
                if isinstance(c, ast.Call) and call_chain(c) in (("self", "send_request"), ("self", "_send_request")) and c.args:
                    n += 1
                    a = c.args[0]
                    params = [x for x in m.params if x not in ("self", "cls")]
                    rebound = isinstance(a, ast.Name) and any(isinstance(x, ast.Name) and x.id == a.id and isinstance(x.ctx, (ast.Store, ast.Del)) for x in ast.walk(m.node))
                    if not (isinstance(a, ast.Name) and a.id in params) or rebound:
                        if bad is None:
                            bad = (m, c)
                    elif nm != "send_request":
                        carriers[nm] = params.index(a.id)
        cmd = sr.params[1]
        for c in ast.walk(sr.node):
            cc = call_chain(c) if isinstance(c, ast.Call) else None
            if cc and len(cc) == 2 and cc[0] == "self" and cc[1] in carriers and cc[1] != "_send_request":
                k = carriers[cc[1]]
                a = c.args[k] if k < len(c.args) else None
                if not (isinstance(a, ast.Name) and a.id == cmd) and bad is None:
                    bad = (sr, c)
        if n < 2:
            raise AnalysisError("%s: fewer than two uses of the request (transmission and retry) found in the class" % sr.short)
        rep.check(bad is None, rule, "own-command:%s" % ci.name, bad[0].loc(bad[1]) if bad is not None else sr.loc(),
                  "%s transmits and retries the request it was given (%d sites)" % (sr.short, n),
                  bad=bad and "%s: %s does not pass on the caller's request unchanged: what is (re)transmitted may be another request - the one left on the protocol object by "
                              "an earlier call (a write, say, while this call only reads)" % (bad[0].short, norm(bad[1])[:70]))


# ----------------------------------------------------------------------- shared: in-flight fields are bound before use
INFLIGHT_FIELDS = ("command", "response_future")


def _inflight_derefs(fn: FuncInfo) -> List[Tuple[str, ast.AST]]:
    """(field, node) for every `self.<field>.<attr>` / `self.<field>[...]` in fn that no earlier assignment to self.<field>
    in the same function and no enclosing truth test of self.<field> protects."""
    out = []
    assigned_line = {}
    for n in ast.walk(fn.node):
        for attr, value, kind in self_store(n) if isinstance(n, ast.stmt) else []:
            if attr in INFLIGHT_FIELDS and not (isinstance(value, ast.Constant) and value.value is None):
                assigned_line[attr] = min(assigned_line.get(attr, 10 ** 9), n.lineno)
    guarded = set()
    for n in ast.walk(fn.node):
        if isinstance(n, (ast.If, ast.IfExp, ast.BoolOp, ast.While)):
            tests = [n.test] if not isinstance(n, ast.BoolOp) else list(n.values[:-1])
            for t in tests:
                for x in ast.walk(t):
                    c = chain(x) if isinstance(x, ast.Attribute) else None
                    if c and len(c) == 2 and c[0] == "self" and c[1] in INFLIGHT_FIELDS:
                        scope = (n.body if isinstance(n, (ast.If, ast.While)) else [n.body] if isinstance(n, ast.IfExp) else n.values[1:])
                        for s in scope:
                            for y in ast.walk(s):
                                guarded.add(id(y))
    for n in ast.walk(fn.node):
        base = None
        if isinstance(n, ast.Attribute) and isinstance(n.value, ast.Attribute):
            base = n.value
        elif isinstance(n, ast.Subscript) and isinstance(n.value, ast.Attribute):
            base = n.value
        if base is None:
            continue
        c = chain(base)
        if not (c and len(c) == 2 and c[0] == "self" and c[1] in INFLIGHT_FIELDS):
            continue
        if id(n) in guarded or getattr(n, "lineno", 0) > assigned_line.get(c[1], 10 ** 9):
            continue
        out.append((c[1], n))
    return out


def inflight_fields_bound(ctx: Ctx, rep, rule: str):
    """self.command / self.response_future are None on a fresh protocol object and are bound by _send_request.  On every
    path of send_request an attribute of one of them is used - there or in a method it calls - only after _send_request
    ran on that path (a failed connect reaches the retry handlers and _max_retries_reached() before anything was
    bound: AttributeError instead of the documented failure)."""
    for ci in proto_classes(ctx):
        sr = method(ctx, ci, "send_request")
        rep.analysed_add("functions", sr.qualname)
        own = {id(n): (f, n) for f, n in _inflight_derefs(sr)}
        callee_derefs = {}
        for name, m in ((nm, ctx.prog.find_method(ci, nm)) for nm in ("_max_retries_reached", "_close_transport", "_connect", "_ensure_lock")):
            if m is not None:
                d = _inflight_derefs(m)
                if d:
                    callee_derefs[name] = (m, d)
        bad = None
        npaths = 0
        for p in protocol_paths(ctx, sr):
            npaths += 1
            bound = False
            for ev in p.events:
                t = tags(ev)
                if ev.kind == "call" and "inner_send" in t:
                    bound = True
                    continue
                if bound or bad is not None:
                    continue
                if ev.kind == "call" and isinstance(ev.node, ast.Call):
                    c = call_chain(ev.node) or ()
                    if len(c) == 2 and c[0] == "self" and c[1] in callee_derefs:
                        m, d = callee_derefs[c[1]]
                        bad = (p, d[0][0], m.loc(d[0][1]), "%s, called at %s" % (m.short, sr.loc(ev.node)))
                        continue
                if ev.kind in ("call", "test", "stmt", "return") and ev.node is not None:
                    for x in ast.walk(ev.node):
                        if id(x) in own:
                            bad = (p, own[id(x)][0], sr.loc(x), sr.short)
                            break
        if npaths == 0:
            raise AnalysisError("%s has no feasible path" % sr.short)
        rep.check(bad is None, rule, "inflight-bound:%s" % ci.name, sr.loc(),
                  "%s: attributes of self.command / self.response_future are used only after _send_request bound them (%d paths)" % (sr.short, npaths),
                  bad=bad and "%s uses an attribute of self.%s (%s) on a path on which _send_request has not run: on a fresh protocol object the field is None and "
                              "AttributeError leaves the request instead of the documented failure [path %s]" % (bad[3], bad[1], bad[2], bad[0].describe(8)))


# ----------------------------------------------------------------------- shared: the transport is there when it is used
def transport_present_when_used(ctx: Ctx, rep, rule: str):
    """While send_request is suspended the loop may drop the transport (connection_lost / a timeout closing it set
    self._transport = None).  On every path of send_request an attribute of self._transport is used - there or by
    _send_request - only when the last thing that could suspend was the awaited _connect(), or under a truth test of
    self._transport made since then: otherwise AttributeError replaces the documented failure."""
    from ..effects import MaySuspend
    ms = ctx.memo("maysuspend", lambda: MaySuspend(ctx.prog, ctx.res))

    def connects(aw: ast.Await) -> bool:
        for x in ast.walk(aw):
            if isinstance(x, ast.Call) and (call_chain(x) == ("self", "_connect") or (call_chain(x) or ("",))[-1] in ("create_datagram_endpoint", "create_connection")):
                return True
        return False

    for ci in proto_classes(ctx):
        sr = method(ctx, ci, "send_request")
        rep.analysed_add("functions", sr.qualname)
        bad = None
        npaths = nuses = 0
        for p in protocol_paths(ctx, sr):
            npaths += 1
            present = False
            for ev in p.events:
                if ev.kind in ("await", "raise") and isinstance(ev.node, ast.Await):
                    if ev.kind == "await" and connects(ev.node):
                        present = True
                    elif ms.await_suspends(ev.node, sr):
                        present = False
                    continue
                if ev.kind == "test" and chain(ev.node) == ("self", "_transport"):
                    present = present or ev.data is True
                    if ev.data is False:
                        present = False
                    continue
                uses = []
                if ev.kind == "call" and "inner_send" in tags(ev):
                    uses.append(ev.node)
                if ev.kind in ("call", "test", "stmt", "return") and ev.node is not None:
                    for x in ast.walk(ev.node):
                        if isinstance(x, ast.Attribute) and isinstance(x.value, ast.Attribute) and chain(x.value) == ("self", "_transport"):
                            uses.append(x)
                for u in uses:
                    nuses += 1
                    if not present and bad is None:
                        bad = (p, u)
        if npaths == 0 or nuses == 0:
            raise AnalysisError("%s: no use of the transport found on any path" % sr.short)
        rep.check(bad is None, rule, "transport-present:%s" % ci.name, sr.loc(),
                  "%s uses the transport only right after the awaited _connect() or under a test of self._transport (%d paths)" % (sr.short, npaths),
                  bad=bad and "%s: %s is evaluated at %s after a suspension during which the loop may have dropped the transport (connection_lost sets self._transport = None): "
                              "AttributeError on None instead of the documented failure [path %s]" % (sr.short, norm(bad[1])[:60], sr.loc(bad[1]), bad[0].describe(8)))


# ----------------------------------------------------------------------- shared: bookkeeping dictionaries cannot raise
def dict_lookups_total(ctx: Ctx, rep, rule: str):
    """A dictionary kept on the protocol object (counters, statistics, per-reason bookkeeping: created in __init__ with
    a fixed key set) is read with a computed key only where a missing key cannot raise: KeyError in a receive callback
    leaves the callback after the timer was cancelled and before the future was completed - the request neither fails
    nor times out; in send_request it replaces the documented failure."""
    prog = ctx.prog
    nsites = 0
    for ci in proto_classes(ctx):
        dict_attrs = {}
        methods = {}
        for c in prog.mro(ci):
            if not isinstance(c, ClassInfo):
                continue
            for nm, m in c.methods.items():
                methods.setdefault(nm, m)
            init = c.methods.get("__init__")
            if init is None:
                continue
            for st in ast.walk(init.node):
                if not isinstance(st, ast.stmt):
                    continue
                for attr, value, kind in self_store(st):
                    v = value
                    is_dict = isinstance(v, (ast.Dict, ast.DictComp)) or (
                        isinstance(v, ast.Call) and norm(v.func) in ("dict", "dict.fromkeys", "collections.OrderedDict", "OrderedDict"))
                    if is_dict:
                        dict_attrs[attr] = init.loc(st)
        bad = None
        for nm, m in methods.items():
            parents = {}
            for n in ast.walk(m.node):
                for ch in ast.iter_child_nodes(n):
                    parents[id(ch)] = n
            for n in ast.walk(m.node):
                if not (isinstance(n, ast.Subscript) and chain(n.value) and len(chain(n.value)) == 2 and chain(n.value)[0] == "self" and chain(n.value)[1] in dict_attrs):
                    continue
                par = parents.get(id(n))
                loads = isinstance(n.ctx, ast.Load) or (isinstance(par, ast.AugAssign) and par.target is n)
                if not loads or isinstance(n.slice, ast.Constant):
                    continue
                nsites += 1
                # guarded: `key in self.<d>` tested by an enclosing if, or an enclosing try that catches the lookup error
                guarded = False
                cur = n
                while id(cur) in parents:
                    up = parents[id(cur)]
                    if isinstance(up, ast.If) and cur in up.body and any(
                            isinstance(x, ast.Compare) and len(x.ops) == 1 and isinstance(x.ops[0], ast.In) and norm(x.left) == norm(n.slice)
                            and norm(x.comparators[0]) == norm(n.value) for x in ast.walk(up.test)):
                        guarded = True
                    if isinstance(up, ast.Try) and cur in up.body and any(
                            h.type is None or any(isinstance(x, ast.Name) and x.id in ("KeyError", "LookupError", "Exception", "BaseException") for x in ast.walk(h.type))
                            for h in up.handlers):
                        guarded = True
                    cur = up
                if not guarded and bad is None:
                    bad = (m, n)
        rep.check(bad is None, rule, "dict-lookup:%s" % ci.name, bad[0].loc(bad[1]) if bad else ci.module.relpath,
                  "%s: no unguarded computed-key lookup in a dictionary of the protocol object (%d dictionaries)" % (ci.name, len(dict_attrs)),
                  bad=bad and "%s: %s looks up a computed key in a dictionary created with a fixed key set (%s): KeyError for any other key (an exception reason outside the table, "
                              "say) escapes - in a receive callback after the timer was cancelled and before the future is completed, so the request neither fails nor times out" % (
                                  bad[0].short, norm(bad[1])[:60], dict_attrs[chain(bad[1].value)[1]]))
