"""C05 - retry budget and timeout are per request and exactly as configured."""
from __future__ import annotations

import ast
from typing import List, Optional, Set

from .. import AnalysisError
from ..astutil import call_chain, chain, self_store
from ..calls import arg_for
from ..core import Ctx, Report
from ..model import NotConst, FuncInfo, ClassInfo, norm
from ..paths import enumerate_paths, no_raise
from .proto import proto_classes, method, protocol_paths, tags, loop_callbacks, feasible

PID = "C05"
LEVEL = "other"
EXPLANATION = (
    "Static provenance and reset rules: (R1) every call in the package that binds one of the configuration formals host, port, "
    "comm_addr, timeout, retries (constructors, factories, entry points - resolved through the class table, including "
    "'for inv in [ET, DT, ES]: inv(...)') must bind it from a value of the same role, the protocol fields timeout/retries are "
    "written only from the constructor formals, and search_inverters must build its probe with timeout 1 s and 0 retries; "
    "(R2) every site that ends a request (a callback completing the future with a result or an exception, _max_retries_reached) "
    "resets the per-request retry counter; (R3) _ensure_lock re-creates the lock and closes the old transport when the running "
    "loop changed. The number and spacing of transmissions observed on a wire are not decided."
    ' (R5) inventory of the places that schedule _timeout_mechanism with a delay (both _send_request methods, both partial-response handlers): the delay is self.timeout itself.'
    ' (R6, shared with C04.R1) every transmission in _send_request is followed by self._timer = call_later(self.timeout, self._timeout_mechanism).'
    ' (R7) send_request does not await the response future inside an asyncio.timeout / wait_for scope: only the timer armed with self.timeout bounds the wait.'
)

ROLES = ("host", "port", "comm_addr", "timeout", "retries")


def _is_future(fn, e):
    from .proto import is_future_expr
    try:
        return is_future_expr(fn, e)
    except Exception:
        return False


def _role_names(e: ast.expr) -> Set[str]:
    return {n.id for n in ast.walk(e) if isinstance(n, ast.Name) and n.id in ROLES}


def check(ctx: Ctx, rep: Report):
    rep.rule("C05.R1", "configuration values keep their role through every constructor / factory call; pinned probe parameters of search_inverters", 15)
    rep.rule("C05.R2", "the per-request retry counter is reset wherever a request ends", 8)
    rep.rule("C05.R3", "_ensure_lock re-creates the lock and closes the old transport on a changed event loop", 1)
    rep.rule("C05.R4", "no live timeout survives the end of a request: every callback path that completes or cancels the future has cancelled the timer", 6)
    r1(ctx, rep)
    r2(ctx, rep)
    r3(ctx, rep)
    r4(ctx, rep)
    rep.rule("C05.R5", "every wait is the configured one: wherever self._timeout_mechanism is scheduled with a delay, the delay is self.timeout itself", 1)
    from .proto import timeout_delays
    timeout_delays(ctx, rep, "C05.R5")
    rep.rule("C05.R7", "nothing but the configured timer bounds the wait for an answer: the response future is not awaited inside an asyncio.timeout / wait_for scope with a constant limit", 2)
    response_wait_unbounded(ctx, rep)
    rep.rule("C05.R6", "every transmission is followed by arming the timeout (shared with C04.R1): a request sent without a timer is not given its configured timeout and retries at all", 4)
    from .c04 import r1 as _c04_r1
    from ..core import Report as _R6
    _s6 = _R6("C04", rep.tier)
    for _ci in proto_classes(ctx):
        _c04_r1(ctx, _s6, _ci)
    for o in _s6.obligations:
        if o.rule == "C04.R1":
            rep.obligations.append(type(o)("C05.R6", o.key, o.where, o.what, o.status, o.detail))


def response_wait_unbounded(ctx: Ctx, rep: Report):
    """send_request waits for the answer with `await <response future>`; how long is decided by the timer armed with
    self.timeout alone.  A constant deadline around that await (async with asyncio.timeout(5): ..., wait_for(future, 5))
    caps every configured timeout above it."""
    from .proto import is_future_expr
    for ci in proto_classes(ctx):
        sr = method(ctx, ci, "send_request")
        bad = None

        def awaits_future(node):
            for x in ast.walk(node):
                if isinstance(x, ast.Await) and (is_future_expr(sr, x.value) or (isinstance(x.value, ast.Name) and "future" in x.value.id)):
                    return x
            return None
        for n in ast.walk(sr.node):
            if isinstance(n, ast.AsyncWith):
                for it in n.items:
                    c = call_chain(it.context_expr) if isinstance(it.context_expr, ast.Call) else None
                    if c and c[-1] in ("timeout", "timeout_at") and bad is None:
                        for st in n.body:
                            w = awaits_future(st)
                            if w is not None:
                                bad = (w, norm(it.context_expr))
                                break
            if isinstance(n, ast.Call) and (call_chain(n) or ("",))[-1] == "wait_for" and n.args and bad is None:
                a0 = n.args[0]
                if is_future_expr(sr, a0) or (isinstance(a0, ast.Name) and "future" in a0.id):
                    bad = (n, norm(n)[:60])
        rep.check(bad is None, "C05.R7", "response-wait:%s" % sr.short, sr.loc(bad[0]) if bad else sr.loc(),
                  "%s: the wait for the answer is bounded by the configured timer only" % sr.short,
                  bad="%s awaits the response inside %s: the wait for an answer ends at that constant deadline whatever timeout was configured (a longer configured timeout is cut short and the retry schedule with it)" % (
                      sr.short, bad[1] if bad else ""))


def close_transport_cancels_timer(ctx: Ctx, ci) -> bool:
    fn = method(ctx, ci, "_close_transport")
    paths = [p for p in enumerate_paths(ctx.prog, fn, no_raise) if feasible(p)]
    for p in paths:
        ok = any((ev.kind == "call" and "timer_cancel" in tags(ev)) or (ev.kind == "test" and chain(ev.node) == ("self", "_timer") and ev.data is False)
                 for ev in p.events)
        if not ok:
            return False
    return bool(paths)


def r4(ctx: Ctx, rep: Report):
    """A timeout left armed when its request ends fires during a later request and cancels that one early,
    so the later request does not get the configured timeout / spacing."""
    prog = ctx.prog
    for ci in proto_classes(ctx):
        ct_cancels = close_transport_cancels_timer(ctx, ci)
        is_stream = any(isinstance(b, str) and b == "asyncio.Protocol" for b in prog.mro(ci))
        for cb in loop_callbacks(ctx, ci):
            if cb.name == "_timeout_mechanism":
                continue     # the firing of the timer itself
            if is_stream and cb.name == "error_received":
                continue
            verdict = {"n": 0, "ok": True, "path": None, "what": ""}
            for p in protocol_paths(ctx, cb):
                state = "maybe-live"
                ended = None
                for ev in p.events:
                    t = tags(ev)
                    if ev.kind == "test" and chain(ev.node) == ("self", "_timer") and ev.data is False:
                        state = "absent"
                    if ev.kind == "call" and "timer_cancel" in t:
                        state = "cancelled"
                    if ev.kind == "call" and "close_transport" in t:
                        ended = ended or "the transport is closed (pending future cancelled)"
                        if ct_cancels:
                            state = "cancelled"
                    if ev.kind == "call" and (t & {"fut_set_result", "fut_set_exception", "fut_cancel"}):
                        ended = ended or norm(ev.node)[:50]
                    if ev.kind == "stmt" and "store:_timer" in t and isinstance(getattr(ev.node, "value", None), ast.Call):
                        state = "re-armed"
                if ended is None or state == "re-armed":
                    continue
                verdict["n"] += 1
                if state == "maybe-live" and verdict["ok"]:
                    verdict.update(ok=False, path=p, what=ended)
            if verdict["n"] == 0:
                continue
            rep.check(verdict["ok"], "C05.R4", "timer-at-end:%s.%s" % (ci.name, cb.name), cb.loc(),
                      "%s.%s ends a request only with its timeout cancelled (%d paths)" % (ci.name, cb.name, verdict["n"]),
                      bad="%s.%s ends the request (%s) but leaves its timeout armed: when it fires during the next request it cancels that request's attempt early, "
                          "so the next request does not get the configured timeout [path %s]" % (ci.name, cb.name, verdict["what"], verdict["path"].describe(8) if verdict["path"] else ""))


def r1(ctx: Ctx, rep: Report):
    prog, res = ctx.prog, ctx.res
    nsites = 0
    for fn in res.all_funcs():
        for ct in res.calls_of(fn):
            callees = [c for c in ct.funcs if not c.is_lambda]
            if not callees:
                continue
            for callee in callees:
                formals = [f for f in callee.params if f in ROLES]
                if not formals:
                    continue
                site_has_role = False
                for f in formals:
                    a = _explicit_arg(ct.node, callee, f)
                    if a is None:
                        continue
                    names = _role_names(a)
                    try:
                        prog.consteval(a, fn.module)
                        is_const = True
                    except NotConst:
                        is_const = False
                    if not names and not is_const:
                        continue
                    site_has_role = True
                    key = "bind:%s->%s:%s<-%s" % (fn.short, callee.short, f, norm(a))
                    if names:
                        rep.check(names <= {f}, "C05.R1", key, fn.loc(ct.node),
                                  "%s binds %s from %s" % (callee.short, f, norm(a)),
                                  bad="%s passes '%s' as the %s of %s (%s): the configured %s is not what the protocol will use" % (
                                      fn.short, norm(a), f, callee.short, norm(ct.node)[:90], ", ".join(sorted(names - {f}))))
                if site_has_role:
                    nsites += 1
    if nsites < 10:
        raise AnalysisError("only %d call sites binding configuration formals were found" % nsites)
    # pinned parameters of the broadcast search
    top = prog.modules["goodwe"]
    b = top.scope.get("search_inverters")
    if not b or b[0] != "func":
        raise AnalysisError("goodwe.search_inverters not found")
    si = b[1]
    ctor = [ct for ct in res.calls_of(si) if ct.ctor is not None and prog.is_subclass(ct.ctor, prog.cls("InverterProtocol"))]
    if len(ctor) != 1:
        raise AnalysisError("search_inverters: expected exactly one protocol construction, found %d" % len(ctor))
    init = prog.find_method(ctor[0].ctor, "__init__")
    for f, want in (("timeout", 1), ("retries", 0)):
        a = arg_for(ctor[0].node, init, f)
        try:
            v = prog.consteval(a, si.module) if a is not None else None
        except NotConst:
            v = None
        rep.check(v == want, "C05.R1", "search:%s" % f, si.loc(ctor[0].node), "search_inverters probes with %s=%s" % (f, want),
                  bad="search_inverters builds its probe with %s=%s (from %s), not %s: %s" % (f, v, norm(ctor[0].node), want,
                      "one transmission, 1 s" if f == "retries" else "1 s timeout"))
    # the protocol fields are written from the formals of the same name, only in the constructor
    base = prog.cls("InverterProtocol")
    for mod in prog.modules.values():
        for n in ast.walk(mod.tree):
            tgt = val = None
            if isinstance(n, ast.Assign) and len(n.targets) == 1:
                tgt, val = n.targets[0], n.value
            elif isinstance(n, ast.AnnAssign) and n.value is not None:
                tgt, val = n.target, n.value
            elif isinstance(n, ast.AugAssign):
                tgt, val = n.target, None
            if isinstance(tgt, ast.Attribute) and tgt.attr in ("timeout", "retries"):
                fn = _enclosing(ctx, mod, n)
                in_init = fn is not None and fn.name == "__init__" and fn.cls is not None and prog.is_subclass(fn.cls, base)
                ok = in_init and isinstance(val, ast.Name) and val.id == tgt.attr
                rep.check(ok, "C05.R1", "field:%s:%s" % (fn.short if fn else mod.short, norm(n)), "%s:%d" % (mod.relpath, n.lineno),
                          "protocol field %s is set from the constructor formal of the same name" % tgt.attr,
                          bad="%s writes the protocol field '%s' from %s: later requests would not use the configured value" % (
                              fn.short if fn else mod.short, tgt.attr, norm(val) if val is not None else "an update"))
    # ... and read where the budget is compared / the timer armed (C04.R1 / C04.R4 check those uses)


def _enclosing(ctx: Ctx, mod, node) -> Optional[FuncInfo]:
    best = None
    for f in ctx.prog.functions:
        if f.module is mod and not f.is_lambda and any(x is node for x in ast.walk(f.node)):
            if best is None or any(x is f.node for x in ast.walk(best.node)):
                best = f
    return best


def _explicit_arg(call: ast.Call, callee: FuncInfo, pname: str) -> Optional[ast.expr]:
    params = callee.params
    if callee.cls is not None and not callee.is_static and params and params[0] in ("self", "cls"):
        params = params[1:]
    for k in call.keywords:
        if k.arg == pname:
            return k.value
    if pname in params:
        i = params.index(pname)
        if i < len(call.args) and not any(isinstance(a, ast.Starred) for a in call.args[: i + 1]):
            return call.args[i]
    return None


def r2(ctx: Ctx, rep: Report):
    prog = ctx.prog
    for ci in proto_classes(ctx):
        # request-ending callback paths: the future is completed with a result or an exception
        for cb in loop_callbacks(ctx, ci):
            if cb.name == "_timeout_mechanism":
                continue
            sites = {}
            is_stream = any(isinstance(b, str) and b == "asyncio.Protocol" for b in prog.mro(ci))
            if is_stream and cb.name == "error_received":
                continue  # never invoked by asyncio for a stream protocol
            for p in protocol_paths(ctx, cb):
                ends = [ev for ev in p.events if ev.kind == "call" and (tags(ev) & {"fut_set_result", "fut_set_exception"})]
                if not ends:
                    continue
                resets = [ev for ev in p.events if ev.kind == "stmt" and "store:_retry=0" in tags(ev)]
                what = "result" if any("fut_set_result" in tags(e) for e in ends) else "exception"
                st = sites.setdefault(id(ends[0].node), {"node": ends[0].node, "what": what, "ok": True, "bad": None, "n": 0})
                st["n"] += 1
                if not resets:
                    st["ok"], st["bad"] = False, p
            for st in sites.values():
                rep.check(st["ok"], "C05.R2", "end:%s.%s:%s:%s" % (ci.name, cb.name, st["what"], norm(st["node"])[:50]), cb.loc(st["node"]),
                          "%s.%s completes the request with a %s and resets the retry counter (%d paths)" % (ci.name, cb.name, st["what"], st["n"]),
                          bad="%s.%s completes the request (%s) but leaves self._retry as it is: the next request starts with a reduced retry budget [path %s]" % (
                              ci.name, cb.name, norm(st["node"])[:60], st["bad"].describe(6) if st["bad"] else ""))
        mx = method(ctx, ci, "_max_retries_reached")
        for p in enumerate_paths(prog, mx, no_raise):
            resets = [ev for ev in p.events if ev.kind == "stmt" and "store:_retry=0" in tags(ev)]
            rep.check(bool(resets), "C05.R2", "end:%s._max_retries_reached" % ci.name, mx.loc(),
                      "_max_retries_reached resets the retry counter",
                      bad="%s: _max_retries_reached ends the request with the retry counter still at its maximum: the next request is transmitted only once" % ci.name)
        # exits of send_request that end the request without any callback having completed it
        # (connect errors, exhausted budget handled locally): the counter must be reset on the path
        sr = method(ctx, ci, "send_request")
        mx_resets = all(any(ev.kind == "stmt" and "store:_retry=0" in tags(ev) for ev in p.events) for p in enumerate_paths(prog, mx, no_raise))
        exits = {}
        for p in protocol_paths(ctx, sr):
            if any(ev.kind == "call" and "recursive" in tags(ev) for ev in p.events):
                continue      # the inner activation ends the request
            if p.end != "raise":
                continue      # returns: the future was completed by a callback (checked above) or by _max_retries_reached
            origin = p.end_node
            first_raise = next((ev for ev in p.events if ev.kind == "raise"), None)
            src = first_raise.node if first_raise is not None else origin
            if isinstance(src, ast.Await) and not isinstance(src.value, ast.Call) and ("future" in norm(src.value) or _is_future(sr, src.value)):
                continue      # the exception was put on the future by a callback, which resets the counter (checked above)
            reset = any((ev.kind == "stmt" and "store:_retry=0" in tags(ev)) or (ev.kind == "call" and "max_retries" in tags(ev) and mx_resets) for ev in p.events)
            k = "%s@%s" % (norm(src)[:50], prog.exc_name(p.end_data))
            e = exits.setdefault(k, {"ok": True, "path": None, "src": src, "n": 0})
            e["n"] += 1
            if not reset:
                e["ok"], e["path"] = False, p
        for k, e in exits.items():
            rep.check(e["ok"], "C05.R2", "exit:%s:%s" % (sr.short, k), sr.loc(e["src"]),
                      "%s: failing exit (%s) resets the retry counter (%d paths)" % (sr.short, k, e["n"]),
                      bad="%s lets the request fail with %s without resetting self._retry: if this was a retry, the next request on this object starts with a reduced budget [path %s]" % (
                          sr.short, k, e["path"].describe(8) if e["path"] else ""))
        # the counter starts at zero
        init = ci.methods.get("__init__")
        ok = init is not None and any(isinstance(n, (ast.Assign, ast.AnnAssign)) and any(a == "_retry" for a, _, _ in self_store(n))
                                      and isinstance(n.value, ast.Constant) and n.value.value == 0 for n in ast.walk(init.node))
        rep.check(ok, "C05.R2", "init:%s" % ci.name, init.loc() if init else ci.module.relpath, "%s starts with _retry = 0" % ci.name,
                  bad="%s.__init__ does not initialise _retry to 0" % ci.name)


def r3(ctx: Ctx, rep: Report):
    prog = ctx.prog
    base = prog.cls("InverterProtocol")
    fn = base.methods.get("_ensure_lock")
    if fn is None:
        raise AnalysisError("InverterProtocol._ensure_lock not found")
    paths = [p for p in enumerate_paths(prog, fn, no_raise) if feasible(p)]
    n = 0
    for p in paths:
        new_lock = [ev for ev in p.events if ev.kind == "stmt" and "store:_lock" in tags(ev)]
        if not new_lock:
            # must be the fast path: returns the existing lock after comparing the loops
            def same_loop(ev):
                """a test establishing self._running_loop == <current loop> (either spelling)"""
                n_ = ev.node
                if ev.kind != "test" or not isinstance(n_, ast.Compare) or len(n_.ops) != 1 or "_running_loop" not in norm(n_):
                    return False
                if isinstance(n_.ops[0], (ast.Eq, ast.Is)):
                    return ev.data is True
                if isinstance(n_.ops[0], (ast.NotEq, ast.IsNot)):
                    return ev.data is False
                return False
            cmp_loop = any(same_loop(ev) for ev in p.events)
            rep.check(cmp_loop, "C05.R3", "reuse:%s" % p.describe(), fn.loc(), "existing lock reused only when the running loop is unchanged",
                      bad="_ensure_lock reuses the lock without comparing the event loop [path %s]" % p.describe())
            continue
        n += 1
        closes = any(ev.kind == "call" and "close_transport" in tags(ev) for ev in p.events)
        remembers = any(ev.kind == "stmt" and "store:_running_loop" in tags(ev) for ev in p.events)
        rep.check(closes and remembers, "C05.R3", "renew:%s" % p.describe(), fn.loc(),
                  "new lock: the loop is recorded and the old transport closed",
                  bad="_ensure_lock creates a new lock %s [path %s]" % ("without closing the transport of the previous loop" if not closes else "without recording the loop", p.describe()))
    if n == 0:
        raise AnalysisError("_ensure_lock never creates a lock")
