"""C13 - derived and label sensors agree with the raw sensors of the same read."""
from __future__ import annotations

import ast
import io
import re
import tokenize
from fractions import Fraction
from typing import Dict, List, Optional, Set, Tuple

from .. import AnalysisError
from ..core import Ctx, Report
from ..decoders import Case, Decoders, simplify, canon_tree, canon_value, canon_cond, reads_in, tree_of, NONE
from ..model import norm
from ..astutil import call_chain
from ..tables import Tables, Row, Opaque
from .c14 import tables_ctx, decoders_ctx

PID = "C13"
LEVEL = "other"
EXPLANATION = (
    "Sibling agreement inside the extracted tables, on the decoder summaries: (R1) every label sensor (Enum*, bitmaps, EnumCalculated) "
    "is paired with the code sensor of the same register (by '<x>'/'<x>_label' name, else by offset) and the key it looks up equals the "
    "code sensor's value on every case of the summaries (bitmap words compared modulo 2^32); (R2) two-word bitmaps combine as "
    "65536 x high + low (tree normal form, so '(H << 16) + L', '(H << 16) | L' and 'H * 65536 + L' are the same and 'H << 16 + L' is "
    "not), their offsets are those of the *_h / *_l rows, and decode_bitmap walks bits 0..31 with a one-bit right shift; (R3) every "
    "register read inside a getter denotes a table row with the same width and signedness, totals equal the sum of their parts, "
    "computed powers are round(voltage x current) of the like-numbered rows, and a formula documented in the comment above a row "
    "equals the getter after substituting the rows' own decoders. Label texts and the thresholds of read_grid_mode are not decided."
    ' (R4, shared with C12.R2) Sensor.read positions at its own offset and decodes, on every path: raw and derived values of one result come from the same positions of the same buffer.'
    ' (R5) read_runtime_data returns what _map_response decoded from this call\'s responses: no item of the result is assigned, deleted, defaulted or merged from anything else afterwards.'
)

LABEL_CLASSES = ("Enum", "EnumH", "EnumL", "Enum2", "EnumBitmap4", "EnumCalculated")


def default_case(cases: List[Case]) -> Optional[Case]:
    """The case in which no sentinel equality holds."""
    for c in cases:
        if c.outcome == "return" and all(x[0] == "not" or x[0] not in ("Eq",) for x in c.conds):
            if not any(x[0] == "Eq" for x in c.conds):
                return c
    return None


def cond_key(conds) -> Tuple:
    return tuple(sorted(canon_cond(c) for c in conds))


def mod32(s: str) -> str:
    """Canonical string with 4-byte signed reads viewed as bit patterns (two's complement)."""
    s = s.replace("R[s4@", "R[u4@")
    return s.replace("==-1", "==4294967295")


def check(ctx: Ctx, rep: Report):
    rep.rule("C13.R1", "label sensors look up exactly the value of the code sensor of the same register", 22)
    rep.rule("C13.R2", "two-word bitmaps decode 65536 x high word + low word of the *_h / *_l registers; decode_bitmap visits bits 0..31", 6)
    rep.rule("C13.R3", "derived sensors equal their definition over the raw rows: reads denote rows of the same width/signedness, totals, products, documented formulas", 40)
    rep.rule("C13.R4", "raw values are decoded from the same buffer positions the derived sensors read: Sensor.read positions at its own offset and decodes, on every path (shared with C12.R2)", 1)
    from .c12 import sensor_read_rule
    sensor_read_rule(ctx, rep, "C13.R4")
    tabs, dec = tables_ctx(ctx), decoders_ctx(ctx)
    for (famname, attr), rows in tabs.tables.items():
        by_id: Dict[str, Row] = {}
        for r in rows:
            by_id.setdefault(r.id_, r)
        r1(ctx, rep, dec, famname, attr, rows, by_id)
        r2_rows(ctx, rep, dec, famname, attr, rows, by_id)
        r3(ctx, rep, dec, tabs, famname, attr, rows, by_id)
    r2_bitmap_fn(ctx, rep)
    rep.rule("C13.R5", "what read_runtime_data returns is what _map_response decoded from the responses of this call: the result is never patched afterwards (values of an earlier read, defaults, corrections)", 3)
    result_integrity(ctx, rep, "C13.R5")


def result_integrity(ctx, rep, rule: str):
    """read_runtime_data of ET / DT / ES (helpers outside the inventory included): the returned dictionary is bound to a
    _map_response(...) result and only ever extended by .update(<_map_response result>) / |= of one; no item is
    assigned, deleted or defaulted afterwards - raw, derived and label values of one result all come from the same
    responses."""
    from ..astutil import calls_through_helpers, walk_no_lambda
    prog = ctx.prog
    MUT = {"pop", "popitem", "setdefault", "clear", "__setitem__", "__delitem__"}

    def is_map(e, local_maps, ci=None, depth=0):
        if isinstance(e, ast.Await):
            e = e.value
        if isinstance(e, ast.Call) and (call_chain(e) or ("",))[-1] == "_map_response":
            return True
        if isinstance(e, ast.Dict) and not e.keys:
            return True                       # nothing decoded (a block that was switched off)
        if isinstance(e, ast.Call) and ci is not None and depth < 3:
            # a private per-block helper: every value it returns is a _map_response result, {} or such a helper's result
            c = call_chain(e)
            m = prog.find_method(ci, c[1]) if c and len(c) == 2 and c[0] == "self" else None
            if m is not None:
                lm = {n.targets[0].id for n in ast.walk(m.node) if isinstance(n, ast.Assign) and len(n.targets) == 1 and isinstance(n.targets[0], ast.Name)
                      and is_map(n.value, set(), ci, depth + 1)}
                rets = [n for n in ast.walk(m.node) if isinstance(n, ast.Return)]
                return bool(rets) and all(r.value is not None and is_map(r.value, lm, ci, depth + 1) for r in rets)
        return isinstance(e, ast.Name) and e.id in local_maps

    for famname in ("ET", "DT", "ES"):
        ci_ = prog.cls(famname)
        fn = ci_.methods.get("read_runtime_data")
        if fn is None:
            raise AnalysisError("%s.read_runtime_data not found" % famname)
        results = {n.value.id for n in ast.walk(fn.node) if isinstance(n, ast.Return) and isinstance(n.value, ast.Name)}
        local_maps = {n.targets[0].id for n in ast.walk(fn.node) if isinstance(n, ast.Assign) and len(n.targets) == 1 and isinstance(n.targets[0], ast.Name)
                      and is_map(n.value, set(), ci_)}
        bad = None
        for n in walk_no_lambda(fn.node):
            if isinstance(n, (ast.Assign, ast.AugAssign, ast.AnnAssign)):
                tgts = n.targets if isinstance(n, ast.Assign) else [n.target]
                for t in tgts:
                    if isinstance(t, ast.Subscript) and isinstance(t.value, ast.Name) and t.value.id in results and bad is None:
                        bad = (n, "assigns %s" % norm(t))
                if isinstance(n, ast.AugAssign) and isinstance(n.target, ast.Name) and n.target.id in results and not is_map(n.value, local_maps, ci_) and bad is None:
                    bad = (n, "merges %s into the result" % norm(n.value)[:50])
            elif isinstance(n, ast.Delete):
                for t in n.targets:
                    if isinstance(t, ast.Subscript) and isinstance(t.value, ast.Name) and t.value.id in results and bad is None:
                        bad = (n, "deletes %s" % norm(t))
            elif isinstance(n, ast.Call) and isinstance(n.func, ast.Attribute) and isinstance(n.func.value, ast.Name) and n.func.value.id in results:
                if n.func.attr in MUT and bad is None:
                    bad = (n, "calls %s" % norm(n)[:50])
                if n.func.attr == "update" and not (len(n.args) == 1 and not n.keywords and is_map(n.args[0], local_maps, ci_)) and bad is None:
                    bad = (n, "updates the result with %s" % (norm(n.args[0])[:50] if n.args else "keywords"))
        rep.check(bad is None, rule, "result:%s.read_runtime_data" % famname, fn.loc(bad[0]) if bad else fn.loc(),
                  "%s.read_runtime_data returns the decoded values untouched" % famname,
                  bad="%s.read_runtime_data %s after decoding: that value does not come from the responses of this call, so it need not agree with the raw / derived values decoded next to it" % (famname, bad[1] if bad else ""))


# ----------------------------------------------------------------------- R1
def r1(ctx, rep, dec, famname, attr, rows, by_id):
    for lab in rows:
        if lab.cls.name not in LABEL_CLASSES:
            continue
        code = None
        if lab.id_.endswith("_label") and lab.id_[:-6] in by_id:
            code = by_id[lab.id_[:-6]]
        else:
            cands = [r for r in rows if r is not lab and r.offset == lab.offset and r.cls.name not in LABEL_CLASSES and "_getter" not in r.attrs and r.cls.name != "EnumBitmap22"]
            if "_getter" in lab.attrs:
                cands = [r for r in rows if r is not lab and "_getter" in r.attrs and norm(r.attrs["_getter"].node) == norm(lab.attrs["_getter"].node)]
            code = cands[0] if cands else None
        key = "pair:%s.%s:%s" % (famname, attr, lab.id_)
        if code is None:
            rep.note("C13.R1: label sensor %s.%s '%s' has no code sensor on the same register" % (famname, attr, lab.id_))
            continue
        lab_cases = dec.row_cases(lab, "read")
        code_cases = dec.row_cases(code, "read")
        bitmap = lab.cls.name == "EnumBitmap4"
        lmap, cmap = {}, {}
        for c in lab_cases:
            v = c.value
            if v is None or v[0] != "obj":
                lmap[cond_key(c.conds)] = "?" + canon_value(v)
                continue
            if v[1] == "label":
                k = canon_value(_val(v[3]))
            elif v[1] == "call" and v[2] == "decode_bitmap":
                k = canon_value(_val(v[3][0]))
            else:
                k = "?" + canon_value(v)
            lmap[cond_key(c.conds)] = k
        for c in code_cases:
            cmap[cond_key(c.conds)] = canon_value(c.value)
        if bitmap:
            lmap = {tuple(mod32(x) for x in k): mod32(v) for k, v in lmap.items()}
            cmap = {tuple(mod32(x) for x in k): mod32(v) for k, v in cmap.items()}
        # the same bytes: (address, byte delta, width) of every read
        lbytes = {(l[1], l[2], l[3]) for c in lab_cases for l in c.reads}
        cbytes = {(l[1], l[2], l[3]) for c in code_cases for l in c.reads}
        if lbytes != cbytes:
            lmap = dict(lmap)
            cmap = dict(cmap)
            lmap[("<registers>",)] = str(sorted(lbytes))
            cmap[("<registers>",)] = str(sorted(cbytes))
        ok = lmap == cmap
        rep.check(ok, "C13.R1", key, lab.where(), "'%s' looks up the value of '%s' (%d cases)" % (lab.id_, code.id_, len(lmap)),
                  bad="%s.%s: label sensor '%s' (%s@%s) does not look up the value of its code sensor '%s' (%s@%s): label keys %s, code values %s" % (
                      famname, attr, lab.id_, lab.cls.name, lab.offset, code.id_, code.cls.name, code.offset, _short(lmap), _short(cmap)))


def _val(k):
    if isinstance(k, tuple) and k and k[0] in ("num", "const", "none", "obj", "opaque"):
        return k
    return ("opaque", repr(k))


def _short(d) -> str:
    return "; ".join("%s -> %s" % (" & ".join(k) or "always", v) for k, v in sorted(d.items()))[:300]


# ----------------------------------------------------------------------- R2
def r2_rows(ctx, rep, dec, famname, attr, rows, by_id):
    for row in rows:
        if row.cls.name != "EnumBitmap22":
            continue
        key = "bitmap22:%s.%s:%s" % (famname, attr, row.id_)
        hi_off, lo_off = row.offset, row.attrs.get("_offsetL")
        hrow, lrow = by_id.get(row.id_ + "_h"), by_id.get(row.id_ + "_l")
        ok_rows = hrow is not None and lrow is not None and hrow.offset == hi_off and lrow.offset == lo_off \
            and hrow.cls.name == "Integer" and lrow.cls.name == "Integer"
        rep.check(ok_rows, "C13.R2", key + ":words", row.where(), "'%s' combines the registers of '%s_h' and '%s_l'" % (row.id_, row.id_, row.id_),
                  bad="%s.%s '%s' reads (%s, %s) but '%s_h'/'%s_l' are at (%s, %s)" % (
                      famname, attr, row.id_, hi_off, lo_off, row.id_, row.id_, hrow.offset if hrow else None, lrow.offset if lrow else None))
        bad = None
        form = "?"
        for c in dec.row_cases(row, "read"):
            v = c.value
            if v is None or v[0] != "obj" or v[1] != "call" or v[2] != "decode_bitmap":
                bad = "does not return decode_bitmap(...)"
                break
            arg = _val(v[3][0])
            got = tree_of(arg) if arg[0] in ("num", "const") else None
            if got is None:
                bad = "bitmap argument is not numeric: %s" % canon_value(arg)
                break
            hleaf = ("read", hi_off, 0, 2, False, "int")
            lleaf = ("read", lo_off, 0, 2, False, "int")
            conds = set(c.conds)
            h_sent = ("Eq", hleaf, ("c", Fraction(65535))) in conds
            l_sent = ("Eq", lleaf, ("c", Fraction(65535))) in conds
            hval = ("c", Fraction(0)) if h_sent else hleaf
            lval = ("c", Fraction(0)) if l_sent else lleaf
            want = simplify(("add", (("mul", (hval, ("c", Fraction(65536)))), lval)))
            if not h_sent and not l_sent:
                form = canon_tree(simplify(got)).replace("R[u2@0]", "W")
            if simplify(got) != want and bad is None:
                bad = "combines the words as %s instead of 65536 x high + low = %s" % (canon_tree(simplify(got)), canon_tree(want))
        rep.check(bad is None, "C13.R2", key + ":combine:" + form, row.where(), "'%s' = 65536 x high word + low word" % row.id_,
                  bad="%s.%s '%s': %s" % (famname, attr, row.id_, bad))


def _bit_test(prog, fn, atom: ast.expr, idx: str):
    """('acc', name) for ``name & 1`` (optionally == 1 / != 0), ('direct', name) for ``(name >> idx) & 1`` or
    ``name & (1 << idx)``; None for anything else."""
    def cv(e):
        try:
            return prog.consteval(e, fn.module)
        except Exception:
            return None
    e = atom
    nonzero_only = False
    if isinstance(e, ast.Compare) and len(e.ops) == 1:
        c = cv(e.comparators[0])
        if isinstance(e.ops[0], ast.Eq) and c == 1:
            e = e.left
        elif isinstance(e.ops[0], (ast.NotEq, ast.Gt)) and c == 0:
            e, nonzero_only = e.left, True
        else:
            return None
    if not (isinstance(e, ast.BinOp) and isinstance(e.op, ast.BitAnd)):
        return None
    for a, b in ((e.left, e.right), (e.right, e.left)):
        if cv(b) == 1:
            if isinstance(a, ast.Name):
                return ("acc", a.id)
            if isinstance(a, ast.BinOp) and isinstance(a.op, ast.RShift) and isinstance(a.left, ast.Name) and isinstance(a.right, ast.Name) and a.right.id == idx:
                return ("direct", a.left.id)
        if isinstance(b, ast.BinOp) and isinstance(b.op, ast.LShift) and cv(b.left) == 1 and isinstance(b.right, ast.Name) and b.right.id == idx \
                and isinstance(a, ast.Name) and (nonzero_only or e is atom):
            return ("direct", a.id)
    return None


def r2_bitmap_fn(ctx, rep):
    """decode_bitmap visits bit positions 0..31 in order, tests bit i of the word at position i (shifting accumulator or
    direct shift / mask), and looks the label up by the position."""
    from ..paths import cond_paths
    prog = ctx.prog
    fn = prog.func("sensor.decode_bitmap")
    loops = [n for n in ast.walk(fn.node) if isinstance(n, ast.For)]
    ok = False
    why = "expected one loop over range(32)"
    if len(loops) == 1 and isinstance(loops[0].target, ast.Name):
        lp = loops[0]
        idx = lp.target.id
        try:
            rng = list(prog.consteval(lp.iter, fn.module))
        except Exception:
            rng = None
        value_p = fn.params[0]
        # names holding the word: the parameter and locals copied from it before the loop
        words = {value_p}
        for s_ in fn.node.body:
            if isinstance(s_, ast.Assign) and isinstance(s_.value, ast.Name) and s_.value.id in words and isinstance(s_.targets[0], ast.Name):
                words.add(s_.targets[0].id)

        def shifts_of(name):
            return [(k, s_) for k, s_ in enumerate(lp.body) if
                    (isinstance(s_, ast.Assign) and isinstance(s_.targets[0], ast.Name) and s_.targets[0].id == name and isinstance(s_.value, ast.BinOp)
                     and isinstance(s_.value.op, ast.RShift) and norm(s_.value.left) == name and norm(s_.value.right) == "1") or
                    (isinstance(s_, ast.AugAssign) and isinstance(s_.op, ast.RShift) and norm(s_.target) == name and norm(s_.value) == "1")]

        def writes_of(name):
            return [s_ for s_ in ast.walk(lp) if isinstance(s_, (ast.Assign, ast.AugAssign)) and
                    any(isinstance(t, ast.Name) and t.id == name for t in (s_.targets if isinstance(s_, ast.Assign) else [s_.target]))]
        tests = []
        for k, s_ in enumerate(lp.body):
            if isinstance(s_, ast.If):
                first = cond_paths(s_.test)[0][0][0][0]
                bt = _bit_test(prog, fn, first, idx)
                if bt is not None and bt[1] in words:
                    tests.append((k, bt))
        uses_index = any(isinstance(n, ast.Call) and norm(n.func).endswith(".get") and n.args and norm(n.args[0]) == idx for n in ast.walk(lp))
        if rng != list(range(32)):
            why = "does not visit bit positions 0..31 in order"
        elif len(tests) != 1:
            why = "does not test the lowest bit"
        elif not uses_index:
            why = "does not look the label up by bit position"
        else:
            k, (kind, name) = tests[0]
            sh = shifts_of(name)
            if kind == "acc" and not (len(sh) == 1 and sh[0][0] > k and len(writes_of(name)) == 1):
                why = "does not shift the word right by one bit per position"
            elif kind == "direct" and writes_of(name):
                why = "modifies the word it tests by position"
            else:
                ok = True
    rep.check(ok, "C13.R2", "decode_bitmap", fn.loc(), "decode_bitmap lists the labels of bits 0..31, lowest first",
              bad="decode_bitmap %s" % why)


# ----------------------------------------------------------------------- R3
def leaf_row_index(tabs: Tables, dec: Decoders, famname: str) -> Dict[int, List[Tuple[Row, Tuple]]]:
    """address -> [(row, leaf of its own decoder)] over the sensor tables of the family."""
    idx: Dict[int, List[Tuple[Row, Tuple]]] = {}
    for (f, attr), rows in tabs.tables.items():
        if f != famname or tabs.is_settings_table(attr):
            continue      # getters of the runtime tables read the runtime blocks, not the settings block
        for r in rows:
            if "_getter" in r.attrs or r.cls.name in ("EnumBitmap22",):
                continue
            for c in dec.row_cases(r, "read"):
                for leaf in c.reads:
                    if leaf[2] == 0 or r.cls.name in ("ByteL", "EnumL"):
                        idx.setdefault(leaf[1], [])
                        if not any(x[0] is r for x in idx[leaf[1]]):
                            idx[leaf[1]].append((r, leaf))
                break
    return idx


def comment_above(row: Row) -> Optional[str]:
    src = row.owner.module.source.splitlines()
    i = row.call.lineno - 2
    if 0 <= i < len(src):
        line = src[i].strip()
        if line.startswith("#"):
            return line.lstrip("#").strip()
    return None


def r3(ctx, rep, dec, tabs, famname, attr, rows, by_id):
    if tabs.is_settings_table(attr):
        return
    idx = ctx.memo("leafidx:" + famname, lambda: leaf_row_index(tabs, dec, famname))
    getters = [r for r in rows if "_getter" in r.attrs and r.cls.name == "Calculated"]
    for g in getters:
        cases = dec.row_cases(g, "read")
        key = "%s.%s:%s" % (famname, attr, g.id_)
        # (a) every read denotes a row with the same width and signedness
        leaves = []
        for c in cases:
            for leaf in c.reads:
                if leaf not in leaves:
                    leaves.append(leaf)
            if any(c2.value is not None and c2.value[0] == "typeerror" for c2 in [c]):
                pass
        for leaf in leaves:
            _, base, delta, n, signed, kind = leaf
            cands = idx.get(base, [])
            same_addr = [(r, l) for r, l in cands if l[2] == delta or delta == 0]
            if not same_addr:
                rep.note("C13.R3: getter '%s' reads %d byte(s) at %s where no row of %s is defined" % (g.id_, n, base, famname))
                continue
            ok = any(l[3] == n and l[4] == signed and l[2] == delta for r, l in same_addr)
            rrow, rl = same_addr[0]
            rep.check(ok, "C13.R3", "leaf:%s:%s+%d" % (key, base, delta), g.where(),
                      "'%s' reads %s%d at %s like row '%s'" % (g.id_, "s" if signed else "u", n, base, rrow.id_),
                      bad="%s '%s' reads the register of '%s' (%s: %s%d) as %s%d: a derived value computed from a different interpretation than the raw sensor" % (
                          famname, g.id_, rrow.id_, rrow.cls.name, "s" if rl[4] else "u", rl[3], "s" if signed else "u", n))
        # (b) totals: ppv = sum of the ppvN
        if g.id_ == "ppv":
            parts = sorted([r for r in rows if re.fullmatch(r"ppv\d+", r.id_)], key=lambda r: r.id_)
            _check_sum(rep, dec, famname, key, g, parts, "C13.R3", clamp=True)
        # (c) products: <p><n> = round(v<n> * i<n>)
        m = re.fullmatch(r"(ppv|pgrid)(\d+)", g.id_)
        if m:
            vname = {"ppv": "vpv", "pgrid": "vgrid"}[m.group(1)] + m.group(2)
            iname = {"ppv": "ipv", "pgrid": "igrid"}[m.group(1)] + m.group(2)
            v, i = by_id.get(vname), by_id.get(iname)
            if v is None or i is None:
                rep.note("C13.R3: no voltage/current rows %s/%s for '%s'" % (vname, iname, g.id_))
            else:
                dv, di, dg = default_case(dec.row_cases(v, "read")), default_case(dec.row_cases(i, "read")), default_case(cases)
                ok = dv is not None and di is not None and dg is not None and dg.value[0] == "num"
                if ok:
                    want = ("round", simplify(("mul", (tree_of(dv.value), tree_of(di.value)))), None)
                    ok = dg.value[1] == want
                rep.check(ok, "C13.R3", "product:" + key, g.where(), "'%s' = round(%s x %s)" % (g.id_, vname, iname),
                          bad="%s '%s' is %s, not round(%s x %s) of the like-numbered rows" % (famname, g.id_, canon_value(dg.value) if dg else "?", vname, iname))
        # (d) documented formula in the comment above the row
        cm = comment_above(g)
        if cm and re.fullmatch(r"[\w\s+\-]+", cm) and ("+" in cm or "-" in cm):
            _check_formula(rep, dec, famname, key, g, cm, by_id)


def _clamp0(t):
    return ("max", (("c", Fraction(0)), t))


def _check_sum(rep, dec, famname, key, g, parts, rule, clamp):
    dg = default_case(dec.row_cases(g, "read"))
    if dg is None or dg.value[0] != "num" or not parts:
        rep.violation(rule, "total:" + key, g.where(), "%s '%s': total cannot be compared with its parts" % (famname, g.id_))
        return
    terms = []
    for p in parts:
        dp = default_case(dec.row_cases(p, "read"))
        if dp is None or tree_of(dp.value) is None:
            rep.violation(rule, "total:" + key, g.where(), "%s '%s': part '%s' has no numeric default case" % (famname, g.id_, p.id_))
            return
        terms.append(tree_of(dp.value))
    plain = simplify(("add", tuple(terms)))
    clamped = simplify(("add", tuple(simplify(_clamp0(t)) for t in terms)))
    got = simplify(dg.value[1])
    ok = got == plain or got == clamped
    rep.check(ok, rule, "total:" + key, g.where(), "'%s' = %s" % (g.id_, " + ".join(p.id_ for p in parts)),
              bad="%s '%s' is %s, which is not the sum of %s (%s)" % (famname, g.id_, canon_tree(got), [p.id_ for p in parts], canon_tree(plain)))


def _resolve(name: str, by_id: Dict[str, Row]) -> Optional[Row]:
    for cand in (name, name + "1"):
        if cand in by_id:
            return by_id[cand]
    return None


def _check_formula(rep, dec, famname, key, g, formula: str, by_id):
    toks = re.findall(r"[+\-]|\w+", formula)
    sign = 1
    parts: List[Tuple[int, Row]] = []
    for t in toks:
        if t == "+":
            sign = 1
        elif t == "-":
            sign = -1
        else:
            r = _resolve(t, by_id)
            if r is None:
                rep.note("C13.R3: comment '%s' above '%s' names '%s' which is not a row id: formula not checked" % (formula, g.id_, t))
                return
            parts.append((sign, r))
            sign = 1
    if len(parts) < 2:
        return
    gcases = [c for c in dec.row_cases(g, "read") if c.outcome == "return" and not any(x[0] == "Eq" and _is_sentinel(x) for x in c.conds)]
    if not gcases:
        rep.note("C13.R3: '%s' has no sentinel-free case" % g.id_)
        return
    bad = None
    ncmp = 0
    for gc in gcases:
        gconds = set(gc.conds)
        terms = []
        usable = True
        for sgn, r in parts:
            pcs = [c for c in dec.row_cases(r, "read") if c.outcome == "return" and set(c.conds) <= gconds]
            if len(pcs) != 1 or tree_of(pcs[0].value) is None:
                usable = False
                break
            t = tree_of(pcs[0].value)
            terms.append(t if sgn > 0 else ("neg", t))
        if not usable or gc.value[0] != "num":
            continue
        ncmp += 1
        want = _strip_round(simplify(("add", tuple(terms))))
        got = _strip_round(simplify(gc.value[1]))
        if got != want and bad is None:
            bad = (canon_tree(got), canon_tree(want))
    if ncmp == 0:
        rep.note("C13.R3: formula '%s' of '%s' could not be aligned with the rows' cases" % (formula, g.id_))
        return
    rep.check(bad is None, "C13.R3", "formula:" + key, g.where(), "'%s' = %s (documented above the row; %d cases)" % (g.id_, formula, ncmp),
              bad="%s '%s' computes %s but the formula documented above it (%s) gives %s" % (famname, g.id_, bad[0] if bad else "", formula, bad[1] if bad else ""))


def _is_sentinel(cond) -> bool:
    try:
        return cond[2][0] == "c" and cond[2][1] in (Fraction(65535), Fraction(4294967295))
    except Exception:
        return False


def _int_valued(t) -> bool:
    if t[0] == "read":
        return not t[5].startswith("float")
    if t[0] == "c":
        return t[1].denominator == 1
    if t[0] in ("add", "mul", "max", "min"):
        return all(_int_valued(x) for x in t[1])
    if t[0] in ("abs", "round", "int"):
        return True
    return False


def _nonneg(t) -> bool:
    if t[0] == "read":
        return t[4] is False and not t[5].startswith("float")
    if t[0] == "c":
        return t[1] >= 0
    if t[0] in ("add", "mul", "max"):
        return all(_nonneg(x) for x in t[1]) if t[0] != "max" else any(_nonneg(x) for x in t[1])
    if t[0] == "abs":
        return True
    return False


def _strip_round(t):
    if t[0] == "round" and t[2] is None and _int_valued(t[1]):
        return _strip_round(t[1])
    if t[0] == "max" and len(t[1]) == 2 and any(x == ("c", Fraction(0)) for x in t[1]):
        other = [x for x in t[1] if x != ("c", Fraction(0))]
        if other and _nonneg(other[0]):
            return _strip_round(other[0])      # max(0, unsigned value) is the value
    if t[0] in ("add", "mul"):
        return simplify((t[0], tuple(_strip_round(x) for x in t[1])))
    return t
