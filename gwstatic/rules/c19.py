"""C19 - operation mode, export limit and DoD setters round-trip with their getters."""
from __future__ import annotations

import ast
from fractions import Fraction
import re
from typing import Dict, List, Optional, Set, Tuple

from .. import AnalysisError
from ..astutil import call_chain, chain
from ..core import Ctx, Report
from ..model import FuncInfo, ClassInfo, NotConst, EnumVal, norm
from ..paths import enumerate_paths, no_raise, Path
from ..reference import GROUP_LAYOUT
from ..replay import Replay
from ..symx import Sym, Lin
from .proto import feasible

PID = "C19"
LEVEL = "other"
EXPLANATION = (
    "Setter / getter agreement, decided on the source: (R1) in ET.set_operation_mode the constant written to 'work_mode' in the branch "
    "for OperationMode.X equals X.value (3 for the emulated eco modes), in ES the branch for X ends over the call graph in "
    "_set_work_mode(OperationMode.X) (ECO for the emulated ones), and get_operation_mode reads the same setting and maps it through "
    "OperationMode(...); (R2) every member get_operation_modes(True) can return (list minus the removals, per platform flag) has a "
    "branch in set_operation_mode that writes and does not raise; (R3) setter and getter use eco_mode_1 and the setter switches groups "
    "2-4 off; (R4) the constant bytes of the encode_charge / encode_discharge templates, laid over the field order of the group, "
    "satisfy the conjuncts of is_eco_charge_mode / is_eco_discharge_mode (00:00-23:59, day bits 127, on_off = 255 - type read back as "
    "-1 - type, month bits in {0, 0x0fff}), the power field is -|p| masked to 16 bits for charge and +|p| for discharge, and the 745 "
    "scaling of encode_power / decode_power is an inverse pair inside is_in_range; (R5) export limit and DoD setters write the id the "
    "getter reads, DoD through the same involution 100 - x on both sides. Device state after the write sequence is not decided."
    " (R7) read_setting asks the inverter on every path that returns a value derived from the object's state (no remembered answers), so a getter after a setter sees the new value."
    " (R8) valid arguments are accepted: a setter path that ends without a write is infeasible for power 1..100, SoC 0..100, DoD 0..100, export limit >= 0; (R3 switch-offset) eco_mode_N_switch is the on_off byte of eco_mode_N; (R4) the recognisers' power bound admits the group encoded for 1 %."
    ' (R4 :soc) the soc field of the charge template is the SoC argument itself.'
    ' (R9, shared with C16.R1) the read behind the getters (ET._read_sensor, ES._read_setting) requests ceil(size_/2) registers at the setting and decodes the answer from its first byte.'
)


def opmode(ctx: Ctx) -> Dict[str, int]:
    ci = ctx.prog.cls("OperationMode")
    return {k: v.value for k, v in ctx.prog.enum_members(ci).items()}


def mode_of_path(ctx: Ctx, p: Path, param: str) -> Optional[Set[str]]:
    """Members of OperationMode selected by the tests of a path (operation_mode == OperationMode.X / in (...))."""
    modes = opmode(ctx)
    sel: Optional[Set[str]] = None
    for ev in p.events:
        if ev.kind != "test" or not isinstance(ev.node, ast.Compare) or norm(ev.node.left) != param:
            continue
        names = set(re.findall(r"OperationMode\.(\w+)", norm(ev.node.comparators[0])))
        if not names:
            continue
        positive = isinstance(ev.node.ops[0], (ast.Eq, ast.In)) == ev.data
        if positive:
            sel = names if sel is None else sel & names
        else:
            sel = (set(modes) - names) if sel is None else sel - names
    return sel


def check(ctx: Ctx, rep: Report):
    rep.rule("C19.R1", "mode constants: the value written for OperationMode.X is X (3 / ECO for the emulated modes); the getter maps it back", 12)
    rep.rule("C19.R2", "every mode offered by get_operation_modes(True) is handled by set_operation_mode without raising", 2)
    rep.rule("C19.R3", "eco group identity: eco_mode_1 on both sides, groups 2-4 switched off", 4)
    rep.rule("C19.R4", "eco templates satisfy the recogniser predicates field by field; 745 power scaling is an inverse pair", 12)
    rep.rule("C19.R5", "export limit and DoD: setter writes what the getter reads (same id, same involution)", 5)
    rep.rule("C19.R7", "getters read the inverter: read_setting issues a request on every path that returns a value (no remembered answers)", 3)
    rep.rule("C19.R6", "whatever the group held before: on every path (also when reading the old group fails) the schedule type is forced to an eco type before the group is encoded", 2)
    r1_et(ctx, rep)
    r1_es(ctx, rep)
    r2(ctx, rep)
    r3(ctx, rep)
    r4(ctx, rep)
    r5(ctx, rep)
    r6(ctx, rep)
    r6_forcing(ctx, rep)
    r7(ctx, rep)
    rep.rule("C19.R8", "valid arguments are accepted: a path of a setter that ends without writing (ValueError, silent return) is infeasible for arguments inside the documented domain", 5)
    r8(ctx, rep)
    rep.rule("C19.R9", "the getters' read-back asks for exactly the setting's registers and decodes the answer from its first byte (shared with C16.R1; ET and ES); ES reads and writes a setting through the protocol of its register (shared with C17.R6)", 4)
    from .c16 import single_read_form
    single_read_form(ctx, rep, "C19.R9", ("ET", "ES"))
    from .c17 import protocol_routing
    protocol_routing(ctx, rep, "C19.R9")


def r8(ctx: Ctx, rep: Report):
    """The round trip needs the write to happen for every valid argument: on each path of the setters that ends without
    a write the tests of the arguments must exclude the whole valid domain (power 1..100 %, SoC 0..100 %, DoD 0..100,
    export limit >= 0).  A guard that is one too strict (>= 100, <= 0, > 0) leaves a valid value on such a path."""
    from .c18 import _write_events, Wire
    from ..symx import Fact, joint_contradiction
    prog = ctx.prog
    wire = ctx.memo("wire", lambda: Wire(ctx))
    specs = []
    for fam in ("ET", "DT", "ES"):
        ci = prog.cls(fam)
        specs.append((ci.methods.get("set_grid_export_limit"), {"export_limit": (0, None)}, None))
        if fam != "DT":
            specs.append((ci.methods.get("set_ongrid_battery_dod"), {"dod": (0, 100)}, None))
            specs.append((ci.methods.get("set_operation_mode"), {"eco_mode_power": (1, 100), "eco_mode_soc": (0, 100)}, ("ECO_CHARGE", "ECO_DISCHARGE")))
    for fn, domain, modes in specs:
        if fn is None:
            raise AnalysisError("a setter named in the property is missing")
        dom = []
        for param, (lo, hi) in domain.items():
            if param not in fn.params:
                raise AnalysisError("%s has no parameter %s" % (fn.short, param))
            pv = Lin.of_term(("var", param))
            if lo is not None:
                dom.append(Fact("ge", pv - Lin.of_const(lo)))
            if hi is not None:
                dom.append(Fact("ge", Lin.of_const(hi) - pv))
        bad, n = None, 0
        for p in enumerate_paths(prog, fn, no_raise):
            if modes is not None:
                in_branch = any(ev.kind == "test" and isinstance(ev.node, ast.Compare) and isinstance(ev.node.ops[0], ast.In) and ev.data is True
                                and all(m in norm(ev.node) for m in modes) for ev in p.events)
                if not in_branch:
                    sel = mode_of_path(ctx, p, fn.params[1])          # (the same selection written as == ... or == ...)
                    in_branch = bool(sel) and sel <= set(modes)
                if not in_branch:
                    continue
            n += 1
            if _write_events(ctx, wire, fn, p):
                continue
            r = Replay(prog, fn, p)
            argfacts = [f for f in r.facts if f.lin is not None and any(t == ("var", prm) for t in f.lin.terms for prm in domain)]
            if joint_contradiction(dom, argfacts) is None and bad is None:
                # a test of the arguments that produced no linear fact (tuples compared, a helper predicate ...) is not
                # understood - that is no evidence of a rejected valid argument
                opaque_tests = [ev for ev in p.events if ev.kind == "test" and any(isinstance(x, ast.Name) and x.id in domain for x in ast.walk(ev.node))
                                and not isinstance(ev.node, ast.Compare)]
                opaque_tests += [ev for ev in p.events if ev.kind == "test" and isinstance(ev.node, ast.Compare)
                                 and any(isinstance(x, ast.Tuple) for x in [ev.node.left] + list(ev.node.comparators))
                                 and any(isinstance(x, ast.Name) and x.id in domain for x in ast.walk(ev.node))]
                if opaque_tests:
                    raise AnalysisError("%s: the argument test %s is not understood (no bound on %s can be read off it)" % (fn.short, norm(opaque_tests[0].node)[:80], "/".join(domain)))
                bad = p
        if n == 0:
            raise AnalysisError("%s: no path to judge" % fn.short)
        rep.check(bad is None, "C19.R8", "accepts:%s" % fn.short, fn.loc(),
                  "%s: every path without a write is excluded for %s" % (fn.short, ", ".join("%s in [%s, %s]" % (k, v[0], v[1] if v[1] is not None else "inf") for k, v in domain.items())),
                  bad="%s ends without writing anything on a path that valid arguments (%s) can take [path %s]: the value set is then not the value the getter returns" % (
                      fn.short, ", ".join("%s in [%s, %s]" % (k, v[0], v[1] if v[1] is not None else "inf") for k, v in domain.items()), bad.describe(8) if bad else ""))


def r7(ctx: Ctx, rep: Report):
    """A getter that follows a setter must see what the inverter holds now: read_setting (the base of every getter)
    asks the inverter on every path that returns a value - nothing is answered from a remembered response."""
    from .c18 import _request_events
    prog = ctx.prog
    for famname in ("ET", "DT", "ES"):
        fn = prog.cls(famname).methods.get("read_setting")
        if fn is None:
            raise AnalysisError("%s.read_setting not found" % famname)
        n = 0
        bad = None
        for p in enumerate_paths(prog, fn, no_raise):
            if p.end != "return":
                continue
            n += 1
            if _request_events(ctx, fn, p):
                continue
            # no request on this path: acceptable only when the value does not come from the object's state
            # (ES answers the fake 'time' setting with datetime.now())
            val = Replay(prog, fn, p).sym.lin(p.end_node.value) if p.end_node.value is not None else None
            if val is not None and "self" in repr(val) and bad is None:
                bad = p
        if n == 0:
            raise AnalysisError("%s.read_setting has no returning path" % famname)
        rep.check(bad is None, "C19.R7", "fresh-read:%s" % famname, fn.loc(), "%s.read_setting sends a request on each of its %d returning paths" % (famname, n),
                  bad="%s.read_setting can return a value without asking the inverter [path %s]: a getter called after a setter reports the value from before the change" % (
                      famname, bad.describe(8) if bad else ""))


def r6_forcing(ctx: Ctx, rep: Report):
    """What the forcing call does: Schedule.set_schedule_type(ScheduleType.ECO_MODE, is745) leaves an eco type on the
    group whatever type it held before (folded for every member of ScheduleType x is745)."""
    from ..constfold import fold_function, FoldRaises
    prog = ctx.prog
    sch, st = prog.cls("Schedule"), prog.cls("ScheduleType")
    m = sch.methods.get("set_schedule_type")
    if m is None or len(m.params) != 3:
        raise AnalysisError("Schedule.set_schedule_type(schedule_type, is745) not found")
    members = prog.enum_members(st)
    eco = {members[k] for k in ("ECO_MODE", "ECO_MODE_745") if k in members}
    bad = None
    n = 0
    for prior_name, prior in sorted(members.items()):
        for is745 in (False, True):
            class _Group:
                _fold_mutable = True
            g = _Group()
            g.schedule_type = prior
            try:
                fold_function(prog, m, args={m.params[0]: g, m.params[1]: members["ECO_MODE"], m.params[2]: is745})
            except FoldRaises as ex:
                if bad is None:
                    bad = (prior_name, is745, "raises (%s)" % ex)
                continue
            except NotConst as ex:
                raise AnalysisError("Schedule.set_schedule_type cannot be folded: %s" % ex)
            n += 1
            if g.schedule_type not in eco and bad is None:
                bad = (prior_name, is745, "leaves the type %s" % getattr(g.schedule_type, "name", g.schedule_type))
    rep.check(bad is None, "C19.R6", "forcing:Schedule.set_schedule_type", m.loc(),
              "set_schedule_type(ECO_MODE, is745) leaves ECO_MODE / ECO_MODE_745 on the group for every prior type (%d cases folded)" % n,
              bad="Schedule.set_schedule_type(ScheduleType.ECO_MODE, is745=%s) on a group of type %s %s: the eco group is then encoded with that type's on_off byte and power scaling and does not read back as the mode that was set" % (
                  bad[1] if bad else "", bad[0] if bad else "", bad[2] if bad else ""))


def r6(ctx: Ctx, rep: Report):
    """encode_charge / encode_discharge of a Schedule group use self.schedule_type, which the preceding read sets from
    whatever the inverter holds (Unset, peak shaving, ...) - or leaves half-updated when the read raises."""
    from ..effects import MayRaise
    prog, res = ctx.prog, ctx.res
    explicit = ctx.memo("explicit-raises", lambda: MayRaise(prog, res, lambda node, fn, r: []))
    for famname in ("ET", "ES"):
        s = prog.cls(famname).methods["set_operation_mode"]
        verdicts = {}
        for p in enumerate_paths(prog, s, explicit.oracle):
            sel = mode_of_path(ctx, p, s.params[1])
            if not sel or not (sel <= {"ECO_CHARGE", "ECO_DISCHARGE"}):
                continue
            for i, ev in enumerate(p.events):
                if ev.kind == "call" and (call_chain(ev.node) or ("",))[-1] in ("encode_charge", "encode_discharge"):
                    recv = (call_chain(ev.node) or ("",))[0]
                    forced = False
                    undone = None
                    for e2 in p.events[:i]:
                        if e2.kind == "call" and (call_chain(e2.node) or ("", ""))[-1] == "set_schedule_type" and (call_chain(e2.node) or ("",))[0] == recv \
                                and e2.node.args and norm(e2.node.args[0]) == "ScheduleType.ECO_MODE":
                            forced = True
                            undone = None
                        elif forced and e2.kind in ("await", "raise") and isinstance(e2.node, ast.Await):
                            # the group definition is shared and decodes in place: anything awaited between forcing and
                            # encoding (a getter reading eco_mode_1, another object's read) can put the old type back
                            forced = False
                            undone = e2.node
                    enc = (call_chain(ev.node) or ("",))[-1]
                    v = verdicts.setdefault(enc, {"ok": True, "path": None, "n": 0})
                    v["n"] += 1
                    if not forced and v["ok"]:
                        v.update(ok=False, path=p, undone=undone)
        if not verdicts:
            if not any(isinstance(x, ast.Attribute) and x.attr in ("encode_charge", "encode_discharge") for x in ast.walk(prog.cls(famname).methods["set_operation_mode"].node)):
                raise AnalysisError("%s.set_operation_mode: no path reaches encode_charge / encode_discharge" % famname)
            for enc in ("encode_charge", "encode_discharge"):
                rep.violation("C19.R6", "forced-type:%s:%s:unreachable" % (famname, enc), prog.cls(famname).methods["set_operation_mode"].loc(),
                              "%s.set_operation_mode: no feasible path reaches %s: the emulated mode cannot be set" % (famname, enc))
            continue
        for enc, v in sorted(verdicts.items()):
            failed_read = v["path"] is not None and any(ev.kind == "catch" for ev in v["path"].events)
            rep.check(v["ok"], "C19.R6", "force-type:%s:%s" % (famname, enc), s.loc(),
                      "%s: set_schedule_type(ScheduleType.ECO_MODE, ...) precedes %s on all %d paths" % (famname, enc, v["n"]),
                      bad="%s.set_operation_mode: %s is reached without set_schedule_type(ScheduleType.ECO_MODE, ...) %s: the group is encoded with whatever schedule type the old "
                          "group had (Unset 0x55, peak shaving, ...) and is rejected or mis-scaled [path %s]" % (
                              famname, enc, ("after the forcing call was followed by %s (%s): whatever is awaited there may decode the shared group again and put the old type back" % (
                                  norm(v["undone"])[:50], s.loc(v["undone"]))) if v.get("undone") is not None else
                              "when reading the old group failed" if failed_read else "on the normal path", v["path"].describe(8) if v["path"] else ""))


# ----------------------------------------------------------------------- R1
def _const_of(l):
    """Python value of a symbolic value that is a constant (int or literal), else NotConst."""
    if l is None:
        raise NotConst("no value")
    if l.is_const():
        return int(l.const) if l.const.denominator == 1 else l.const
    t = l.single_term()
    if t is not None and t[0] == "const":
        try:
            return ast.literal_eval(t[1])
        except (ValueError, SyntaxError):
            pass
    raise NotConst(repr(l))


def _writes(p: Path, rp: Optional[Replay] = None) -> List[Tuple[str, ast.expr, ast.Call]]:
    """write_setting(<id>, <value>) calls on the path: (id, value expression, call[, symbolic value]).  With a Replay the
    id and the value are resolved through locals, loop variables over literal tuples and the parameters of inlined helpers."""
    out = []
    for i, ev in enumerate(p.events):
        if ev.kind == "call" and (call_chain(ev.node) or ("",))[-1] == "write_setting" and len(ev.node.args) == 2:
            a0 = ev.node.args[0]
            if isinstance(a0, ast.Constant):
                sid = a0.value
            elif rp is not None:
                try:
                    if isinstance(a0, ast.JoinedStr):
                        # f'eco_mode_{group}_switch' with the loop variable bound on this path
                        sid = ""
                        for part in a0.values:
                            if isinstance(part, ast.Constant):
                                sid += str(part.value)
                            elif isinstance(part, ast.FormattedValue) and part.format_spec is None and part.conversion == -1:
                                sid += str(_const_of(rp.sym_at(i).lin(part.value)))
                            else:
                                raise NotConst("format spec")
                    else:
                        sid = _const_of(rp.sym_at(i).lin(a0))
                except NotConst:
                    continue
            else:
                continue
            if rp is not None:
                out.append((sid, ev.node.args[1], ev.node, rp.sym_at(i).lin(ev.node.args[1])))
            else:
                out.append((sid, ev.node.args[1], ev.node))
    return out


def r1_et(ctx: Ctx, rep: Report):
    prog = ctx.prog
    et = prog.cls("ET")
    fn = et.methods["set_operation_mode"]
    modes = opmode(ctx)
    seen: Dict[str, Tuple[bool, str]] = {}
    for p in enumerate_paths(prog, fn, no_raise):
        sel = mode_of_path(ctx, p, fn.params[1])
        if sel is None or p.end == "raise":
            continue
        rp = Replay(prog, fn, p)
        ws = [w for w in _writes(p, rp) if w[0] == "work_mode"]
        for m in sel:
            if not ws:
                if len(sel) == 1 or not any(_writes(p)):
                    seen.setdefault(m, (False, "no write of 'work_mode' in the branch")) if _writes(p) or len(sel) == 1 and m in _handled_names(fn, prog) else None
                continue
            try:
                v = _const_of(ws[-1][3])
            except NotConst:
                seen[m] = (False, "work_mode value %s is not a constant" % norm(ws[-1][1]))
                continue
            want = modes[m] if m not in ("ECO_CHARGE", "ECO_DISCHARGE") else modes["ECO"]
            ok = v == want
            if m not in seen or (seen[m][0] and not ok):
                seen[m] = (ok, "writes work_mode = %s, OperationMode.%s is %s" % (v, m, want))
    for m in _handled_names(fn, prog):
        ok, why = seen.get(m, (False, "no path writes 'work_mode' for it"))
        rep.check(ok, "C19.R1", "et-mode:%s" % m, fn.loc(), "ET.set_operation_mode(%s) %s" % (m, why),
                  bad="ET.set_operation_mode(OperationMode.%s): %s - get_operation_mode() would report another mode" % (m, why))
    # getter
    g = et.methods["get_operation_mode"]
    _getter(ctx, rep, g, "ET")


_HANDLED: Dict[int, List[str]] = {}


def _handled_names(fn: FuncInfo, prog=None) -> List[str]:
    """OperationMode members the setter compares its argument with - read off the tests of its paths, so that a
    table-driven dispatch (for mode, ... in _WORK_MODE_STEPS: if operation_mode == mode) counts like an if/elif chain."""
    if id(fn.node) in _HANDLED:
        return _HANDLED[id(fn.node)]
    out = []
    nodes = []
    if prog is not None:
        for p in enumerate_paths(prog, fn, no_raise):
            nodes.extend(ev.node for ev in p.events if ev.kind == "test")
    else:
        nodes = list(ast.walk(fn.node))
    for n in nodes:
        if isinstance(n, ast.Compare) and norm(n.left) == fn.params[1]:
            for nm in re.findall(r"OperationMode\.(\w+)", norm(n.comparators[0])):
                if nm not in out:
                    out.append(nm)
    if prog is not None:
        _HANDLED[id(fn.node)] = out
    return out


def _getter(ctx: Ctx, rep: Report, g: FuncInfo, fam: str):
    """Path rule: every returning path of get_operation_mode returns (a) OperationMode(<work_mode read>) when that is
    known not to be ECO, or, with the work mode known to be ECO, (b) ECO_CHARGE after eco_mode_1.is_eco_charge_mode()
    tested true, (c) ECO_DISCHARGE after charge tested false and discharge true, (d) ECO after both tested false;
    None only from the ValueError handler of the OperationMode(...) conversion."""
    from ..symx import contradicts, entails_eq, Fact
    prog = ctx.prog
    modes = opmode(ctx)
    verr = prog.ext_class("builtins.ValueError")

    def oracle(node, f):
        return [verr] if isinstance(node, ast.Call) and norm(node.func) == "OperationMode" else []

    def setting_read(sym, e, sid) -> bool:
        t = sym.lin(e).single_term()
        return t is not None and t[0] == "call" and t[1].endswith("read_setting") and len(t[2]) >= 1 and t[2][0] == ("const", repr(sid))

    why = None
    kinds: Set[str] = set()
    npaths = 0
    for p in enumerate_paths(prog, g, oracle):
        if p.end == "raise":
            continue
        npaths += 1
        rp = Replay(prog, g, p)
        if p.end != "return" or p.end_node.value is None:
            why = why or "a path returns nothing [%s]" % p.describe(6)
            continue
        val = rp.sym.lin(p.end_node.value)
        caught = any(ev.kind == "catch" for ev in p.events)
        if val.single_term() == ("const", "None"):
            if not caught:
                why = why or "returns None although the work mode was converted [%s]" % p.describe(6)
            kinds.add("none")
            continue
        # the converted work mode on this path
        conv = [(i, ev.node) for i, ev in enumerate(p.events) if ev.kind == "call" and norm(ev.node.func) == "OperationMode" and ev.node.args]
        if not conv or not setting_read(rp.sym_at(conv[0][0]), conv[0][1].args[0], "work_mode"):
            why = why or "the mode is not OperationMode(<value of read_setting('work_mode')>) [%s]" % p.describe(6)
            continue
        mode_l = rp.sym_at(conv[0][0] + 1).lin(conv[0][1])
        eco_l = Lin.of_const(modes["ECO"])
        is_eco = entails_eq(rp.facts, mode_l - eco_l)
        not_eco = contradicts(rp.facts, Fact("eq", mode_l - eco_l))
        tests = {}
        for i, ev in enumerate(p.events):
            if ev.kind == "test" and isinstance(ev.node, ast.Call) and isinstance(ev.node.func, ast.Attribute) \
                    and ev.node.func.attr in ("is_eco_charge_mode", "is_eco_discharge_mode"):
                if not setting_read(rp.sym_at(i), ev.node.func.value, "eco_mode_1"):
                    why = why or "%s is not asked of the eco_mode_1 setting [%s]" % (ev.node.func.attr, p.describe(6))
                tests.setdefault(ev.node.func.attr, (i, ev.data))
        ch, dis = tests.get("is_eco_charge_mode"), tests.get("is_eco_discharge_mode")
        if val == mode_l and not is_eco:
            if not not_eco:
                why = why or "returns the raw work mode without knowing that it is not ECO [%s]" % p.describe(6)
            if tests:
                pass
            kinds.add("plain")
            continue
        if not is_eco:
            why = why or "refines the mode although the work mode is not known to be ECO [%s]" % p.describe(6)
            continue
        v = val if val.is_const() else (eco_l if val == mode_l else None)
        if v is None:
            why = why or "returns %r [%s]" % (val, p.describe(6))
        elif v.const == modes["ECO_CHARGE"]:
            if not (ch and ch[1] is True):
                why = why or "returns ECO_CHARGE without is_eco_charge_mode() being true [%s]" % p.describe(6)
            kinds.add("charge")
        elif v.const == modes["ECO_DISCHARGE"]:
            if not (dis and dis[1] is True and ch and ch[1] is False and ch[0] < dis[0]):
                why = why or "returns ECO_DISCHARGE without charge tested false and then discharge true [%s]" % p.describe(6)
            kinds.add("discharge")
        elif v.const == modes["ECO"]:
            if not (dis and dis[1] is False and ch and ch[1] is False):
                why = why or "returns ECO without both recognisers tested false [%s]" % p.describe(6)
            kinds.add("eco")
        else:
            why = why or "returns the constant %s for work mode ECO [%s]" % (v.const, p.describe(6))
    if why is None and not {"plain", "charge", "discharge", "eco"} <= kinds:
        why = "paths for %s are missing" % sorted({"plain", "charge", "discharge", "eco"} - kinds)
    rep.check(why is None, "C19.R1", "%s-getter" % fam.lower(), g.loc(), "%s.get_operation_mode maps work_mode through OperationMode and refines ECO by eco_mode_1 (%d paths)" % (fam, npaths),
              bad="%s.get_operation_mode: %s" % (fam, why))


def r1_es(ctx: Ctx, rep: Report):
    prog, res = ctx.prog, ctx.res
    es = prog.cls("ES")
    fn = es.methods["set_operation_mode"]
    modes = opmode(ctx)
    swm = es.methods.get("_set_work_mode")
    if swm is None:
        raise AnalysisError("ES._set_work_mode not found")
    # _set_work_mode puts its argument on the wire
    ok_wire = any(isinstance(n, ast.JoinedStr) and "{mode:02x}" in norm(n).replace(" ", "") for n in ast.walk(swm.node)) or "mode:02x" in norm(swm.node)
    rep.check(ok_wire, "C19.R1", "es-set-work-mode", swm.loc(), "_set_work_mode sends its argument", bad="ES._set_work_mode no longer sends the mode it is given")

    def final_mode(f: FuncInfo, depth=0) -> Set[str]:
        out: Set[str] = set()
        for n in ast.walk(f.node):
            if isinstance(n, ast.Call) and call_chain(n) == ("self", "_set_work_mode") and n.args:
                out |= set(re.findall(r"OperationMode\.(\w+)", norm(n.args[0]))) or {"?" + norm(n.args[0])}
        return out

    offered: Set[str] = set()
    for _cond, _names in offered_modes(ctx, es.methods["get_operation_modes"]):
        offered |= set(_names)
    for p in enumerate_paths(prog, fn, no_raise):
        sel = mode_of_path(ctx, p, fn.params[1])
        if sel is None or p.end == "raise" or len(sel) > 2:
            continue
        helpers = [ev.node for ev in p.events if ev.kind == "call" and (call_chain(ev.node) or ("", ""))[0] == "self" and (call_chain(ev.node) or ("", ""))[-1].startswith("_set_")]
        if not helpers:
            # an offered mode whose path ends without any mode helper: work_mode keeps its old value
            for m in sorted(sel & offered):
                rep.violation("C19.R1", "es-mode:%s" % m, fn.loc(p.end_node) if p.end_node is not None else fn.loc(),
                              "ES.set_operation_mode(OperationMode.%s) ends without a _set_*_mode helper: work_mode is never written and get_operation_mode() "
                              "keeps answering the previous mode [path %s]" % (m, p.describe(8)))
            continue
        last = helpers[-1]
        callee = es.methods.get((call_chain(last) or ("",))[-1])
        got = final_mode(callee) if callee is not None else set()
        for m in sel:
            want = m if m not in ("ECO_CHARGE", "ECO_DISCHARGE") else "ECO"
            rep.check(got == {want}, "C19.R1", "es-mode:%s" % m, fn.loc(last), "ES.set_operation_mode(%s) ends in _set_work_mode(OperationMode.%s)" % (m, want),
                      bad="ES.set_operation_mode(OperationMode.%s) ends in _set_work_mode(%s), not OperationMode.%s" % (m, sorted(got), want))
    _getter(ctx, rep, es.methods["get_operation_mode"], "ES")


# ----------------------------------------------------------------------- R2
def offered_modes(ctx: Ctx, fn: FuncInfo) -> List[Tuple[str, Set[str]]]:
    """[(condition description, set of offered member names)] of get_operation_modes(include_emulated=True): each path
    is evaluated with the analyser's constant evaluator (the list is built from OperationMode, members are removed /
    filtered, the result is returned); tests of the inverter's own state are the path's condition."""
    from ..model import UNKNOWN, EnumVal
    prog = ctx.prog
    out = []
    mutators = {"remove": lambda c, a: c.remove(a), "append": lambda c, a: c.append(a), "discard": lambda c, a: c.discard(a),
                "add": lambda c, a: c.add(a), "extend": lambda c, a: c.extend(a), "update": lambda c, a: c.update(a)}
    for p in enumerate_paths(prog, fn, no_raise):
        env: Dict[str, object] = {fn.params[1]: True}
        conds = []
        feasible_path = True
        for ev in p.events:
            if ev.kind == "test":
                try:
                    v = bool(prog.consteval(ev.node, fn.module, env))
                except NotConst:
                    conds.append("%s=%s" % (norm(ev.node), ev.data))
                    continue
                if v != bool(ev.data):
                    feasible_path = False
                    break
            elif ev.kind == "call" and isinstance(ev.node.func, ast.Attribute) and isinstance(ev.node.func.value, ast.Name) \
                    and ev.node.func.attr in mutators and len(ev.node.args) == 1 and isinstance(env.get(ev.node.func.value.id), (list, set)):
                try:
                    mutators[ev.node.func.attr](env[ev.node.func.value.id], prog.consteval(ev.node.args[0], fn.module, env))
                except (NotConst, ValueError, KeyError, TypeError):
                    env[ev.node.func.value.id] = UNKNOWN
            elif ev.kind == "stmt" and isinstance(ev.node, (ast.Assign, ast.AnnAssign, ast.AugAssign)) and ev.node.value is not None:
                st = ev.node
                tgts = st.targets if isinstance(st, ast.Assign) else [st.target]
                val = st.value if not isinstance(st, ast.AugAssign) else ast.BinOp(left=ast.Name(id=getattr(st.target, "id", "?"), ctx=ast.Load()), op=st.op, right=st.value)
                try:
                    v = prog.consteval(val, fn.module, env)
                    if isinstance(v, (list, set)):
                        v = type(v)(v)
                except NotConst:
                    v = UNKNOWN
                for t in tgts:
                    if isinstance(t, ast.Name):
                        env[t.id] = v
        if not feasible_path or p.end != "return" or p.end_node.value is None:
            continue
        try:
            rv = prog.consteval(p.end_node.value, fn.module, env)
        except NotConst:
            continue
        if isinstance(rv, (list, tuple, set, frozenset)) and all(isinstance(x, EnumVal) and x.cls.name == "OperationMode" for x in rv):
            out.append((", ".join(conds) or "always", {x.name for x in rv}))
    return out


def _self_calls_closure(prog, ci, holder: FuncInfo, call: ast.Call, depth: int = 0):
    """(function holding the call, call) for *call* and, when it is self.<private helper>(...), for the self-calls in
    that helper's body, transitively (the mode helpers of ES: _set_general_mode -> _set_limit_power_for_charge(0, ...))."""
    out = [(holder, call)]
    c = call_chain(call)
    if c and len(c) == 2 and c[0] == "self" and c[1].startswith("_") and depth < 3:
        m = prog.find_method(ci, c[1])
        if m is not None:
            for n in ast.walk(m.node):
                if isinstance(n, ast.Call) and (call_chain(n) or ("",))[0] == "self" and len(call_chain(n)) == 2:
                    out += _self_calls_closure(prog, ci, m, n, depth + 1)
    return out


def _const_call_rejected(prog, ci, caller: FuncInfo, call: ast.Call):
    """self.<helper>(<constants>): None when not such a call; '' when the helper's leading argument guards
    (`if <test over the parameters>: raise ...`) let the constants through; else the reason."""
    c = call_chain(call)
    if not c or len(c) != 2 or c[0] != "self" or call.keywords or not call.args:
        return None
    m = prog.find_method(ci, c[1])
    if m is None or len(m.params) - 1 != len(call.args):
        return None
    env = {}
    for prm, a in zip(m.params[1:], call.args):
        try:
            env[prm] = prog.consteval(a, caller.module)
        except NotConst:
            return None
    for st in m.node.body:
        if isinstance(st, ast.Expr) and isinstance(st.value, ast.Constant):
            continue
        if not (isinstance(st, ast.If) and not st.orelse and len(st.body) == 1 and isinstance(st.body[0], ast.Raise)):
            break
        names = {n.id for n in ast.walk(st.test) if isinstance(n, ast.Name)}
        if not names <= set(env):
            break
        try:
            if prog.consteval(st.test, m.module, dict(env)):
                return "raises for these arguments (%s is true for %s)" % (norm(st.test), ", ".join("%s=%r" % (k, env[k]) for k in sorted(names)))
        except NotConst:
            break
    return ""


def r2(ctx: Ctx, rep: Report):
    prog = ctx.prog
    for famname in ("ET", "ES"):
        ci = prog.cls(famname)
        g, s = ci.methods["get_operation_modes"], ci.methods["set_operation_mode"]
        offers = offered_modes(ctx, g)
        if not offers:
            raise AnalysisError("%s.get_operation_modes: no offered set could be derived" % famname)
        # branches of the setter that write and do not raise
        handled: Set[str] = set()
        raising: Set[str] = set()
        const_seen: Set[int] = set()
        nconst = [0]
        for p in enumerate_paths(prog, s, no_raise):
            sel = mode_of_path(ctx, p, s.params[1])
            if sel is None:
                continue
            has_effect = any(ev.kind == "call" and (call_chain(ev.node) or ("", ""))[0] == "self" and ((call_chain(ev.node) or ("", ""))[-1].startswith("_set_") or (call_chain(ev.node) or ("", ""))[-1] == "write_setting")
                             for ev in p.events)
            # a ValueError that depends on the power / SoC arguments is the documented range rejection (C18), not "mode rejected"
            is_range_rejection = False
            if p.end == "raise" and prog.exc_name(p.end_data) == "ValueError":
                rpx = Replay(prog, s, p)
                argv = {("var", a) for a in s.params[2:]}
                is_range_rejection = any(f.lin is not None and (set(f.lin.terms) & argv) for f in rpx.facts) or \
                    any(ev.kind == "test" and any(isinstance(x, ast.Name) and x.id in s.params[2:] for x in ast.walk(ev.node)) for ev in p.events)
            if p.end == "raise" and not is_range_rejection:
                raising |= sel
            elif has_effect and len(sel) <= 2:
                handled |= sel
            # ... and the helpers it calls with constant arguments accept those constants (a guard `if limit <= 0: raise`
            # in front of `_set_limit_power_for_charge(0, 0, 0, 0, 0)` makes the whole mode fail)
            if p.end != "raise":
                for ev in p.events:
                    if ev.kind != "call":
                        continue
                    for holder, call in _self_calls_closure(prog, ci, s, ev.node):
                        if id(call) in const_seen:
                            continue
                        const_seen.add(id(call))
                        why = _const_call_rejected(prog, ci, holder, call)
                        if why:
                            raising |= sel
                            rep.violation("C19.R2", "const-call:%s:%s" % (famname, norm(call)[:60]), holder.loc(call),
                                          "%s.set_operation_mode(%s) reaches %s in %s, which %s: the mode cannot be set" % (famname, "/".join(sorted(sel)), norm(call)[:70], holder.short, why))
                        elif why is not None:
                            nconst[0] += 1
        rep.ok("C19.R2", "const-calls:%s" % famname, s.loc(), "%s.set_operation_mode: %d helper call(s) with constant arguments pass the helper's own argument guards" % (famname, nconst[0]))
        for cond, offered in offers:
            missing = sorted(m for m in offered if m not in handled or m in raising)
            rep.check(not missing, "C19.R2", "offered:%s:%s" % (famname, cond), g.loc(), "%s offers %s (%s): all handled by set_operation_mode" % (famname, sorted(offered), cond),
                      bad="%s.get_operation_modes(True) offers %s (%s) which set_operation_mode %s" % (famname, missing, cond, "rejects" if set(missing) & raising else "silently ignores (no branch writes anything)"))


# ----------------------------------------------------------------------- R3
def r3(ctx: Ctx, rep: Report):
    prog = ctx.prog
    for famname in ("ET", "ES"):
        ci = prog.cls(famname)
        s = ci.methods["set_operation_mode"]
        n = 0
        for p in enumerate_paths(prog, s, no_raise):
            sel = mode_of_path(ctx, p, s.params[1])
            if not sel or not (sel <= {"ECO_CHARGE", "ECO_DISCHARGE"}) or p.end == "raise":
                continue
            n += 1
            rp3 = Replay(prog, s, p)
            ws = _writes(p, rp3)
            ids = [w[0] for w in ws]
            eco_writes = [w for w in ws if w[0] == "eco_mode_1"]
            want_enc = "encode_charge" if sel == {"ECO_CHARGE"} else ("encode_discharge" if sel == {"ECO_DISCHARGE"} else None)
            ok_enc = len(eco_writes) == 1 and (want_enc is None or want_enc in norm(eco_writes[0][1]))
            offs = {w[0]: w[1] for w in ws if isinstance(w[0], str) and re.fullmatch(r"eco_mode_[234]_switch", w[0])}
            ok_off = set(offs) == {"eco_mode_2_switch", "eco_mode_3_switch", "eco_mode_4_switch"} and all(norm(v) == "0" for v in offs.values())
            ok_off = ok_off and all(w[3].is_const() and w[3].const == 0 for w in ws if w[0] in offs)
            # the group object used for encoding is the eco_mode_1 setting
            src_ok = any(ev.kind == "stmt" and isinstance(ev.node, (ast.Assign, ast.AnnAssign)) and "self._settings.get('eco_mode_1')" in norm(ev.node) for ev in p.events)
            args_ok = True
            if eco_writes and want_enc in ("encode_charge", "encode_discharge"):
                # the encoder is called with the caller's power (and SoC), whatever the names they travel under
                t = eco_writes[0][3].single_term()
                want_args = (("var", s.params[2]), ("var", s.params[3])) if want_enc == "encode_charge" else (("var", s.params[2]),)
                args_ok = t is not None and t[0] == "call" and t[1].endswith("." + want_enc) and tuple(t[2]) == want_args
                ok_enc = ok_enc or (len(eco_writes) == 1 and args_ok)
            rep.check(ok_enc and ok_off and src_ok and args_ok, "C19.R3", "eco-groups:%s:%s" % (famname, "+".join(sorted(sel))), s.loc(),
                      "%s %s: eco_mode_1 written with %s(power%s), groups 2-4 switched off" % (famname, sorted(sel), want_enc, ", soc" if want_enc == "encode_charge" else ""),
                      bad="%s.set_operation_mode(%s): %s" % (famname, sorted(sel), "eco_mode_1 is not written exactly once with %s of the requested power/SoC" % want_enc if not (ok_enc and args_ok) else (
                          "groups 2-4 are not all switched off (writes: %s)" % ids if not ok_off else "the encoder object is not the eco_mode_1 setting")))
        if n == 0:
            if not any(isinstance(x, ast.Attribute) and x.attr in ("ECO_CHARGE", "ECO_DISCHARGE") for x in ast.walk(s.node)):
                raise AnalysisError("%s.set_operation_mode does not mention the emulated eco modes" % famname)
            rep.violation("C19.R3", "eco-groups:%s:none" % famname, s.loc(),
                          "%s.set_operation_mode: no path selects ECO_CHARGE / ECO_DISCHARGE and completes (the branch is unreachable or always raises): the emulated modes offered by get_operation_modes(True) cannot be set" % famname)
    switch_offsets(ctx, rep)


def switch_offsets(ctx: Ctx, rep: Report):
    """'Switching group N off' writes the one-byte setting eco_mode_N_switch; the getter and the recognisers read the
    on_off field of the group eco_mode_N.  They are the same byte only if the switch is defined at the register (and
    half) in which the group's on_off field lies: group offset + byte index // 2, high byte for an even index."""
    from .c14 import tables_ctx
    tabs = tables_ctx(ctx)
    prog = ctx.prog
    npairs = 0
    for (fam, attr), rows in tabs.tables.items():
        by_id = {}
        for r in rows:
            by_id.setdefault(r.id_, []).append(r)
        for gid, grs in by_id.items():
            m = re.fullmatch(r"eco_mode_(\d)", gid)
            if not m or gid + "_switch" not in by_id:
                continue
            for g in grs:
                layout = next((GROUP_LAYOUT[c.name] for c in prog.mro(g.cls) if hasattr(c, "name") and c.name in GROUP_LAYOUT), None)
                if layout is None:
                    continue
                idx = next((int(spec.split("@")[1]) for name, spec in layout if name == "on_off"), None)
                if idx is None:
                    continue
                want_off, want_cls = g.offset + idx // 2, ("ByteH" if idx % 2 == 0 else "ByteL")
                for sw in by_id[gid + "_switch"]:
                    npairs += 1
                    ok = sw.offset == want_off and any(getattr(c, "name", "") == want_cls for c in prog.mro(sw.cls))
                    rep.check(ok, "C19.R3", "switch-offset:%s.%s:%s" % (fam, attr, gid), sw.where(),
                              "%s.%s: %s_switch is the on_off byte of %s (%s at %d)" % (fam, attr, gid, gid, want_cls, want_off),
                              bad="%s.%s: '%s_switch' is %s at register %d, but the on_off field of '%s' (%s at %d, byte %d) lies in %s of register %d: switching the group off writes another byte than the one the getter reads" % (
                                  fam, attr, gid, sw.cls.name, sw.offset, gid, g.cls.name, g.offset, idx, "the high byte" if idx % 2 == 0 else "the low byte", want_off))
    if npairs < 8:
        raise AnalysisError("only %d (eco group, switch) pairs found in the settings tables" % npairs)


# ----------------------------------------------------------------------- R4
def template_fields(call: ast.Call, fold=None) -> Optional[Tuple[str, List[ast.expr]]]:
    """bytes.fromhex("...".format(args)) or bytes.fromhex(f"...{x:04x}...")  ->  (template, args); placeholders whose
    argument is a constant (a literal piece of the group handed to a shared helper) are folded into the template."""
    r = _template_fields(call)
    if r is None or fold is None:
        return r
    tmpl, args = r
    out, rest, ai = "", [], 0
    for m in re.finditer(r"\{(:0(\d+)x)?\}|[^{}]+", tmpl):
        tok = m.group(0)
        if not tok.startswith("{"):
            out += tok
            continue
        if ai >= len(args):
            return r
        a = args[ai]
        ai += 1
        try:
            v = fold(a)
        except Exception:
            v = None
        if m.group(1) is None:
            if isinstance(v, str):
                out += v
            else:
                return r            # '{}' of something that is not a constant string: not understood
        elif isinstance(v, int) and not isinstance(v, bool) and v >= 0 and len("%x" % v) <= int(m.group(2)):
            out += ("%0" + m.group(2) + "x") % v
        else:
            out += tok
            rest.append(a)
    return out, rest


def _template_fields(call: ast.Call) -> Optional[Tuple[str, List[ast.expr]]]:
    if not (isinstance(call, ast.Call) and norm(call.func) == "bytes.fromhex" and call.args):
        return None
    a = call.args[0]
    if isinstance(a, ast.Constant):
        return a.value, []
    if isinstance(a, ast.Call) and isinstance(a.func, ast.Attribute) and a.func.attr == "format" and isinstance(a.func.value, ast.Constant):
        return a.func.value.value, list(a.args)
    if isinstance(a, ast.JoinedStr):
        tmpl, args = "", []
        for v in a.values:
            if isinstance(v, ast.Constant):
                tmpl += str(v.value)
            elif isinstance(v, ast.FormattedValue) and isinstance(v.format_spec, ast.JoinedStr) and len(v.format_spec.values) == 1 \
                    and isinstance(v.format_spec.values[0], ast.Constant) and v.conversion == -1:
                tmpl += "{:%s}" % v.format_spec.values[0].value
                args.append(v.value)
            else:
                return None
        return tmpl, args
    return None


def lay_out(template: str, args: List[ast.expr]) -> Optional[List[Tuple[int, int, object]]]:
    """[(byte offset, nbytes, literal int | ast expr)] of a hex template with {:0Nx} placeholders."""
    out = []
    pos = 0
    ai = 0
    for m in re.finditer(r"\{:0(\d+)x\}|([0-9a-fA-F]{2})", template):
        if m.group(1):
            nd = int(m.group(1))
            if nd % 2 or ai >= len(args):
                return None
            out.append((pos, nd // 2, args[ai]))
            ai += 1
            pos += nd // 2
        else:
            out.append((pos, 1, int(m.group(2), 16)))
            pos += 1
    rebuilt = re.sub(r"\{:0\d+x\}", "", template)
    if not re.fullmatch(r"([0-9a-fA-F]{2})*", rebuilt):
        return None
    return out


def _value_leaves(enc: FuncInfo, prog, e, depth: int = 0) -> List[ast.expr]:
    """The expressions *e* may evaluate to: branches of conditional expressions, and every returned expression of a
    no-argument helper method on self (if / return chains included; the conditions are ignored, which only enlarges
    the set of values the recogniser has to accept)."""
    from ..astutil import expand_locals
    if isinstance(e, ast.IfExp):
        return _value_leaves(enc, prog, e.body, depth) + _value_leaves(enc, prog, e.orelse, depth)
    if isinstance(e, ast.Call) and not e.args and not e.keywords and (call_chain(e) or ("",))[0] == "self" and len(call_chain(e) or ()) == 2 \
            and enc.cls is not None and depth < 3:
        m = prog.find_method(enc.cls, call_chain(e)[1])
        if m is not None:
            rets = [n for n in ast.walk(m.node) if isinstance(n, ast.Return) and n.value is not None]
            if rets:
                out: List[ast.expr] = []
                for r in rets:
                    out += _value_leaves(m, prog, expand_locals(r.value, m.node), depth + 1)
                return out
    return [e]


def field_value(layout, off: int, n: int):
    """Literal (unsigned) value of a field, or the placeholder expression covering exactly that field, or None."""
    lits = [x for x in layout if isinstance(x[2], int) and off <= x[0] < off + n]
    if len(lits) == n:
        v = 0
        for x in sorted(lits):
            v = v * 256 + x[2]
        return ("lit", v)
    ph = [x for x in layout if not isinstance(x[2], int) and x[0] == off and x[1] == n]
    if ph:
        return ("expr", ph[0][2])
    return None


def recogniser_conjuncts(fn: FuncInfo, ctx: Optional[Ctx] = None, depth: int = 0) -> List[ast.expr]:
    """Conjuncts of the single returned expression; a conjunct that calls another predicate method on self
    (a helper holding the shared conjuncts) is replaced by that method's conjuncts."""
    from ..astutil import expand_locals
    rets = [n for n in ast.walk(fn.node) if isinstance(n, ast.Return)]
    if len(rets) != 1:
        return []
    v = expand_locals(rets[0].value, fn.node)
    cjs = list(v.values) if isinstance(v, ast.BoolOp) and isinstance(v.op, ast.And) else [v]
    out: List[ast.expr] = []
    for cj in cjs:
        c = call_chain(cj) if isinstance(cj, ast.Call) else None
        if c and len(c) == 2 and c[0] == "self" and not cj.args and fn.cls is not None and ctx is not None and depth < 3:
            m = ctx.prog.find_method(fn.cls, c[1])
            if m is not None:
                inner = recogniser_conjuncts(m, ctx, depth + 1)
                if inner:
                    out.extend(inner)
                    continue
        if isinstance(cj, ast.Compare) and len(cj.ops) == 1 and isinstance(cj.ops[0], ast.In) and isinstance(cj.comparators[0], (ast.Tuple, ast.List, ast.Set)):
            cj = ast.BoolOp(op=ast.Or(), values=[ast.Compare(left=cj.left, ops=[ast.Eq()], comparators=[e]) for e in cj.comparators[0].elts])
            ast.fix_missing_locations(cj)
        out.append(cj)
    return out


def r4(ctx: Ctx, rep: Report):
    prog = ctx.prog
    for cname in ("EcoModeV1", "Schedule"):
        ci = prog.cls(cname)
        layout_ref = GROUP_LAYOUT[cname]
        fields = {}
        for attr, leaf in layout_ref:
            m = re.fullmatch(r"s(\d)@(\d+)", leaf)
            fields[attr] = (int(m.group(2)), int(m.group(1)))
        size = sum(n for _, n in fields.values())
        for kind in ("charge", "discharge"):
            enc = ci.methods.get("encode_" + kind)
            rec = ci.methods.get("is_eco_%s_mode" % kind)
            if enc is None or rec is None:
                raise AnalysisError("%s.encode_%s / is_eco_%s_mode missing" % (cname, kind, kind))
            from ..astutil import expand_locals
            rets = [n for n in ast.walk(enc.node) if isinstance(n, ast.Return)]
            _fold = lambda x_: prog.consteval(x_, enc.module)
            tf = template_fields(expand_locals(rets[0].value, enc.node), _fold) if len(rets) == 1 else None
            if tf is None and len(rets) == 1:
                # both encoders delegate to one private helper: its returned expression, arguments substituted
                from ..astutil import inline_pure_calls
                tf = template_fields(inline_pure_calls(ctx.res, enc, expand_locals(rets[0].value, enc.node), guards=True), _fold)
            key = "template:%s.encode_%s" % (cname, kind)
            if tf is None:
                rep.violation("C19.R4", key, enc.loc(), "%s.encode_%s is not bytes.fromhex(<template>.format(...))" % (cname, kind))
                continue
            lay = lay_out(tf[0], tf[1])
            if lay is None or sum(x[1] for x in lay) != size:
                rep.violation("C19.R4", key, enc.loc(), "%s.encode_%s: template %r does not describe the %d bytes of the group" % (cname, kind, tf[0], size))
                continue
            problems = []
            for cj in recogniser_conjuncts(rec, ctx):
                problems += _check_conjunct(prog, enc, cj, lay, fields, kind)
            rep.check(not problems, "C19.R4", key, enc.loc(), "%s.encode_%s satisfies every conjunct of is_eco_%s_mode" % (cname, kind, kind),
                      bad="%s.encode_%s produces a group that is_eco_%s_mode does not recognise: %s" % (cname, kind, kind, "; ".join(problems)))
            # the SoC the caller asked for is the SoC field of the group, unconditionally (0 is a valid request)
            if kind == "charge" and "soc" in fields:
                fv = field_value(lay, *fields["soc"])
                sp = enc.params[2] if len(enc.params) > 2 else None
                oks = fv is not None and fv[0] == "expr" and isinstance(fv[1], ast.Name) and fv[1].id == sp
                rep.check(oks, "C19.R4", key + ":soc", enc.loc(), "%s.encode_charge puts its SoC argument into the soc field" % cname,
                          bad="%s.encode_charge: the soc field of the group is %s, not the requested SoC %s: the group does not decode to the SoC that was set (0 is a valid request)" % (
                              cname, norm(fv[1]) if fv is not None and fv[0] == "expr" else (fv[1] if fv else "missing"), sp))
            # the fixed fields also pass read_value's own range checks (00:00 - 23:59)
            rng = []
            for attr, (lo, hi) in (("start_h", (0, 23)), ("start_m", (0, 59)), ("end_h", (0, 23)), ("end_m", (0, 59))):
                fv = field_value(lay, *fields[attr])
                if fv is None or fv[0] != "lit" or not (lo <= fv[1] <= hi):
                    rng.append("%s=%s" % (attr, fv))
            rep.check(not rng, "C19.R4", key + ":ranges", enc.loc(), "time fields of %s.encode_%s are valid" % (cname, kind),
                      bad="%s.encode_%s: time fields out of range: %s" % (cname, kind, rng))
            # ... and read_value's own guards (`if <test of one field>: raise`) let every field value of the template through:
            # the literals, power -100..-1 / 1..100 (EcoModeV1: unscaled), SoC 0..100
            rv = prog.find_method(ci, "read_value")
            refused, nguards = [], 0
            for st_ in (ast.walk(rv.node) if rv is not None else []):
                if not (isinstance(st_, ast.If) and len(st_.body) == 1 and isinstance(st_.body[0], ast.Raise) and not st_.orelse):
                    continue
                attrs = {x.attr for x in ast.walk(st_.test) if isinstance(x, ast.Attribute) and isinstance(x.value, ast.Name) and x.value.id == "self"}
                if len(attrs) != 1 or any(isinstance(x, ast.Call) for x in ast.walk(st_.test)):
                    continue
                attr = next(iter(attrs))
                if attr not in fields:
                    continue
                fv = field_value(lay, *fields[attr])
                if fv is not None and fv[0] == "lit":
                    vals = [_signed(fv[1], fields[attr][1])]
                elif attr == "power" and cname == "EcoModeV1":
                    vals = list(range(-100, 0)) if kind == "charge" else list(range(1, 101))
                elif attr == "soc" and kind == "charge":
                    vals = list(range(0, 101))
                else:
                    continue
                nguards += 1
                for v in vals:
                    class _Bag:
                        pass
                    b = _Bag()
                    setattr(b, attr, v)
                    try:
                        if prog.consteval(st_.test, rv.module, {"self": b}):
                            refused.append("%s = %d (%s)" % (attr, v, norm(st_.test)))
                            break
                    except NotConst:
                        nguards -= 1
                        break
            rep.check(not refused, "C19.R4", key + ":decoder-accepts", rv.loc() if rv is not None else enc.loc(),
                      "%s.read_value accepts every field value %s.encode_%s can produce (%d guards evaluated)" % (cname, cname, kind, nguards),
                      bad="%s.read_value refuses a group that encode_%s produces for a valid request: %s - the mode that was set cannot be read back" % (cname, kind, "; ".join(refused)))
    # 745 scaling
    st = prog.cls("ScheduleType")
    enc, decf, rng = st.methods.get("encode_power"), st.methods.get("decode_power"), st.methods.get("is_in_range")
    if None in (enc, decf, rng):
        raise AnalysisError("ScheduleType.encode_power / decode_power / is_in_range missing")

    # The three methods are pure functions of (enum member, int): they are constant-folded for every percentage the
    # setters can request (-100 .. 100) - encode, range check of the encoded value, decode.
    from ..constfold import fold_function, FoldRaises
    members = prog.enum_members(st)
    for member in ("ECO_MODE", "ECO_MODE_745"):
        if member not in members:
            raise AnalysisError("ScheduleType.%s missing" % member)
        bad_scale = bad_range = None
        factor_seen = set()
        try:
            for pct in range(-100, 101):
                e = fold_function(prog, enc, args={"self": members[member], "value": pct})
                if pct:
                    factor_seen.add(Fraction(e, pct) if isinstance(e, int) else None)
                if bad_range is None and fold_function(prog, rng, args={"self": members[member], "value": e}) is not True:
                    bad_range = (pct, e)
                d = fold_function(prog, decf, args={"self": members[member], "value": e})
                if bad_scale is None and d != pct:
                    bad_scale = (pct, e, d)
        except NotConst as ex:
            raise AnalysisError("ScheduleType power methods cannot be folded for %s: %s" % (member, ex))
        fe = sorted(factor_seen, key=lambda x: (x is None, x))[0] if factor_seen else None
        rep.check(bad_scale is None, "C19.R4", "power-scale:%s" % member, enc.loc(), "%s: decode_power(encode_power(p)) == p for every p in -100..100 (x%s)" % (member, fe),
                  bad="ScheduleType.%s: %s %% is encoded as %s and decoded as %s - the requested eco power does not read back" % ((member,) + (bad_scale or (0, 0, 0))))
        rep.check(bad_range is None, "C19.R4", "power-range:%s" % member, rng.loc(), "%s: is_in_range admits the encoding of every p in -100..100" % member,
                  bad="ScheduleType.%s: is_in_range refuses %s, the encoding of %s %%: the written group cannot be read back" % ((member,) + ((bad_range or (0, 0))[::-1])))
        # the type itself reads back: the templates write on_off = 255 - type (enabled) / type (encode_off); the decoder
        # reads the byte signed and hands it to detect_schedule_type, which must give the same member again - otherwise the
        # recogniser's on_off == -1 - schedule_type compares against another type (or the group is refused)
        det = st.methods.get("detect_schedule_type")
        if det is None:
            raise AnalysisError("ScheduleType.detect_schedule_type missing")
        tv = int(members[member])
        got = {}
        for what, byte in (("enabled", _signed(255 - tv, 1)), ("disabled", _signed(tv, 1))):
            try:
                static = any(norm(d) == "staticmethod" for d in det.node.decorator_list)
                got[what] = fold_function(prog, det, args=({det.params[0]: byte} if static else {det.params[0]: st, det.params[1]: byte}))
            except FoldRaises as ex:
                got[what] = "an error (%s)" % ex
            except NotConst as ex:
                raise AnalysisError("ScheduleType.detect_schedule_type cannot be folded for %s: %s" % (member, ex))
        wrong = {k: v for k, v in got.items() if v != members[member]}
        rep.check(not wrong, "C19.R4", "type-detect:%s" % member, det.loc(), "%s: detect_schedule_type gives the type back for the on_off byte of an enabled (%d) and a disabled (%d) group" % (
                      member, _signed(255 - tv, 1), tv),
                  bad="ScheduleType.detect_schedule_type: the on_off byte written for a %s group of type %s is read back as %s: the group set by set_operation_mode is not recognised by get_operation_mode" % (
                      "/".join(sorted(wrong)), member, ", ".join(str(v) for v in wrong.values())))


def _signed(v: int, nbytes: int) -> int:
    return v - (1 << (8 * nbytes)) if v >= 1 << (8 * nbytes - 1) else v


def _check_conjunct(prog, enc: FuncInfo, cj: ast.expr, lay, fields, kind: str) -> List[str]:
    txt = norm(cj)
    # (self.month_bits == 0 or self.month_bits == 4095)
    if isinstance(cj, ast.BoolOp) and isinstance(cj.op, ast.Or):
        attr = None
        allowed = set()
        for v in cj.values:
            if isinstance(v, ast.Compare) and isinstance(v.ops[0], ast.Eq) and isinstance(v.left, ast.Attribute):
                attr = v.left.attr
                try:
                    allowed.add(prog.consteval(v.comparators[0], enc.module))
                except NotConst:
                    return ["cannot evaluate %s" % txt]
        fv = field_value(lay, *fields[attr]) if attr in fields else None
        if fv is None:
            return ["field %s is not laid out as one unit" % attr]
        if fv[0] == "lit":
            return [] if _signed(fv[1], fields[attr][1]) in allowed else ["%s = %d not in %s" % (attr, fv[1], sorted(allowed))]
        vals = set()
        for b in _value_leaves(enc, prog, fv[1]):
            try:
                vals.add(prog.consteval(b, enc.module))
            except NotConst:
                return ["%s value %s is not constant" % (attr, norm(b))]
        return [] if vals <= allowed else ["%s may be %s, recogniser needs %s" % (attr, sorted(vals - allowed), sorted(allowed))]
    if not (isinstance(cj, ast.Compare) and len(cj.ops) == 1 and isinstance(cj.left, ast.Attribute) and norm(cj.left.value) == "self"):
        return ["conjunct %s not understood" % txt]
    attr = cj.left.attr
    if attr not in fields:
        return ["conjunct on unknown field %s" % attr]
    off, n = fields[attr]
    fv = field_value(lay, off, n)
    if fv is None:
        return ["field %s is not laid out as one unit in the template" % attr]
    op = cj.ops[0]
    rhs = cj.comparators[0]
    if fv[0] == "lit":
        val = _signed(fv[1], n)
        try:
            c = prog.consteval(rhs, enc.module)
        except NotConst:
            return ["%s: literal field but symbolic condition %s" % (attr, txt)]
        import operator as o
        f = {ast.Eq: o.eq, ast.NotEq: o.ne, ast.Lt: o.lt, ast.Gt: o.gt, ast.LtE: o.le, ast.GtE: o.ge}[type(op)]
        return [] if f(val, c) else ["%s is %d in the template, recogniser needs %s" % (attr, val, txt)]
    e = fv[1]
    if attr == "power":
        want_neg = isinstance(op, ast.Lt)
        src = norm(e)
        def cv(x):
            try:
                return prog.consteval(x, enc.module)
            except NotConst:
                return None

        def is_abs(x):
            return isinstance(x, ast.Call) and norm(x.func) == "abs"

        def neg_abs(x):     # -abs(p), -1 * abs(p), abs(p) * -1
            if isinstance(x, ast.UnaryOp) and isinstance(x.op, ast.USub):
                return is_abs(x.operand)
            if isinstance(x, ast.BinOp) and isinstance(x.op, ast.Mult):
                return (cv(x.left) == -1 and is_abs(x.right)) or (cv(x.right) == -1 and is_abs(x.left))
            return False
        is_neg = isinstance(e, ast.BinOp) and isinstance(e.op, ast.BitAnd) and \
            ((neg_abs(e.left) and cv(e.right) == 0xFFFF) or (neg_abs(e.right) and cv(e.left) == 0xFFFF))
        is_pos = is_abs(e) or (isinstance(e, ast.BinOp) and isinstance(e.op, ast.BitAnd) and
                               ((is_abs(e.left) and cv(e.right) == 0xFFFF) or (is_abs(e.right) and cv(e.left) == 0xFFFF)))      # |p| & 0xFFFF = |p| for |p| <= 1000
        if want_neg and not is_neg:
            return ["power field is %s, not -|p| masked to 16 bits (recogniser needs power < 0)" % src]
        if not want_neg and not is_pos:
            return ["power field is %s, not +|p| (recogniser needs power > 0)" % src]
        # the smallest magnitude the setter can encode is 1 % (power 1..100; ECO_MODE scaling is the identity): the
        # recogniser's bound must let it through
        c = cv(rhs)
        import operator as o
        f = {ast.Lt: o.lt, ast.Gt: o.gt, ast.LtE: o.le, ast.GtE: o.ge}.get(type(op))
        if f is None or not isinstance(c, int):
            return ["recogniser tests power with %s, not a comparison with a constant" % txt]
        edge = -1 if want_neg else 1
        if not f(edge, c):
            return ["the recogniser needs %s, which the group encoded for power = 1 %% (field value %d) does not satisfy" % (txt, edge)]
        return []
    if attr == "on_off":
        # template byte (unsigned) e, read back signed: e - 256 must equal the recogniser's right-hand side
        s = Sym.for_function(prog, enc)
        r = s.lin(rhs)
        if isinstance(op, ast.Eq):
            for leaf in _value_leaves(enc, prog, e):          # (the byte may come from a no-argument helper)
                lhs = s.lin(leaf) - Lin.of_const(256)
                if lhs != r:
                    return ["on_off byte %s reads back as %r, recogniser needs %r" % (norm(leaf), lhs, r)]
            return []
        return ["on_off conjunct %s not understood" % txt]
    return ["field %s is computed (%s); conjunct %s not checked" % (attr, norm(e), txt)]


# ----------------------------------------------------------------------- R5
def r5(ctx: Ctx, rep: Report):
    prog = ctx.prog

    def setting_io(fn: FuncInfo):
        reads = [n for n in ast.walk(fn.node) if isinstance(n, ast.Call) and (call_chain(n) or ("",))[-1] == "read_setting" and n.args and isinstance(n.args[0], ast.Constant)]
        writes = [n for n in ast.walk(fn.node) if isinstance(n, ast.Call) and (call_chain(n) or ("",))[-1] == "write_setting" and len(n.args) == 2 and isinstance(n.args[0], ast.Constant)]
        return reads, writes

    for famname in ("ET", "DT"):
        ci = prog.cls(famname)
        g, s = ci.methods["get_grid_export_limit"], ci.methods["set_grid_export_limit"]
        rg, _ = setting_io(g)
        _, ws = setting_io(s)
        ok = len(rg) == 1 and len(ws) == 1 and rg[0].args[0].value == ws[0].args[0].value and norm(ws[0].args[1]) == s.params[1] \
            and any(isinstance(n, ast.Return) and n.value is not None and rg[0] in list(ast.walk(n.value)) and norm(n.value).replace("await ", "") == norm(rg[0]) for n in ast.walk(g.node))
        rep.check(ok, "C19.R5", "export-limit:%s" % famname, s.loc(), "%s export limit: setter writes '%s' unchanged, getter returns it" % (famname, ws[0].args[0].value if ws else "?"),
                  bad="%s: set_grid_export_limit writes %s but get_grid_export_limit returns %s" % (famname, norm(ws[0]) if ws else "?", norm(rg[0]) if rg else "?"))
    et = prog.cls("ET")
    g, s = et.methods["get_ongrid_battery_dod"], et.methods["set_ongrid_battery_dod"]
    rg, _ = setting_io(g)
    _, ws = setting_io(s)
    ok = len(rg) == 1 and len(ws) == 1 and rg[0].args[0].value == ws[0].args[0].value
    if ok:
        sym = Sym.for_function(prog, s)
        from ..astutil import expand_locals
        wl = sym.lin(expand_locals(ws[0].args[1], s.node))
        ret = [n for n in ast.walk(g.node) if isinstance(n, ast.Return)][0]
        gs = Sym.for_function(prog, g)
        gl = gs.lin(expand_locals(ret.value, g.node))
        d = ("var", s.params[1])
        # setter: c - d ; getter: c - raw  with the same c
        ok = set(wl.terms) == {d} and wl.terms[d] == -1 and len(gl.terms) == 1 and list(gl.terms.values())[0] == -1 and gl.const == wl.const
    rep.check(ok, "C19.R5", "dod:ET", s.loc(), "ET DoD: setter writes 100 - d to the id the getter reads back as 100 - x",
              bad="ET: set_ongrid_battery_dod / get_ongrid_battery_dod are not the same involution on the same setting")
    es = prog.cls("ES")
    s = es.methods["set_ongrid_battery_dod"]
    cmd = [n for n in ast.walk(s.node) if isinstance(n, ast.Call) and isinstance(n.func, ast.Name) and n.func.id == "Aa55WriteCommand"]
    ok = len(cmd) == 1
    if ok:
        sym = Sym.for_function(prog, s)
        wl = sym.lin(cmd[0].args[1])
        d = ("var", s.params[1])
        ok = set(wl.terms) == {d} and wl.terms[d] == -1 and wl.const == 100
        # the getter's 'dod' setting: 100 - raw
        from .c14 import tables_ctx, decoders_ctx
        rows = [r for r in tables_ctx(ctx).table("ES", "__all_settings") if r.id_ == "dod"]
        if rows:
            from ..decoders import lin_of, default_case_of
            dc = default_case_of(decoders_ctx(ctx).row_cases(rows[0], "read"))
            l = lin_of(dc.value[1]) if dc is not None and dc.value[0] == "num" else None
            ok = ok and l is not None and l[1] == -1 and l[2] == 100
        else:
            ok = False
    rep.check(ok, "C19.R5", "dod:ES", s.loc(), "ES DoD: setter sends 100 - d, the 'dod' setting decodes 100 - x",
              bad="ES: set_ongrid_battery_dod does not send 100 - dod / the 'dod' setting does not decode 100 - raw")
    g = es.methods["get_ongrid_battery_dod"]
    okg = any(isinstance(n, ast.Call) and (call_chain(n) or ("",))[-1] == "read_setting" and n.args and isinstance(n.args[0], ast.Constant) and n.args[0].value == "dod" for n in ast.walk(g.node))
    rep.check(okg, "C19.R5", "dod-getter:ES", g.loc(), "ES.get_ongrid_battery_dod reads the 'dod' setting", bad="ES.get_ongrid_battery_dod no longer reads the 'dod' setting")
