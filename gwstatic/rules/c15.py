"""C15 - read_runtime_data() keys equal sensors() for every model and capability set."""
from __future__ import annotations

import ast
import itertools
from typing import Dict, List, Set, Tuple

from .. import AnalysisError
from ..core import Ctx, Report
from ..famstate import Family, Config, FamState
from ..model import norm
from .c14 import family_ctx, tables_ctx

PID = "C15"
LEVEL = "other"
EXPLANATION = (
    "Finite-state abstract interpretation of the methods themselves: the abstract state is the tuple of capability flags plus the "
    "content of every per-instance sensor table; read_device_info, read_runtime_data and sensors() are path-enumerated and replayed "
    "for every realisable model configuration, both values of the data-dependent battery flag and every assignment "
    "'answered / refused with ILLEGAL DATA ADDRESS' to the optional register blocks. (R1) on every path that returns, the ids mapped "
    "into the result equal the ids sensors() yields on the final flags; (R2) for every state and refusal pattern of optional blocks the "
    "first or the second call returns; (R3) ES: sensors() and read_runtime_data() use the same table. Nothing about the methods is "
    "frozen. That real firmware refuses what the oracle refuses is assumed."
    " (R4) if sensors() remembers its result, every method that changes an attribute it reads (other than the memo's key) drops the memo on every path."
    ' (R5, shared with C11.R2) _map_response stores an entry for every row on every path; (R6, shared with C08.R3) the fallback tests compare the rejection message with a reason text the validators produce.'
    ' (R0) a sensor table is a re-iterable container: a generator expression or a bare filter / map object stored in self._sensors* is consumed by the first decode, sensors() then lacks the block.'
)


def _ids(rows) -> Set[str]:
    return {r.id_ for r in rows}


def check(ctx: Ctx, rep: Report, thorough: bool = False):
    rep.rule("C15.R1", "keys of read_runtime_data() equal the ids of sensors() right after the call, on every returning path of every configuration", 12)
    rep.rule("C15.R2", "with any subset of optional blocks refused, read_runtime_data() returns no later than the second call", 12)
    rep.rule("C15.R3", "ES: sensors() and read_runtime_data() name the same table", 1)
    rep.rule("C15.R4", "sensors() answers from the current flags and tables: a result it remembers is dropped by every method that changes what it depends on", 2)
    rep.rule("C15.R5", "_map_response reports an entry for every row of the table it is given (also when a value cannot be decoded): the keys are the table's ids (shared with C11.R2)", 1)
    from .c11 import _isolating_loop
    mr = ctx.prog.find_method(ctx.prog.cls("Inverter"), "_map_response")
    ok5, why5 = _isolating_loop(ctx.prog, mr, "read", ("ValueError",), ctx.res)
    rep.check(ok5, "C15.R5", "map-response-total", mr.loc() if mr is not None else "goodwe/inverter.py",
              "_map_response stores a value or None for every row on every path of its loop",
              bad="Inverter._map_response: %s: a sensor listed by sensors() is then missing from the keys of read_runtime_data()" % why5)
    rep.rule("C15.R6", "the capability fallbacks recognise the refusal: every comparison of a rejection's message is against a reason text the validators produce (shared with C08.R3)", 4)
    from .c08 import message_comparisons
    message_comparisons(ctx, rep, "C15.R6")
    for famname in ("ET", "DT"):
        memo_coherence(ctx, rep, famname)
    total_states = total_paths = 0
    for famname in ("ET", "DT"):
        fam = family_ctx(ctx, famname)
        seen_states: Dict = {}
        for cfg in fam.configurations(thorough):
            for st0 in fam.initial_states():
                for oc in fam.replay("read_device_info", st0, cfg):
                    if oc.end == "raise":
                        continue
                    seen_states.setdefault((runtime_cfg_key(fam, cfg), project(fam, oc.state)), (cfg, oc.state))
        rep.analysed_add("space", "%s: %d (configuration, state after read_device_info) pairs" % (famname, len(seen_states)))
        optional = optional_commands(fam)
        rep.analysed_add("optional_blocks", "%s: %s" % (famname, sorted(optional)))
        # close the state set under read_runtime_data (successful or failed calls leave new states behind)
        work = list(seen_states.items())
        closed: Dict = {}
        while work:
            k, (cfg, st) = work.pop()
            if k in closed:
                continue
            closed[k] = (cfg, st)
            for oc in fam.replay("read_runtime_data", st, cfg):
                k2 = (runtime_cfg_key(fam, cfg), project(fam, oc.state))
                if k2 not in closed:
                    work.append((k2, (cfg, oc.state)))
        rep.analysed_add("space", "%s: %d states after closing under repeated read_runtime_data calls" % (famname, len(closed)))
        for (ck, sk), (cfg, st) in closed.items():
            total_states += 1
            # ---- R1: free exploration (every oracle choice)
            bad = None
            nret = 0
            for oc in fam.replay("read_runtime_data", st, cfg):
                total_paths += 1
                if oc.end != "return":
                    continue
                nret += 1
                keys = set()
                for m in oc.mapped:
                    keys |= _ids(m.rows)
                want = set()
                for attr, rows in fam.sensors_of(oc.state, cfg):
                    want |= _ids(rows)
                if keys != want and bad is None:
                    bad = (oc, sorted(keys - want)[:6], sorted(want - keys)[:6])
            key = "keys:%s:%s:%s" % (famname, _cfgkey(cfg), _statekey(st))
            if nret == 0:
                rep.violation("C15.R1", key, fam.ci.methods["read_runtime_data"].loc(), "%s %r: read_runtime_data() has no returning path at all" % (famname, cfg))
            elif bad is None:
                rep.ok("C15.R1", key, fam.ci.methods["read_runtime_data"].loc(), "%s %r: %d returning paths, keys == sensors()" % (famname, cfg, nret))
            else:
                oc, extra, missing = bad
                rep.violation("C15.R1", key, fam.ci.methods["read_runtime_data"].loc(),
                              "%s %r flags %s, oracle %s: result keys and sensors() differ - only in result: %s; only in sensors(): %s" % (
                                  famname, cfg, _flags(oc.state), oc.choices, extra, missing))
            # ---- R2: refusal patterns
            subsets = list(_subsets(sorted(optional)))
            worst = None
            for sub in subsets:
                refuse = {c: "illegal" for c in sub}
                ok = second_call_succeeds(fam, st, cfg, refuse)
                if not ok and worst is None:
                    worst = sub
            key2 = "second-call:%s:%s:%s" % (famname, _cfgkey(cfg), _statekey(st))
            rep.check(worst is None, "C15.R2", key2, fam.ci.methods["read_runtime_data"].loc(),
                      "%s %r: all %d refusal patterns return by the second call" % (famname, cfg, len(subsets)),
                      bad="%s %r flags %s: with blocks %s refused (ILLEGAL DATA ADDRESS) read_runtime_data() still fails on the second call" % (
                          famname, cfg, _flags(st), list(worst) if worst else []))
    rep.extra["states"] = total_states
    rep.extra["paths_replayed"] = total_paths
    rep.extra["exhaustive"] = True
    r3(ctx, rep)


_NAMES_CACHE: Dict = {}


def _names_used(fam: Family, methods) -> Set[str]:
    ck = (id(fam), tuple(methods))
    if ck in _NAMES_CACHE:
        return _NAMES_CACHE[ck]
    out: Set[str] = set()
    _NAMES_CACHE[ck] = out
    for mname in methods:
        m = fam.ci.methods.get(mname)
        if m is None:
            continue
        for n in ast.walk(m.node):
            if isinstance(n, ast.Attribute) and isinstance(n.value, ast.Name) and n.value.id == "self":
                out.add(n.attr)
            if isinstance(n, ast.Call) and isinstance(n.func, ast.Name):
                out.add(n.func.id)
    return out


def runtime_cfg_key(fam: Family, cfg: Config):
    """The part of the configuration read_runtime_data()/sensors() can observe (model predicates they call, rated power if they read it)."""
    used = _names_used(fam, ("read_runtime_data", "sensors"))
    return (tuple(sorted((k, v) for k, v in cfg.preds.items() if k in used)), cfg.rated_power if "rated_power" in used else None)


def project(fam: Family, st: FamState):
    """State restricted to the flags and tables read_runtime_data()/sensors() mention."""
    used = _names_used(fam, ("read_runtime_data", "sensors"))
    return (tuple(sorted((k, v) for k, v in st.flags.items() if k in used)),
            tuple(sorted((k, tuple(r.id_ for r in v)) for k, v in st.tables.items() if k in used)))


def optional_commands(fam: Family) -> Set[str]:
    """Commands whose refusal with ILLEGAL DATA ADDRESS is handled somewhere in read_runtime_data."""
    fn = fam.ci.methods["read_runtime_data"]
    out: Set[str] = set()
    rej = fam.prog.cls("RequestRejectedException")
    for t in [n for n in ast.walk(fn.node) if isinstance(n, ast.Try)]:
        handled = any(h.type is not None and any(fam.prog.is_subclass(rej, c) for c in fam.prog.resolve_exc_expr(fn.module, h.type)) for h in t.handlers)
        if not handled:
            continue
        for b in t.body:
            for n in ast.walk(b):
                if isinstance(n, ast.Call) and isinstance(n.func, ast.Attribute) and n.func.attr == "_read_from_socket":
                    out.add(fam._cmd_of(n, fn)[0])
    return out


def second_call_succeeds(fam: Family, st: FamState, cfg: Config, refuse: Dict[str, str]) -> bool:
    first = fam.replay("read_runtime_data", st, cfg, refuse)
    if not first:
        raise AnalysisError("%s: no feasible path of read_runtime_data under oracle %s" % (fam.ci.name, refuse))
    for oc in first:
        if oc.end == "return":
            continue
        second = fam.replay("read_runtime_data", oc.state, cfg, refuse)
        if not second or any(o2.end != "return" for o2 in second):
            return False
    return True


def _subsets(items: List[str]):
    for r in range(len(items) + 1):
        for c in itertools.combinations(items, r):
            yield c


def _cfgkey(cfg: Config) -> str:
    return ",".join("%s=%d" % (k.replace("is_", ""), v) for k, v in sorted(cfg.preds.items())) + ",p=%d" % cfg.rated_power


def _flags(st: FamState) -> str:
    return ",".join("%s=%d" % (k.replace("_has_", ""), bool(v)) for k, v in sorted(st.flags.items()))


def _statekey(st: FamState) -> str:
    return _flags(st) + ";" + ",".join("%s:%d" % (k, len(v)) for k, v in sorted(st.tables.items()))


def r3(ctx: Ctx, rep: Report):
    prog = ctx.prog
    es = prog.cls("ES")
    s, r = es.methods.get("sensors"), es.methods.get("read_runtime_data")
    if s is None or r is None:
        raise AnalysisError("ES.sensors / ES.read_runtime_data not found")
    rets = [n for n in ast.walk(s.node) if isinstance(n, ast.Return)]
    maps = [n for n in ast.walk(r.node) if isinstance(n, ast.Call) and isinstance(n.func, ast.Attribute) and n.func.attr == "_map_response"]
    ok = len(rets) == 1 and len(maps) == 1 and len(maps[0].args) == 2 and norm(rets[0].value) == norm(maps[0].args[1])
    ret_data = any(isinstance(n, ast.Return) and n.value is not None for n in ast.walk(r.node))
    rep.check(ok and ret_data, "C15.R3", "es-same-table", r.loc(), "ES.read_runtime_data maps %s, sensors() returns it" % (norm(rets[0].value) if rets else "?"),
              bad="ES.sensors() returns %s but read_runtime_data() maps %s" % (norm(rets[0].value) if rets else "?", norm(maps[0].args[1]) if maps else "?"))


def memo_coherence(ctx: Ctx, rep: Report, famname: str):
    """If sensors() stores attributes (a memo of its own result), then every method that writes one of the attributes
    sensors() reads must, on every path, reset a memo attribute to None after its last such write - otherwise sensors()
    keeps answering with a tuple computed from tables that have since been narrowed."""
    import ast
    from ..astutil import self_store
    from ..paths import enumerate_paths, no_raise
    from ..model import norm
    prog = ctx.prog
    ci = prog.cls(famname)
    fn = ci.methods.get("sensors")
    if fn is None:
        raise AnalysisError("%s.sensors not found" % famname)
    memo = sorted({a for n in ast.walk(fn.node) if isinstance(n, ast.stmt) for a, _, _ in self_store(n)})
    key = "memo:%s" % famname
    if not memo:
        rep.ok("C15.R4", key, fn.loc(), "%s.sensors() stores nothing: it is recomputed from the flags and tables on every call" % famname)
        return
    deps = {n.attr for n in ast.walk(fn.node) if isinstance(n, ast.Attribute) and isinstance(n.value, ast.Name) and n.value.id == "self"
            and isinstance(n.ctx, ast.Load)} - set(memo)
    # inputs that are part of the memo's key (compared with a memo attribute) invalidate it by themselves
    from ..astutil import expand_locals
    for n in ast.walk(fn.node):
        if isinstance(n, ast.Compare) and len(n.ops) == 1 and isinstance(n.ops[0], (ast.Eq, ast.NotEq)):
            sides = [expand_locals(n.left, fn.node), expand_locals(n.comparators[0], fn.node)]
            if any(isinstance(x, ast.Attribute) and isinstance(x.value, ast.Name) and x.value.id == "self" and x.attr in memo for x in sides):
                for side in sides:
                    deps -= {x.attr for x in ast.walk(side) if isinstance(x, ast.Attribute) and isinstance(x.value, ast.Name) and x.value.id == "self"}
    fam = family_ctx(ctx, famname)
    for m in ci.methods.values():
        if m.name == "__init__" or m is fn:
            continue
        if not any(a in deps for n in ast.walk(m.node) if isinstance(n, ast.stmt) for a, _, _ in self_store(n)):
            continue
        paths = fam.paths(m.name) if m.name in ("read_device_info", "read_runtime_data") else enumerate_paths(prog, m, no_raise)
        bad = None
        for p in paths:
            last_w = max((i for i, ev in enumerate(p.events) if ev.kind == "stmt" and any(a in deps for a, _, _ in self_store(ev.node))), default=-1)
            if last_w < 0:
                continue
            reset = any(ev.kind == "stmt" and any(a in memo and isinstance(v, ast.Constant) and v.value is None for a, v, _ in self_store(ev.node))
                        for ev in p.events[last_w + 1:])
            if not reset:
                bad = (p, p.events[last_w].node)
                break
        rep.check(bad is None, "C15.R4", "%s:%s" % (key, m.name), m.loc(), "%s.%s drops the remembered sensors() result (%s) after changing its inputs" % (famname, m.name, memo),
                  bad="%s.%s changes %s, which sensors() reads, and does not reset its memo %s: sensors() keeps listing the old set while read_runtime_data() reports the new one [path %s]" % (
                      famname, m.name, norm(bad[1])[:60] if bad else "", memo, bad[0].describe(6) if bad else ""))


def check_thorough(ctx: Ctx, rep: Report):
    rep.obligations = []
    check(ctx, rep, thorough=True)
