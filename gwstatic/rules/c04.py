"""C04 - every request terminates after at most retries+1 transmissions."""
from __future__ import annotations

import ast
from typing import List

from .. import AnalysisError
from ..astutil import call_chain, chain, self_store
from ..core import Ctx, Report
from ..model import NotConst, norm
from ..paths import enumerate_paths, no_raise
from ..symx import Sym, Lin, entails_ge
from ..replay import Replay
from .proto import connector, proto_classes, method, protocol_paths, tags, callback_is, feasible, loop_callbacks

PID = "C04"
LEVEL = "other"
EXPLANATION = (
    "Structural skeleton of termination, decided on every syntactic path of the UDP and TCP protocol classes: (R1) every "
    "transmission in _send_request is followed by arming call_later(self.timeout, self._timeout_mechanism); (R2) every path through "
    "a receive callback that cancels the timer ends with the future completed, the timer re-armed, the timeout scheduled with "
    "call_soon, or the future already done; (R3) the timeout callback and _close_transport complete a pending future on every path; "
    "(R4) each recursive send_request call is dominated by 'self._retry < self.retries' and exactly one 'self._retry += 1' with no "
    "other write in between (ranking function retries - _retry), the false outcome returns _max_retries_reached(), and each "
    "activation transmits at most once; (R5) create_connection is awaited only under asyncio.wait_for(..., timeout <= 5); (R6) the "
    "validators run by the receive callbacks are total (index and conversion safety, shared with C01.R4), so that no exception other "
    "than the two documented ones leaves a callback after it cancelled the timer. Timing and exact counts under fault scripts are not decided."
    ' (R7) a callback stores _retry = 0 only on paths on which it also completes the request (result / exception set, future found done or absent): a reset followed by a cancellation would re-enter the retry branch with a fresh budget.'
    ' A call that names a package class or function directly without its required arguments (call arity) is a TypeError source in the exception summaries the callback rules use.'
    " (R4 retry-store) the transmission counter is only ever assigned '= 0' or '+= 1' in the protocol classes."
    ' (R8) execute() calls send_request at most once per activation and never re-enters itself; _read_from_socket executes the command once.'
    ' (R9, shared with C05.R2) the retry counter is reset wherever a request ends, so the next request is neither failed early nor granted extra transmissions.'
    ' (R10, shared with C05.R1) timeout and retries keep their role through every constructor / factory call: retries + 1 transmissions and one timeout per transmission are the caller\'s numbers.'
    ' (R11, shared with C18.R5) send_request and its helpers transmit and retry the request they were given, never the one remembered on the protocol object; (R12, shared with C09.R9) no attribute of self.command / self.response_future is used on a path of send_request before _send_request bound them.'
)


def check(ctx: Ctx, rep: Report):
    rep.rule("C04.R1", "every transmission arms call_later(self.timeout, self._timeout_mechanism) before _send_request returns", 4)
    rep.rule("C04.R2", "every receive-callback path keeps the request able to finish (future completed / timer re-armed / timeout scheduled / already done)", 10)
    rep.rule("C04.R3", "the timeout callback and _close_transport complete a pending future on every path", 6)
    rep.rule("C04.R4", "retry recursion is bounded: guard _retry < retries, one increment, no other writes; exhausted budget returns _max_retries_reached(); one transmission per activation", 8)
    rep.rule("C04.R5", "TCP connect is awaited only under asyncio.wait_for with a constant timeout <= 5 s", 1)
    rep.rule("C04.R7", "the retry counter is reset from a callback only where the request has ended there (future completed or already done): a reset that precedes a cancellation hands the retry path a fresh budget", 2)
    rep.rule("C04.R6", "the validators the receive callbacks run are total (shared with C01.R4): any other exception leaves the callback after the timer was cancelled, with the future still pending", 12)
    for ci in proto_classes(ctx):
        r1(ctx, rep, ci)
        r2(ctx, rep, ci)
        r3(ctx, rep, ci)
        r4(ctx, rep, ci)
    r5(ctx, rep)
    retry_stores(ctx, rep)
    rep.rule("C04.R8", "the retries+1 bound of send_request is the bound of the request: execute() calls send_request at most once per activation and never re-enters itself; _read_from_socket executes the command once", 2)
    single_activation(ctx, rep)
    rep.rule("C04.R10", "the retries / timeout the caller configured are the ones the bound is counted against: they keep their role through every constructor and factory call (shared with C05.R1)", 10)
    from .c05 import r1 as _c05_r1
    from ..core import Report as _R10
    _s10 = _R10("C05", rep.tier)
    _c05_r1(ctx, _s10)
    for o in _s10.obligations:
        if o.rule == "C05.R1":
            rep.obligations.append(type(o)("C04.R10", o.key, o.where, o.what, o.status, o.detail))
    rep.rule("C04.R9", "every request starts with its whole budget of retries + 1 transmissions: the retry counter is reset wherever a request ends (shared with C05.R2)", 8)
    from .c05 import r2 as _c05_r2
    from ..core import Report as _R9
    _s9 = _R9("C05", rep.tier)
    _c05_r2(ctx, _s9)
    for o in _s9.obligations:
        if o.rule == "C05.R2":
            rep.obligations.append(type(o)("C04.R9", o.key, o.where, o.what, o.status, o.detail))
    rep.rule("C04.R11", "a retransmission is the same request: send_request hands its own parameter to _send_request and to the retry recursion (shared with C18.R5 / C06.R12)", 2)
    from .proto import retry_resends_own_command, inflight_fields_bound
    retry_resends_own_command(ctx, rep, "C04.R11")
    rep.rule("C04.R12", "a request that could not even be sent still ends as documented: no attribute of self.command / self.response_future is used before _send_request bound them on the path (shared with C09.R9)", 2)
    inflight_fields_bound(ctx, rep, "C04.R12")
    for ci in proto_classes(ctx):
        r7(ctx, rep, ci)
    # ---- R6 shared with C01
    from ..framing import families
    from .c01 import r4 as c01_r4
    sub = Report("C01", rep.tier)
    c01_r4(ctx, sub, ctx.memo("families", lambda: families(ctx.prog, ctx.res)))
    for o in sub.obligations:
        rep.obligations.append(type(o)("C04.R6", o.key, o.where, o.what, o.status, o.detail))


def single_activation(ctx, rep):
    """send_request transmits at most retries + 1 times (R4); a request is one send_request: no path of
    ProtocolCommand.execute (exception handlers included) calls it twice or calls execute again, and
    Inverter._read_from_socket awaits execute once.  (A second, separate budget - e.g. a 'busy' retry around execute -
    multiplies the bound.)"""
    prog = ctx.prog
    for cname, mname, callee in (("ProtocolCommand", "execute", "send_request"), ("Inverter", "_read_from_socket", "execute")):
        fn = prog.cls(cname).methods.get(mname)
        if fn is None:
            raise AnalysisError("%s.%s not found" % (cname, mname))
        worst, rec = None, None
        npaths = 0
        for p in protocol_paths(ctx, fn):
            npaths += 1
            calls = [ev.node for ev in p.events if ev.kind == "call" and isinstance(ev.node.func, ast.Attribute) and ev.node.func.attr == callee]
            again = [ev.node for ev in p.events if ev.kind == "call" and isinstance(ev.node.func, ast.Attribute) and ev.node.func.attr == mname
                     and (call_chain(ev.node) or ("",))[0] in ("self", "cls")]
            if len(calls) > 1 and worst is None:
                worst = p
            if again and rec is None:
                rec = p
        if npaths == 0:
            raise AnalysisError("%s.%s has no path" % (cname, mname))
        rep.check(worst is None and rec is None, "C04.R8", "single:%s.%s" % (cname, mname), fn.loc(),
                  "%s.%s calls %s at most once per activation and does not re-enter itself (%d paths)" % (cname, mname, callee, npaths),
                  bad="%s.%s %s: every such activation has its own budget of retries + 1 transmissions, so one request can transmit more often than that [path %s]" % (
                      cname, mname, "calls %s more than once on a path" % callee if worst is not None else "calls itself again", (worst or rec).describe(8) if (worst or rec) else ""))


def retry_stores(ctx, rep):
    """The per-request transmission counter only ever starts at 0 and grows by 1: every assignment of self._retry in
    the protocol classes is '= 0' or '+= 1'.  (A negative start value buys extra transmissions beyond retries + 1.)"""
    from ..astutil import self_store
    prog = ctx.prog
    seen = set()
    n = 0
    for ci in list.__iter__(proto_classes(ctx)):
        for c in prog.mro(ci):
            if not hasattr(c, "methods"):
                continue
            for m in c.methods.values():
                if m.qualname in seen:
                    continue
                seen.add(m.qualname)
                for st in [x for x in ast.walk(m.node) if isinstance(x, ast.stmt)]:
                    for a, v, kind in self_store(st):
                        if a != "_retry":
                            continue
                        n += 1
                        if kind == "aug":
                            ok = isinstance(st, ast.AugAssign) and isinstance(st.op, ast.Add) and _cv(prog, m, st.value) == 1
                        else:
                            ok = v is not None and (_cv(prog, m, v) == 0 or (isinstance(v, ast.BinOp) and isinstance(v.op, ast.Add) and {norm(v.left), norm(v.right)} & {"self._retry"}
                                                                              and 1 in (_cv(prog, m, v.left), _cv(prog, m, v.right))))
                        rep.check(ok, "C04.R4", "retry-store:%s:%s" % (m.short, norm(st)[:40]), m.loc(st), "%s: %s" % (m.short, norm(st)),
                                  bad="%s assigns the transmission counter with '%s' (only '= 0' and '+= 1' keep a request at retries + 1 transmissions)" % (m.short, norm(st)))
    if n < 4:
        raise AnalysisError("only %d assignments of self._retry found in the protocol classes" % n)


def _cv(prog, fn, e):
    try:
        return prog.consteval(e, fn.module)
    except Exception:
        return None


def r1(ctx, rep, ci):
    fn = method(ctx, ci, "_send_request")
    rep.analysed_add("functions", fn.qualname)
    paths = enumerate_paths(ctx.prog, fn, no_raise)
    nsend = 0
    for p in paths:
        sends = [i for i, ev in enumerate(p.events) if ev.kind == "call" and "send" in tags(ev)]
        if not sends:
            rep.violation("C04.R1", "no-send:%s:%s" % (fn.short, p.describe()), fn.loc(), "%s has a path that transmits nothing [path %s]" % (fn.short, p.describe()))
            continue
        nsend += 1
        last = sends[-1]
        armed = False
        why = "no call_later after the transmission"
        for j, ev in enumerate(p.events[last + 1:], last + 1):
            if ev.kind == "call" and "call_later" in tags(ev):
                delay = ev.node.args[0] if ev.node.args else None
                if delay is not None:
                    from ..astutil import expand_locals
                    delay = expand_locals(delay, p.fn_at(j, fn).node)        # delay = self.timeout; call_later(delay, ...)
                if not callback_is(ev.node, "_timeout_mechanism"):
                    why = "call_later does not schedule self._timeout_mechanism"
                elif delay is None or norm(delay) != "self.timeout":
                    why = "timer delay is %s, not the configured self.timeout" % (norm(delay) if delay is not None else "<missing>")
                else:
                    armed = True
        # the handle must be kept so that the callbacks can cancel it
        kept = any(ev.kind == "stmt" and "store:_timer" in tags(ev) and isinstance(getattr(ev.node, "value", None), ast.Call)
                   and "call_later" in (call_chain(ev.node.value) or ("",))[-1] for ev in p.events[last + 1:])
        rep.check(armed and kept, "C04.R1", "arm:%s:%s" % (fn.short, p.describe()), fn.loc(p.events[last].node),
                  "transmission is followed by self._timer = call_later(self.timeout, self._timeout_mechanism)",
                  bad="%s: %s [path %s]" % (fn.short, why if not armed else "the timer handle is not stored in self._timer", p.describe()))
    if nsend == 0:
        raise AnalysisError("%s never transmits" % fn.short)


def _progress_state(p):
    timer_cancelled = False
    progress = None
    for ev in p.events:
        t = tags(ev)
        if "timer_cancel" in t and ev.kind == "call":
            timer_cancelled = True
            progress = None if progress is None else progress
        if ev.kind == "call":
            if t & {"fut_set_result", "fut_set_exception", "fut_cancel"}:
                progress = "future completed"
            if "close_transport" in t:
                progress = "transport closed (pending future cancelled)"
            if "call_later" in t and callback_is(ev.node, "_timeout_mechanism"):
                progress = "timer re-armed"
            if "call_soon" in t and callback_is(ev.node, "_timeout_mechanism"):
                progress = "timeout scheduled"
        if ev.kind in ("catch", "raise") and "InvalidStateError" in ctx_exc_name(ev.data):
            progress = "future already done"
        if ev.kind == "test" and isinstance(ev.node, ast.Call) and "fut_done" in t and ev.data is True:
            progress = "future already done"
        if ev.kind == "test" and chain(ev.node) == ("self", "response_future") and ev.data is False:
            progress = "no request in flight"
    return timer_cancelled, progress


def ctx_exc_name(c) -> str:
    from ..model import Program
    return Program.exc_name(c)


def r2(ctx, rep, ci):
    cbs = [f for f in loop_callbacks(ctx, ci) if f.name in ("datagram_received", "data_received")]
    if not cbs:
        raise AnalysisError("%s has no receive callback" % ci.name)
    for cb in cbs:
        rep.analysed_add("functions", cb.qualname)
        n = 0
        for p in protocol_paths(ctx, cb):
            timer_cancelled, progress = _progress_state(p)
            if not timer_cancelled:
                continue  # the armed timer is untouched: the timeout will still fire
            n += 1
            ok = progress is not None
            rep.check(ok, "C04.R2", "progress:%s:%s" % (cb.short, p.describe()), cb.loc(),
                      "timer cancelled and %s" % progress,
                      bad="%s cancels the timeout and then leaves the request with a pending future and no timer: it would hang [path %s]" % (cb.short, p.describe()))
        if n == 0:
            raise AnalysisError("%s never cancels the timer" % cb.short)


def r3(ctx, rep, ci):
    for name in ("_timeout_mechanism", "_close_transport"):
        fn = method(ctx, ci, name)
        rep.analysed_add("functions", fn.qualname)
        for p in [q for q in enumerate_paths(ctx.prog, fn, no_raise) if feasible(q)]:
            done = None
            for ev in p.events:
                t = tags(ev)
                if ev.kind == "call" and ("fut_cancel" in t or (name != "_close_transport" and "close_transport" in t)):
                    done = "pending future cancelled"
                if ev.kind == "test" and isinstance(ev.node, ast.Call) and "fut_done" in t and ev.data is True and done is None:
                    done = "future already done"
                if ev.kind == "test" and chain(ev.node) == ("self", "response_future") and ev.data is False and done is None:
                    done = "no future"
            rep.check(done is not None, "C04.R3", "complete:%s.%s:%s" % (ci.name, name, p.describe()), fn.loc(),
                      "%s.%s: %s" % (ci.name, name, done),
                      bad="%s.%s can return leaving the response future pending (the waiter would never wake) [path %s]" % (ci.name, name, p.describe()))


def r4(ctx, rep, ci):
    prog = ctx.prog
    fn = method(ctx, ci, "send_request")
    rep.analysed_add("functions", fn.qualname)
    paths = protocol_paths(ctx, fn)
    sym = Sym.for_function(prog, fn)
    nrec = nmax = 0
    for p in paths:
        rec = [i for i, ev in enumerate(p.events) if ev.kind == "call" and "recursive" in tags(ev)]
        inner = [i for i, ev in enumerate(p.events) if ev.kind == "call" and "inner_send" in tags(ev)]
        rep_key = "%s:%s" % (fn.short, p.describe())
        if len(inner) > 1 or len(rec) > 1:
            rep.violation("C04.R4", "multi-send:" + rep_key, fn.loc(), "%s transmits %d times / recurses %d times in one activation [path %s]" % (fn.short, len(inner), len(rec), p.describe()))
            continue
        # budget tests on this path: comparisons of self._retry with self.retries
        guards = []
        retry_e = ast.parse("self._retry", mode="eval").body
        retries_e = ast.parse("self.retries", mode="eval").body
        rp = Replay(prog, fn, p)
        for i, ev in enumerate(p.events):
            if ev.kind == "test" and isinstance(ev.node, ast.Compare):
                names = {norm(x) for x in ast.walk(ev.node) if isinstance(x, ast.Attribute)}
                if {"self._retry", "self.retries"} <= names:
                    s_at = rp.sym_at(i)
                    want = s_at.lin(retries_e) - s_at.lin(retry_e) - Lin.of_const(1)
                    fs_true = s_at.facts_of(ev.node, True)
                    fs_false = s_at.facts_of(ev.node, False)
                    if entails_ge(fs_true, want):
                        guards.append((i, ev.data))
                    elif entails_ge(fs_false, want):
                        guards.append((i, not ev.data))
                    else:
                        rep.violation("C04.R4", "budget-test:%s:%s" % (fn.short, norm(ev.node)), fn.loc(ev.node),
                                      "%s: the budget test '%s' does not establish self._retry < self.retries (one transmission too many or too few)" % (fn.short, norm(ev.node)))
                        guards.append((i, ev.data))
        if rec:
            nrec += 1
            r = rec[0]
            g = [i for i, out in guards if i < r and out is True]
            ok, why = True, ""
            if not g:
                ok, why = False, "the recursive call is not dominated by 'self._retry < self.retries'"
            else:
                before, after = rp.sym_at(g[-1]), rp.sym_at(r)
                d_retry = after.lin(retry_e) - before.lin(retry_e)
                d_retries = after.lin(retries_e) - before.lin(retries_e)
                nwrites = sum(1 for ev in p.events[g[-1] + 1:r] if ev.kind == "stmt" and "store:_retry" in tags(ev))
                if not (d_retry.is_const() and d_retry.const == 1):
                    ok, why = False, "self._retry changes by %r (not +1) between the budget test and the retry" % d_retry
                elif nwrites != 1:
                    ok, why = False, "self._retry is written %d times between the budget test and the retry" % nwrites
                elif not (d_retries.is_const() and d_retries.const == 0):
                    ok, why = False, "self.retries is modified between the budget test and the retry"
            rep.check(ok, "C04.R4", "retry:" + rep_key, fn.loc(p.events[r].node), "retry guarded by the budget test and one increment",
                      bad="%s: %s [path %s]" % (fn.short, why, p.describe()))
        for i, out in guards:
            if out is False:
                nmax += 1
                failed_future = p.end == "return" and isinstance(p.end_node.value, ast.Call) and call_chain(p.end_node.value) == ("self", "_max_retries_reached")
                ok = (failed_future or p.end == "raise") \
                    and not any(ev.kind == "call" and (tags(ev) & {"recursive", "inner_send"}) for ev in p.events[i:])
                rep.check(ok, "C04.R4", "exhausted:" + rep_key, fn.loc(p.events[i].node), "exhausted budget ends the request (failed future or exception) without transmitting",
                          bad="%s: with the retry budget exhausted the path neither fails the request (return self._max_retries_reached() / raise) nor stops transmitting [path %s]" % (fn.short, p.describe()))
    if nrec == 0 or nmax == 0:
        raise AnalysisError("%s: no retry (%d) / no exhausted-budget path (%d) found" % (fn.short, nrec, nmax))
    # _max_retries_reached hands back a future that is already failed
    mx = method(ctx, ci, "_max_retries_reached")
    for p in enumerate_paths(prog, mx, no_raise):
        setexc = any(ev.kind == "call" and "fut_set_exception" in tags(ev) for ev in p.events)
        ret = p.end == "return" and p.end_node.value is not None and chain(p.end_node.value) == ("self", "response_future")
        rep.check(setexc and ret, "C04.R4", "max-retries-future:%s" % ci.name, mx.loc(), "_max_retries_reached returns an already failed future",
                  bad="_max_retries_reached does not return a future with an exception set: the caller would wait forever")


def r7(ctx, rep, ci):
    """Ranking argument of R4: between the transmissions of one request _retry only grows.  A callback that stores
    _retry = 0 must, on the same path, have ended the request (set_result / set_exception on the future, or found it
    done); otherwise the cancellation that follows (_close_transport / timeout) re-enters send_request's retry branch
    with the counter at 0 and the number of transmissions is no longer bounded by retries + 1."""
    n = 0
    for cb in loop_callbacks(ctx, ci):
        bad = None
        for p in protocol_paths(ctx, cb):
            resets = [i for i, ev in enumerate(p.events) if ev.kind == "stmt" and "store:_retry=0" in tags(ev)]
            if not resets:
                continue
            n += 1
            ended = any((ev.kind == "call" and (tags(ev) & {"fut_set_result", "fut_set_exception"}))
                        or (ev.kind == "test" and "fut_done" in tags(ev) and ev.data is True)
                        or (ev.kind == "test" and chain(ev.node) == ("self", "response_future") and ev.data is False)     # nothing pending
                        or (ev.kind == "raise" and isinstance(ev.node, ast.Call) and (call_chain(ev.node) or ("",))[-1] in ("set_result", "set_exception"))
                        for ev in p.events)
            if not ended and bad is None:
                bad = p
        if bad is not None or any(any(ev.kind == "stmt" and "store:_retry=0" in tags(ev) for ev in p.events) for p in protocol_paths(ctx, cb)):
            rep.check(bad is None, "C04.R7", "reset-ends-request:%s" % cb.short, cb.loc(), "%s resets _retry only where it also completes the request" % cb.short,
                      bad="%s resets self._retry on a path that leaves the request pending [path %s]: the cancellation that follows is retried with a fresh budget, so a peer that keeps answering this way is sent the request without bound" % (
                          cb.short, bad.describe(8) if bad else ""))
    if n == 0:
        raise AnalysisError("%s: no callback path resets _retry" % ci.name)


def r5(ctx, rep):
    prog, res = ctx.prog, ctx.res
    n = 0
    for ci in proto_classes(ctx):
        conn = connector(ctx, ci)
        creates = [x for x in ast.walk(conn.node) if isinstance(x, ast.Call) and (call_chain(x) or ("",))[-1] == "create_connection"]
        if not creates:
            continue

        def bounded(fn, node):
            """node (a call) is the first argument of an awaited asyncio.wait_for(..., timeout <= 5) in fn"""
            for w in ast.walk(fn.node):
                if isinstance(w, ast.Call) and (call_chain(w) or ("",))[-1] == "wait_for" and w.args and w.args[0] is node:
                    to = next((k.value for k in w.keywords if k.arg == "timeout"), w.args[1] if len(w.args) > 1 else None)
                    try:
                        v = prog.consteval(to, fn.module) if to is not None else None
                    except NotConst:
                        v = None
                    awaited = any(isinstance(a, ast.Await) and a.value is w for a in ast.walk(fn.node))
                    if v is None:
                        return False, "wait_for timeout is not a constant"
                    if not (0 < v <= 5):
                        return False, "wait_for timeout is %s s, more than the 5 s bound" % v
                    if not awaited:
                        return False, "wait_for(...) is not awaited"
                    return True, ""
            # async with asyncio.timeout(<constant <= 5>): await <node>
            from .proto import timeout_scope_of
            for w in ast.walk(fn.node):
                sc = timeout_scope_of(w)
                if sc is None:
                    continue
                aw = [a for b in w.body for a in ast.walk(b) if isinstance(a, ast.Await) and a.value is node]
                if not aw:
                    continue
                if (call_chain(sc) or ("",))[-1] != "timeout" or not sc.args:
                    return False, "the deadline of the enclosing timeout scope is not a constant delay"
                try:
                    v = prog.consteval(sc.args[0], fn.module)
                except NotConst:
                    v = None
                if not isinstance(v, (int, float)) or isinstance(v, bool):
                    return False, "asyncio.timeout delay is not a constant"
                if not (0 < v <= 5):
                    return False, "asyncio.timeout delay is %s s, more than the 5 s bound" % v
                return True, ""
            return False, "the call is not wrapped in asyncio.wait_for"

        # either the create_connection call itself, or every call of the function containing it, is bounded
        direct = [bounded(conn, c) for c in creates]
        if all(ok for ok, _ in direct):
            n += 1
            rep.ok("C04.R5", "connect-bound:%s" % conn.short, conn.loc(creates[0]), "TCP connect awaited under wait_for(timeout <= 5)")
            continue
        for ct in res.callers_of(conn):
            n += 1
            fn = ct.caller
            ok, why = bounded(fn, ct.node)
            rep.check(ok, "C04.R5", "connect-bound:%s" % fn.short, fn.loc(ct.node), "TCP connect awaited under wait_for(timeout <= 5)",
                      bad="%s: %s" % (fn.short, why))
    if n == 0:
        raise AnalysisError("no caller of the TCP _connect found")
