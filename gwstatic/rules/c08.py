"""C08 - Modbus exception answers surface at once as RequestRejectedException(reason)."""
from __future__ import annotations

import ast
from typing import List

from .. import AnalysisError
from ..astutil import call_chain, chain
from ..calls import arg_for
from ..core import Ctx, Report
from ..framing import families
from ..model import NotConst, ClassInfo, norm
from ..reference import MODBUS_EXCEPTION_CODES, UNKNOWN_REASON
from ..symx import Lin, domain_constraints, joint_contradiction
from .c01 import validator_paths, data_param, byte_t, vparam_term
from .proto import proto_classes, method, protocol_paths, tags, loop_callbacks, net_mayraise, callback_is

PID = "C08"
LEVEL = "other"
EXPLANATION = (
    "Static rules: (R1) the FAILURE_CODES table (dict literal with module constants resolved) equals the Modbus exception-code "
    "table and the lookup default is 'UNKNOWN'; on every path of the Modbus validators that raises RequestRejectedException the "
    "message is FAILURE_CODES.get(<byte after the function code>, 'UNKNOWN') and the path has established function code != cmd; "
    "(R2) in the receive callbacks the caught RequestRejectedException object itself is set on the pending future with no "
    "timeout scheduling or cancellation before it, the retry handlers of send_request catch only classes unrelated to "
    "RequestRejectedException, and execute / _read_from_socket let it escape unconverted (exception-escape summary); (R3) every "
    "comparison of a caught rejection's message in the inverter classes is against a value of FAILURE_CODES. Wire behaviour per "
    "code and timing are not decided."
    ' (R4, shared with C07.R1) no fragment of an earlier transmission survives into a retransmission, so an exception frame is validated on its own.'
    ' R1 also checks the converse: every validator path that established function code != cmd ends in the RequestRejectedException raise.'
    ' R1 evaluates the message expression of every rejection raise site for all 256 code bytes (any representation of the reason table).'
    ' (R5) for a well-formed exception answer (function code = cmd | 0x80, one code byte, RTU: correct CRC) to a read, write and write-multi command every validator outcome other than the rejection raise is refuted.'
    ' (R6) no loop callback schedules a method of the protocol object after completing the response future: the deferred call would act on the next request.'
    ' (R7, shared with C05.R2) the retry counter is reset wherever a request ends, a rejection included.'
    ' (R9, shared with C09.R11) no computed-key lookup in a fixed-key dictionary of the protocol object can raise KeyError between catching the rejection and completing the future.'
    ' (R8) on its way out of send_request the rejection does not reach an unguarded release of a lock that is not held (RuntimeError would replace it; lock typestate of C06.R2).'
)


def check(ctx: Ctx, rep: Report):
    rep.rule("C08.R1", "reason table equals the Modbus exception codes; rejection message = FAILURE_CODES.get(code byte, 'UNKNOWN') raised iff function code != cmd", 5)
    rep.rule("C08.R2", "rejection is delivered at once (caught object set on the future, nothing scheduled before), never retried, never converted", 7)
    rep.rule("C08.R3", "callers compare ex.message against a real reason of the table", 4)
    rep.rule("C08.R4", "no fragment of an earlier transmission survives into a retransmission (shared with C07.R1): the exception frame is validated on its own", 4)
    prog, res = ctx.prog, ctx.res
    fams = ctx.memo("families", lambda: families(prog, res))
    rejected = prog.cls("RequestRejectedException")
    # ---- R1 table
    mb = prog.modules["goodwe.modbus"]
    table = failure_table(ctx)
    if isinstance(table, dict):
        for code, text in MODBUS_EXCEPTION_CODES.items():
            rep.check(table.get(code) == text, "C08.R1", "code:%d" % code, mb.relpath, "code %d -> %s" % (code, text),
                      bad="FAILURE_CODES[%d] is %r, the Modbus reason is %r" % (code, table.get(code), text))
        extra = sorted(set(table) - set(MODBUS_EXCEPTION_CODES))
        rep.check(not extra, "C08.R1", "codes:extra", mb.relpath, "no codes beyond the standard table",
                  bad="FAILURE_CODES has non-standard codes %s" % extra)
    else:
        # another representation of the table: what counts is the reason each raise site produces per code byte (below)
        rep.ok("C08.R1", "codes:representation", mb.relpath, "FAILURE_CODES is a %s; the reasons are checked per raise site for all 256 code bytes" % type(table).__name__)
    # message flow at the raise sites
    nsites = 0
    nexh = [0]
    for fam in fams.values():
        if fam.kind == "aa55":
            continue
        data = data_param(fam)
        fc_t, code_t = byte_t(data, fam.fc), byte_t(data, fam.fc + 1)
        cmd_t = vparam_term(fam, "cmd")
        seen = set()
        for p, r in validator_paths(ctx, fam):
            if not (p.end == "raise" and p.end_data is rejected and isinstance(p.end_node, ast.Raise)):
                continue
            key = (id(p.end_node), tuple(sorted(repr(f) for f in r.facts)))
            if key in seen:
                continue
            seen.add(key)
            nsites += 1
            call = p.end_node.exc
            why = []
            msym = r.sym
            via = p.inlined_return(call) if isinstance(call, ast.Call) else None
            if via is not None:           # raise make_rejection(code): the exception is what the helper constructs
                msym, call = r.sym_at(via[0]), via[1]
            if not (isinstance(call, ast.Call) and len(call.args) == 1):
                why.append("RequestRejectedException is not built from exactly one message argument")
            else:
                msg = msym.lin(call.args[0]).single_term()
                want_default = ("const", repr(UNKNOWN_REASON))
                ok_msg = msg is not None and msg[0] == "call" and msg[1] == "FAILURE_CODES.get" and len(msg[2]) == 2 \
                    and msg[2][0] == code_t and msg[2][1] == want_default and isinstance(table, dict)
                if not ok_msg:
                    # any other spelling: the message expression is evaluated for each of the 256 values of the code byte
                    wrong = _reasons_differ(ctx, fam, p, p.end_node.exc, call, data)
                    if wrong is None:
                        why.append("message is %s, not FAILURE_CODES.get(%s[%d], 'UNKNOWN')" % (norm(call.args[0]), data, fam.fc + 1))
                    elif wrong:
                        why.append("for exception code %d the reason reported is %r, the Modbus reason is %r (message %s)" % (wrong[0] + (norm(call.args[0])[:50],)))
                    nexh[0] += 1
            _, excluded, equals = domain_constraints(r.facts, fc_t)
            ne_cmd = any(f.kind == "ne" and set(f.lin.terms) == {fc_t, cmd_t} for f in r.facts)
            if not ne_cmd:
                why.append("raised without having established function code != cmd")
            rep.check(not why, "C08.R1", "raise:%s:%s" % (fam.validator.short, "|".join(sorted(repr(f) for f in r.facts))[-100:]), fam.validator.loc(p.end_node),
                      "rejection carries the reason of the code byte and is raised for a foreign function code",
                      bad="%s: %s [path %s]" % (fam.validator.short, "; ".join(why), p.describe()))
    # ... and the converse: once a validator has found the function code different from the command's, every path ends
    # in that raise (no exception code is answered with "invalid frame", which would be retried or mis-reported)
    for fam in fams.values():
        if fam.kind == "aa55":
            continue
        data = data_param(fam)
        fc_t = byte_t(data, fam.fc)
        cmd_t = vparam_term(fam, "cmd")
        bad = None
        npaths = 0
        for p, r in validator_paths(ctx, fam):
            if not any(f.kind == "ne" and f.lin is not None and set(f.lin.terms) == {fc_t, cmd_t} for f in r.facts):
                continue
            if joint_contradiction(r.facts, r.facts) is not None:
                continue          # the path tests the same comparison both ways: infeasible
            npaths += 1
            if not (p.end == "raise" and p.end_data is rejected) and bad is None:
                bad = p
        rep.check(bad is None and npaths > 0, "C08.R1", "always-raised:%s" % fam.validator.short, fam.validator.loc(),
                  "%s raises RequestRejectedException on each of the %d paths that found a foreign function code" % (fam.validator.short, npaths),
                  bad="%s: a frame whose function code differs from the command's (a Modbus exception answer) can end in '%s' instead of RequestRejectedException(reason) [path %s]" % (
                      fam.validator.short, (bad.end if bad else "?"), bad.describe() if bad else ""))
    if nsites < 2:
        raise AnalysisError("expected rejection raise sites in both Modbus validators, found %d" % nsites)
    init = rejected.methods.get("__init__")
    ok = init is not None and any(isinstance(n, (ast.Assign, ast.AnnAssign)) and norm(n.targets[0] if isinstance(n, ast.Assign) else n.target) == "self.message"
                                  and isinstance(n.value, ast.Name) and n.value.id == init.params[1] for n in ast.walk(init.node))
    rep.check(ok, "C08.R1", "exception-field", rejected.module.relpath, "RequestRejectedException keeps its message",
              bad="RequestRejectedException.__init__ no longer stores the message it is given")
    r5_exception_frame(ctx, rep, fams, rejected)
    rep.rule("C08.R6", "the rejection is delivered with everything settled: no call on the protocol object is deferred (call_soon / call_later) after the future was completed - it would hit the caller's next request (retransmission, lost reason)", 6)
    from .proto import no_deferred_after_completion
    no_deferred_after_completion(ctx, rep, "C08.R6")
    rep.rule("C08.R7", "an exception answer to a retransmission is still delivered: the retry counter is reset wherever a request ends (also by a rejection), so the next request has its whole budget (shared with C05.R2)", 8)
    from .c05 import r2 as _c05_r2
    from ..core import Report as _R7
    _s7 = _R7("C05", rep.tier)
    _c05_r2(ctx, _s7)
    for o in _s7.obligations:
        if o.rule == "C05.R2":
            rep.obligations.append(type(o)("C08.R7", o.key, o.where, o.what, o.status, o.detail))
    r8_not_replaced(ctx, rep, rejected)
    rep.rule("C08.R9", "nothing that can raise stands between catching the rejection and delivering it: no computed-key lookup in a fixed-key dictionary of the protocol object (an 'UNKNOWN' reason is not in FAILURE_CODES.values()) - shared with C09.R11", 2)
    from .proto import dict_lookups_total
    dict_lookups_total(ctx, rep, "C08.R9")
    r2(ctx, rep, rejected)
    r3(ctx, rep, rejected, table)
    # ---- R4 shared with C07: an exception frame answering a retransmission must not be glued to a fragment of the
    # timed-out attempt (it would be validated as part of a regular answer and the rejection lost)
    from .c07 import r1 as c07_r1
    sub = Report("C07", rep.tier)
    for ci in proto_classes(ctx):
        c07_r1(ctx, sub, ci)
    for o in sub.obligations:
        rep.obligations.append(type(o)("C08.R4", o.key, o.where, o.what, o.status, o.detail))


def r8_not_replaced(ctx, rep, rejected):
    """The rejection travels from the future through send_request (and its retry recursion) to the caller.  On the way
    out it passes the lock hand-back; asyncio.Lock.release() on a lock that is not held raises RuntimeError, which
    would replace the RequestRejectedException.  Lock typestate of C06.R2, read for the paths that carry a rejection."""
    rep.rule("C08.R8", "the rejection is not replaced on its way out of send_request: after RequestRejectedException is raised no unguarded release of a lock the activation does not hold is reached (RuntimeError would replace it)", 2)
    from .c06 import lock_typestate
    from .proto import proto_classes, method
    from ..effects import MaySuspend
    from ..core import Report as _R
    scratch = _R("C06", rep.tier)
    ms = ctx.memo("maysuspend", lambda: MaySuspend(ctx.prog, ctx.res))
    for ci in proto_classes(ctx):
        sr = method(ctx, ci, "send_request")
        rep.analysed_add("functions", sr.qualname)
        ctx._cache.pop("lock-unheld-release", None)
        lock_typestate(ctx, scratch, ci, sr, ms)
        bad = None
        for (fn, p, i) in ctx._cache.get("lock-unheld-release", {}).values():
            carried = [ev for ev in p.events[:i] if ev.kind == "raise" and ev.data is not None and ctx.prog.is_subclass(ev.data, rejected)]
            if carried and bad is None:
                bad = (fn, p, i)
        rep.check(bad is None, "C08.R8", "not-replaced:%s" % ci.name, sr.loc(), "%s.send_request hands the rejection on unchanged" % ci.name,
                  bad=bad and "%s: the RequestRejectedException raised on this path reaches an unguarded release of a lock this activation no longer holds (%s): "
                              "RuntimeError('Lock is not acquired') replaces the rejection [path %s]" % (sr.short, bad[0].loc(bad[1].events[bad[2]].node), bad[1].describe(10)))


def r5_exception_frame(ctx, rep, fams, rejected):
    """A well-formed Modbus exception answer (function code = command | 0x80, one exception-code byte, RTU: correct CRC) to
    a read, a write and a write-multi command: every outcome of the validator other than the RequestRejectedException raise
    is refuted (path facts against the frame's facts).  The validators' branches on the *command* (not only on the
    function code byte of the answer) are covered this way - R1's converse needs the comparison to have been reached."""
    from ..symx import Fact, joint_contradiction
    from ..reference import MODBUS_READ, MODBUS_WRITE, MODBUS_WRITE_MULTI
    rep.rule("C08.R5", "a well-formed exception answer (function code = cmd | 0x80) to a read / write / write-multi command can only end in the RequestRejectedException raise", 6)
    for fam in fams.values():
        if fam.kind == "aa55":
            continue
        data = data_param(fam)
        dv = ("var", data)
        ln = Lin.of_term(("len", dv))
        total = fam.fc + 2 + fam.tail          # ... function code, exception code[, crc lo, crc hi]
        fcb = Lin.of_term(byte_t(data, fam.fc))
        cmd = Lin.of_term(vparam_term(fam, "cmd"))
        for c, what in ((MODBUS_READ, "read"), (MODBUS_WRITE, "write"), (MODBUS_WRITE_MULTI, "write-multi")):
            A = [Fact("eq", ln - Lin.of_const(total)), Fact("eq", cmd - Lin.of_const(c)), Fact("eq", fcb - Lin.of_const(c | 0x80)),
                 Fact("ne", fcb - cmd)]
            if fam.has_checksum:
                for lo in (ln - Lin.of_const(2), Lin.of_const(total - 2)):
                    crc = ("call", "_modbus_checksum", (("slice", dv, Lin.of_const(fam.fc - 1), lo),))
                    A.append(Fact("eq", Lin.of_term(crc) - Lin.of_term(("int", ("slice", dv, lo, lo + Lin.of_const(2)), "little", False))))
            bad = None
            reached = 0
            for p, r in validator_paths(ctx, fam):
                if joint_contradiction(A, r.facts) is not None:
                    continue
                if p.end == "raise" and p.end_data is rejected:
                    reached += 1
                elif bad is None:
                    bad = (p, r)
            rep.check(bad is None and reached > 0, "C08.R5", "exception-frame:%s:%s" % (fam.validator.short, what), fam.validator.loc(bad[0].end_node) if bad else fam.validator.loc(),
                      "%s: a %d-byte exception answer to a %s command can only end in RequestRejectedException (%d path(s))" % (fam.validator.short, total, what, reached),
                      bad="%s: a well-formed exception answer (function code 0x%02x, %d bytes) to a %s command %s: the reason is lost (the frame is ignored, retried or reported without its reason) [path %s]" % (
                          fam.validator.short, c | 0x80, total, what,
                          "can end in '%s' instead of RequestRejectedException(reason)" % (bad[0].end if bad[0].end != "raise" else "raise " + ctx.prog.exc_name(bad[0].end_data)) if bad else "reaches the rejection on no path",
                          bad[0].describe(8) if bad else ""))


def r2(ctx, rep, rejected):
    prog, res = ctx.prog, ctx.res
    for ci in proto_classes(ctx):
        cbs = [f for f in loop_callbacks(ctx, ci) if f.name in ("datagram_received", "data_received")]
        for cb in cbs:
            n = 0
            verdict = {"ok": True, "why": "", "path": None}
            from ..replay import Replay
            from ..symx import Lin
            for p in protocol_paths(ctx, cb):
                idx = [i for i, ev in enumerate(p.events) if ev.kind == "catch" and ev.data is rejected]
                if not idx:
                    continue
                n += 1
                i = idx[0]
                exname = p.events[i].node.name
                caught = Lin.of_term(("exc", prog.exc_name(rejected), exname)) if exname else None
                rp = Replay(prog, cb, p)
                delivered = False
                why = ""
                for k in range(i + 1, len(p.events)):
                    ev = p.events[k]
                    t = tags(ev)
                    if ev.kind == "call" and "fut_set_exception" in t:
                        # the object set on the future is the caught exception, under whatever name it reached this call
                        if ev.node.args and caught is not None and rp.sym_at(k).lin(ev.node.args[0]) == caught:
                            delivered = True
                        else:
                            why = "a different exception (%s) is set on the future" % norm(ev.node.args[0] if ev.node.args else ev.node)
                        break
                    if ev.kind == "call" and (("call_later" in t or "call_soon" in t) or "fut_cancel" in t or "close_transport" in t):
                        why = "%s happens before the rejection is delivered (retry / delay)" % norm(ev.node)[:60]
                        break
                    if ev.kind == "test" and "fut_done" in t and ev.data is True:
                        delivered = True   # nothing pending any more
                        break
                    if ev.kind == "raise" and isinstance(ev.node, ast.Call) and (call_chain(ev.node) or ("",))[-1] == "set_exception" \
                            and "InvalidStateError" in prog.exc_name(ev.data):
                        delivered = True   # the future was already completed (C09's business, not a delayed rejection)
                        break
                    if ev.kind == "test" and chain(ev.node) == ("self", "response_future") and ev.data is False:
                        delivered = True
                        break
                if not delivered and verdict["ok"]:
                    verdict = {"ok": False, "why": why or "the caught rejection is never set on the response future", "path": p}
            if n == 0:
                raise AnalysisError("%s has no RequestRejectedException handler path" % cb.short)
            rep.check(verdict["ok"], "C08.R2", "deliver:%s" % cb.short, cb.loc(), "%s sets the caught rejection on the pending future at once (%d paths)" % (cb.short, n),
                      bad="%s: %s [path %s]" % (cb.short, verdict["why"], verdict["path"].describe(8) if verdict["path"] else ""))
        # the retry handlers do not catch it
        sr = method(ctx, ci, "send_request")
        for h in [x for x in ast.walk(sr.node) if isinstance(x, ast.ExceptHandler)]:
            leads_to_retry = any(isinstance(x, ast.Call) and call_chain(x) in (("self", "send_request"), ("self", "_max_retries_reached")) for x in ast.walk(h))
            if not leads_to_retry:
                continue
            classes = prog.resolve_exc_expr(sr.module, h.type) if h.type is not None else ["<bare>"]
            related = [c for c in classes if c == "<bare>" or prog.is_subclass(rejected, c) or prog.is_subclass(c, rejected)]
            rep.check(not related, "C08.R2", "no-retry:%s:%s" % (sr.short, norm(h.type) if h.type is not None else "bare"), sr.loc(h),
                      "retry handler (%s) does not catch RequestRejectedException" % (norm(h.type) if h.type is not None else "bare"),
                      bad="%s retries on %s, which catches RequestRejectedException: a refused request would be retransmitted" % (sr.short, norm(h.type) if h.type is not None else "a bare except"))
    # not converted on the way up
    mr = net_mayraise(ctx)
    for name in ("ProtocolCommand.execute", "Inverter._read_from_socket"):
        fn = prog.func(name)
        rep.check(rejected in mr.classes(fn), "C08.R2", "passes:%s" % name, fn.loc(), "%s lets RequestRejectedException through" % name,
                  bad="%s no longer lets RequestRejectedException through (converted or swallowed)" % name)


def _reasons_differ(ctx, fam, p, raised: ast.expr, ctor: ast.Call, data: str):
    """The message expression of a rejection, as a function of the code byte alone, evaluated for 0..255 and compared
    with the Modbus reasons: [] when all agree, [(code, got, want)] for the first difference, None when the expression
    is not a closed function of that byte (then the symbolic shape decides)."""
    from ..astutil import expand_locals, subst
    prog = ctx.prog
    v = fam.validator
    e = ctor.args[0]
    via = p.inlined_return(raised) if isinstance(raised, ast.Call) else None
    if via is not None:
        g = next((ev.data for ev in p.events if ev.kind == "enter" and ev.node is raised), None)
        if g is None:
            return None
        e = expand_locals(e, g.node)
        env = {}
        for pn in g.params:
            a = arg_for(raised, g, pn)
            if a is not None:
                env[pn] = a
        e = subst(e, env)
        mod = g.module
    else:
        mod = v.module
    e = expand_locals(e, v.node)
    idx = fam.fc + 1

    class Put(ast.NodeTransformer):
        def __init__(self, c):
            self.c = c

        def visit_Subscript(self, n):
            if isinstance(n.value, ast.Name) and n.value.id == data and not isinstance(n.slice, ast.Slice):
                try:
                    if prog.consteval(n.slice, v.module) == idx:
                        return ast.copy_location(ast.Constant(value=self.c), n)
                except NotConst:
                    pass
            return self.generic_visit(n)
    import copy
    for c in range(256):
        ec = ast.fix_missing_locations(Put(c).visit(copy.deepcopy(e)))
        try:
            got = prog.consteval(ec, mod)
        except NotConst:
            return None
        want = MODBUS_EXCEPTION_CODES.get(c, UNKNOWN_REASON)
        if got != want:
            return [(c, got, want)]
    return []


def failure_table(ctx):
    prog = ctx.prog
    mb = prog.modules["goodwe.modbus"]
    b = prog.lookup(mb, "FAILURE_CODES")
    if not b or b[0] != "const":
        raise AnalysisError("modbus.FAILURE_CODES not found")
    try:
        return prog.consteval(ast.Name(id="FAILURE_CODES", ctx=ast.Load()), mb)
    except NotConst as e:
        raise AnalysisError("FAILURE_CODES is not a constant table: %s" % e)


def message_comparisons(ctx, rep, rule: str):
    """C08.R3 for the properties that rest on the capability fallbacks (C15: refused blocks disappear; C18: a refused
    setting is forgotten, so a later write of it is an 'unknown id')."""
    r3(ctx, rep, ctx.prog.cls("RequestRejectedException"), failure_table(ctx), rule)


def r3(ctx, rep, rejected, table, rule: str = "C08.R3"):
    prog = ctx.prog
    inv = prog.cls("Inverter")
    n = 0
    for ci in prog.all_subclasses(inv):
        for m in ci.methods.values():
            for h in [x for x in ast.walk(m.node) if isinstance(x, ast.ExceptHandler) and x.name and x.type is not None]:
                classes = prog.resolve_exc_expr(m.module, h.type)
                if not any(c is rejected for c in classes):
                    continue
                # comparisons of the message in the handler itself, or in a helper the handler hands the exception to
                found = [(m, h.name, x) for b in h.body for x in ast.walk(b) if isinstance(x, ast.Compare)]
                for call in [x for b in h.body for x in ast.walk(b) if isinstance(x, ast.Call)]:
                    if not any(isinstance(a, ast.Name) and a.id == h.name for a in call.args):
                        continue
                    for g in ctx.res.resolve_call(call, m).funcs:
                        for pn in g.params:
                            a = arg_for(call, g, pn)
                            if isinstance(a, ast.Name) and a.id == h.name:
                                found += [(g, pn, x) for x in ast.walk(g.node) if isinstance(x, ast.Compare)]
                used = False
                for f, var, cmp_ in found:
                    sides = [cmp_.left] + list(cmp_.comparators)
                    if not any(norm(s_) == "%s.message" % var for s_ in sides):
                        continue
                    other = [s_ for s_ in sides if norm(s_) != "%s.message" % var]
                    used = True
                    try:
                        v = prog.consteval(other[0], f.module)
                    except NotConst:
                        v = None
                    rep.check(v in (table.values() if isinstance(table, dict) else table), rule, "cmp:%s:%s" % (m.short, norm(cmp_)), f.loc(cmp_),
                              "%s compares the rejection message with the table value %r" % (m.short, v),
                              bad="%s compares ex.message with %s (%r), which is not a reason the validators can produce" % (f.short, norm(other[0]), v))
                if used:
                    n += 1
    if n < 4:
        raise AnalysisError("only %d handlers deciding on a rejection message found (9 on the pinned tree; shared helpers may merge some)" % n)
