"""C12 - each sensor value is the documented reading of exactly its own registers."""
from __future__ import annotations

import ast
import re
from typing import Dict, List, Tuple

from .. import AnalysisError
from ..astutil import call_chain, chain
from ..core import Ctx, Report
from ..decoders import Decoders, canon_cases, consumed_ranges, _leaf_str
from ..framing import families
from ..model import ClassInfo, norm
from ..reference import DECODER_REFERENCE, GROUP_LAYOUT
from ..tables import Tables, Row, Opaque
from .c14 import tables_ctx, decoders_ctx

PID = "C12"
LEVEL = "other"
EXPLANATION = (
    "Decoder summaries are extracted by abstract interpretation of every read_* helper and Sensor.read / read_value override "
    "(bytes consumed, byte order, signedness, sentinel values and what they map to, divisor, rounding) and compared with the frozen "
    "documented interpretation of each sensor type (R1); every one of the 494 table rows is evaluated on the bulk path and must read "
    "only bytes starting at its own register - or, for two-word bitmaps, its two own registers (R2); the address -> position map of "
    "each framing is 2 x (address - first address) for Modbus and the plain byte offset for AA55, shared with C02.R3 (R3); the byte "
    "count a type's docstring announces equals what its decoder consumes (R4). Numeric equality on all register contents is a value "
    "level question and is not decided."
    ' (R0) trim_response must cut by constants (a bound computed from unchecked response bytes is a violation); (R2 sensor-read) path rule: nothing touches the buffer between seek(self.offset) and read_value; (R3 cursor) only ProtocolResponse.seek / read move the payload cursor.'
    ' (R5, shared with C20.R1) no code assigns an attribute of a shared sensor definition from outside.'
    ' (R6, shared with C16.R1) the single reads (_read_sensor / _read_setting) request ceil(size_/2) registers at the sensor and decode from the first byte of the answer.'
    ' (R7, shared with C13.R2) decode_bitmap visits bit positions 0..31 in order: every bit of a bitmap sensor\'s own registers shows in its value.'
    ' (R8, shared with C14.R1) every sensor\'s registers lie inside the block its bulk request fetched, in every capability state.'
)

GROUP_BASES = ("EcoModeV1", "Schedule")


def row_summary(dec: Decoders, row: Row) -> Tuple[str, List[str]]:
    return canon_cases(dec.row_cases(row, "read_value"))


def sensor_read_rule(ctx: Ctx, rep: Report, rule: str):
    """Sensor.read = seek(self.offset) + read_value, on every path (shared with C13: raw and derived values of one
    result are decoded from the same positions of the same buffer)."""
    prog = ctx.prog
    sensor = prog.cls("Sensor")
    # Sensor.read = seek(self.offset) + read_value
    rd = sensor.methods.get("read")
    from ..astutil import returned_values as _rv
    ok, why_rd = rd is not None, "Sensor.read not found"
    if ok:
        # on every path: the value is self.read_value(data), and the last thing done to the buffer before that call is
        # data.seek(self.offset) - nothing is consumed from it in between, whatever the path tested on the way
        from ..paths import enumerate_paths, no_raise
        dp = rd.params[1]
        npaths = 0
        for p in enumerate_paths(prog, rd, no_raise):
            if p.end != "return":
                continue
            npaths += 1
            rv = p.end_node.value
            if isinstance(rv, ast.Name):
                from ..astutil import single_assignments
                rv = single_assignments(rd.node).get(rv.id, rv)
            if not (isinstance(rv, ast.Call) and call_chain(rv) == ("self", "read_value") and len(rv.args) == 1 and norm(rv.args[0]) == dp):
                ok, why_rd = False, "a path returns %s, not self.read_value(%s) [path %s]" % (norm(rv) if rv is not None else "nothing", dp, p.describe(6))
                break
            k = next((i for i, ev in enumerate(p.events) if ev.kind == "call" and ev.node is rv), len(p.events))
            touched = [ev.node for ev in p.events[:k] if ev.kind == "call" and (call_chain(ev.node) or ("",))[0] == dp and len(call_chain(ev.node) or ()) == 2]
            last = touched[-1] if touched else None
            if last is None or call_chain(last) != (dp, "seek") or len(last.args) != 1 or chain(last.args[0]) != ("self", "offset"):
                ok, why_rd = False, "before read_value() the buffer is left by %s, not positioned by %s.seek(self.offset) [path %s]" % (norm(last) if last is not None else "nothing", dp, p.describe(6))
                break
        if ok and npaths == 0:
            ok, why_rd = False, "no returning path"
    rep.check(ok, rule, "sensor-read", rd.loc() if rd else sensor.module.relpath, "Sensor.read seeks to self.offset and decodes with read_value",
              bad="Sensor.read is no longer 'seek(self.offset); return self.read_value(data)': %s" % (why_rd if not ok else ""))


def check(ctx: Ctx, rep: Report):
    rep.rule("C12.R1", "decoder summary of every sensor type equals the documented interpretation (bytes, big-endian, signedness, sentinels, scale)", 30)
    rep.rule("C12.R2", "every table row reads only bytes at its own register(s) on the bulk path", 480)
    rep.rule("C12.R3", "address -> position map: 2 x (address - first) for Modbus, identity for AA55; seek/trim go through the command", 5)
    rep.rule("C12.R5", "the interpretation of a table row is fixed: no code assigns an attribute (scale, offset, size_ ...) of a sensor definition from outside, and the definition classes do not store to themselves when reading (shared with C20.R1)", 1)
    from .c20 import check as _c20_check
    _sub = Report("C20", rep.tier)
    _c20_check(ctx, _sub)
    _n5 = 0
    for o in _sub.obligations:
        if o.rule == "C20.R1" and o.key.startswith("external-store:") and o.status != "OK":
            _n5 += 1
            rep.obligations.append(type(o)("C12.R5", o.key, o.where, o.what, o.status, o.detail))
    rep.ok("C12.R5", "row-attributes:scan", "goodwe/", "no assignment to an attribute of a shared sensor definition from the inverter classes (%d found)" % _n5)
    rep.rule("C12.R6", "a sensor / setting read on its own is decoded from the first byte of an answer to a read of exactly its registers (shared with C16.R1)", 3)
    from .c16 import single_read_form
    single_read_form(ctx, rep, "C12.R6")
    rep.rule("C12.R7", "the bitmap sensors list the labels of all 32 bits of their own registers: decode_bitmap visits bit positions 0..31 in order (shared with C13.R2)", 1)
    from .c13 import r2_bitmap_fn
    _sub7 = Report("C13", rep.tier)
    r2_bitmap_fn(ctx, _sub7)
    for o in _sub7.obligations:
        rep.obligations.append(type(o)("C12.R7", o.key, o.where, o.what, o.status, o.detail))
    rep.rule("C12.R8", "the bytes a sensor decodes were fetched: its registers lie inside the block its bulk request asked for, in every capability state (shared with C14.R1) - a value made of absent bytes is the reading of no register", 1)
    from .c14 import check as _c14_check
    _sub8 = Report("C14", rep.tier)
    _c14_check(ctx, _sub8)
    _n8 = 0
    for o in _sub8.obligations:
        if o.rule == "C14.R1" and o.status != "OK":
            _n8 += 1
            rep.obligations.append(type(o)("C12.R8", o.key, o.where, o.what, o.status, o.detail))
    rep.ok("C12.R8", "window:summary", "goodwe/", "%d window obligations of C14.R1 evaluated, %d not satisfied" % (sum(1 for o in _sub8.obligations if o.rule == "C14.R1"), _n8))
    rep.rule("C12.R4", "the byte count announced by the type's docstring equals the bytes its decoder consumes", 25)
    prog = ctx.prog
    tabs, dec = tables_ctx(ctx), decoders_ctx(ctx)
    # ---- R1 per class (one representative row per (class, scale))
    done = set()
    used_classes = set()
    for row in tabs.all_rows():
        used_classes.add(row.cls.name)
        k = (row.cls.name, row.attrs.get("scale"))
        if k in done:
            continue
        done.add(k)
        group = next((g for g in GROUP_BASES if prog.is_subclass(row.cls, prog.cls(g))), None)
        rv = prog.find_method(row.cls, "read_value")
        if group is not None:
            _group_layout(ctx, rep, dec, row, group)
            continue
        if rv is not None and _only_raises(rv):
            # derived sensors (Calculated, bitmaps): decoded by their own read(); covered by C13 and R2
            continue
        reads, cases = row_summary(dec, row)
        ref = DECODER_REFERENCE.get(row.cls.name)
        if ref is None:
            rep.violation("C12.R1", "summary:%s" % row.cls.name, row.cls.module.relpath + ":%d" % row.cls.node.lineno,
                          "sensor type %s has no documented reference interpretation (new type?) - extracted: reads=%s %s" % (row.cls.name, reads, cases))
            continue
        want_reads, want_cases = ref
        want_cases = sorted(c.replace("{scale}", str(row.attrs.get("scale"))) for c in want_cases)
        ok = reads == want_reads and cases == want_cases
        rep.check(ok, "C12.R1", "summary:%s%s" % (row.cls.name, ":%s" % row.attrs["scale"] if "scale" in row.attrs else ""),
                  "%s:%d" % (row.cls.module.relpath, row.cls.node.lineno),
                  "%s decodes %s as documented: %s" % (row.cls.name, reads, "; ".join(cases)),
                  bad="%s (used by %s ...) no longer decodes as documented: reads %s (documented %s); cases %s (documented %s)" % (
                      row.cls.name, row.id_, reads, want_reads, cases, want_cases))
    # helpers used by getters are covered through the rows; classes never used in a table are reported as notes
    sensor = prog.cls("Sensor")
    for ci in prog.all_subclasses(sensor, include_self=False):
        if ci.name not in used_classes:
            rep.note("sensor type %s is not used by any table" % ci.name)
    # ---- R2 every row
    for row in tabs.all_rows():
        cases = dec.row_cases(row, "read")
        rng = consumed_ranges(cases)
        own = {row.offset}
        if "_offsetL" in row.attrs:
            own.add(row.attrs["_offsetL"])
        is_getter = "_getter" in row.attrs
        bad = []
        for base, lo, hi in rng:
            if is_getter:
                if not isinstance(base, int):
                    bad.append("getter reads at non-constant address %r" % (base,))
                continue
            if base not in own:
                bad.append("reads at %r which is not its own register" % (base,))
            elif lo != 0:
                bad.append("skips %d bytes" % lo)
        if not rng and not any(c.outcome == "raise" for c in cases):
            bad.append("reads nothing")
        notes = {n for c in cases for n in c.notes}
        if notes:
            bad.append("decoder not fully modelled: %s" % sorted(notes)[:2])
        rep.check(not bad, "C12.R2", "own:%s.%s:%s" % (row.owner.name, row.table, row.id_), row.where(),
                  "%s reads %s" % (row.id_, ["%s+[%d,%d)" % r for r in rng]),
                  bad="%s.%s row '%s' (%s): %s" % (row.owner.name, row.table, row.id_, row.cls.name, "; ".join(bad)))
    sensor_read_rule(ctx, rep, "C12.R2")
    # ---- R3
    fams = ctx.memo("families", lambda: families(prog, ctx.res))
    for fam in fams.values():
        want = (1, False) if fam.kind == "aa55" else (2, True)
        rep.check((fam.offset_scale, fam.offset_uses_first) == want, "C12.R3", "map:%s" % fam.name, prog.find_method(fam.cls, "get_offset").loc(),
                  "%s maps address -> %s" % (fam.name, "byte offset" if fam.kind == "aa55" else "2 x (address - first_address)"),
                  bad="%s.get_offset is not %s" % (fam.name, "the identity" if fam.kind == "aa55" else "2*(address - first_address)"))
    pr = prog.cls("ProtocolResponse")
    sk, rdm = pr.methods.get("seek"), pr.methods.get("read")
    def _is(n, chain_, args):
        """call with the given (alias-canonical) access chain whose arguments satisfy the given predicates"""
        return isinstance(n, ast.Call) and call_chain(n) == chain_ and len(n.args) == len(args) and all(f(a) for f, a in zip(args, n.args))
    from ..astutil import seeks_through_get_offset
    ok = sk is not None and seeks_through_get_offset(sk)
    rep.check(ok, "C12.R3", "response-seek", sk.loc() if sk else pr.module.relpath, "ProtocolResponse.seek positions at command.get_offset(address)",
              bad="ProtocolResponse.seek no longer positions the buffer at command.get_offset(address)")
    from ..astutil import returned_values
    ok = rdm is not None and any(_is(v, ("self", "_bytes", "read"), [lambda a: norm(a) == rdm.params[1]]) for v in returned_values(rdm.node))
    rep.check(ok, "C12.R3", "response-read", rdm.loc() if rdm else pr.module.relpath, "ProtocolResponse.read reads from the trimmed payload buffer",
              bad="ProtocolResponse.read no longer returns self._bytes.read(size)")
    # the read position belongs to seek() and read(): no other code moves it (an implicitly invoked __repr__ / __str__ /
    # __len__ that reads the buffer leaves the cursor at its end - the next value read without a seek is made of nothing)
    movers = ("seek", "read", "read1", "readinto", "readline", "readlines", "write", "writelines", "truncate", "__next__", "__iter__")
    nacc = 0
    for f in ctx.res.all_funcs():
        for n in ctx.res._own_nodes(f):
            if isinstance(n, ast.Call) and isinstance(n.func, ast.Attribute) and n.func.attr in movers:
                cc = call_chain(n) or ()
                if len(cc) >= 2 and cc[-2] == "_bytes":
                    nacc += 1
                    owner_ok = f.cls is pr and f.name in ("seek", "read") and cc[0] == "self"
                    if not owner_ok and f.cls is pr and cc[0] == "self":
                        from .proto import only_reached_from
                        owner_ok = f.name not in ("__repr__", "__str__", "__len__", "__bool__", "__iter__", "__eq__", "__hash__", "__format__", "__bytes__", "__init__") \
                            and bool(ctx.res.callers_of(f)) and only_reached_from(ctx, f, [sk, rdm])
                    rep.check(owner_ok, "C12.R3", "cursor:%s:%s" % (f.short, norm(n.func)), f.loc(n),
                              "%s moves the payload cursor as part of seek/read" % f.short,
                              bad="%s moves the read position of the response payload (%s): a value read afterwards without a seek of its own (modbus-N reads, sequential read_* helpers) is decoded from the wrong bytes" % (f.short, norm(n)))
    if nacc < 2:
        raise AnalysisError("expected the payload cursor to be moved by ProtocolResponse.seek and .read, found %d accesses" % nacc)
    # ---- R4 docstring byte counts
    for ci in prog.all_subclasses(sensor, include_self=False):
        doc = ast.get_docstring(ci.node) or ""
        m = re.search(r"encoded in (\d+)(\+(\d+))? (\(\w+\) )?byte", doc)
        if not m:
            continue
        announced = int(m.group(1)) + (int(m.group(3)) if m.group(3) else 0)
        rows = [r for r in tabs.all_rows() if r.cls is ci]
        if not rows:
            continue
        row = rows[0]
        via = "read" if _only_raises(prog.find_method(ci, "read_value")) else "read_value"
        cases = dec.row_cases(row, via)
        leaves = {leaf for c in cases for leaf in c.reads}
        consumed = 0
        per_base: Dict = {}
        for leaf in leaves:
            per_base.setdefault(leaf[1], []).append(leaf)
        for base, ls in per_base.items():
            # a low-byte sensor skips the high byte: count only what feeds the value
            if ci.name in ("ByteL", "EnumL"):
                consumed += 1
            else:
                consumed += max(l[2] + l[3] for l in ls) - min(l[2] for l in ls)
        rep.check(consumed == announced, "C12.R4", "doc:%s" % ci.name, "%s:%d" % (ci.module.relpath, ci.node.lineno),
                  "%s: docstring announces %d byte(s), decoder consumes %d" % (ci.name, announced, consumed),
                  bad="%s: docstring says 'encoded in %d bytes' but the decoder consumes %d" % (ci.name, announced, consumed))


def _only_raises(fn) -> bool:
    if fn is None:
        return True
    body = [s for s in fn.node.body if not (isinstance(s, ast.Expr) and isinstance(s.value, ast.Constant))]
    return len(body) == 1 and isinstance(body[0], ast.Raise)


def _group_layout(ctx: Ctx, rep: Report, dec: Decoders, row: Row, group: str):
    cases = dec.row_cases(row, "read_value")
    rets = [c for c in cases if c.outcome == "return"]
    if not rets:
        raise AnalysisError("%s.read_value never returns" % row.cls.name)
    layouts = set()
    for c in rets:
        lay = []
        for attr, v in c.stores:
            if v[0] == "num" and v[1][0] == "read":
                lay.append((attr, _leaf_str(v[1])))
        layouts.add(tuple(lay))
    want = tuple(GROUP_LAYOUT[group])
    ok = layouts == {want}
    raises = {c.value for c in cases if c.outcome == "raise"}
    rep.check(ok and raises <= {"ValueError"}, "C12.R1", "layout:%s" % row.cls.name, "%s:%d" % (row.cls.module.relpath, row.cls.node.lineno),
              "%s reads its %d fields in the documented wire order" % (row.cls.name, len(want)),
              bad="%s field layout is %s, documented %s; raises %s" % (row.cls.name, sorted(layouts)[:1], list(want), sorted(raises)))
