"""C12 - each sensor value is the documented reading of exactly its own registers."""
from __future__ import annotations

import ast
import re
from typing import Dict, List, Tuple

from .. import AnalysisError
from ..astutil import call_chain, chain
from ..core import Ctx, Report
from ..decoders import Decoders, canon_cases, consumed_ranges, _leaf_str
from ..framing import families
from ..model import ClassInfo, norm
from ..reference import DECODER_REFERENCE, GROUP_LAYOUT
from ..tables import Tables, Row, Opaque
from .c14 import tables_ctx, decoders_ctx

PID = "C12"
LEVEL = "other"
EXPLANATION = (
    "Decoder summaries are extracted by abstract interpretation of every read_* helper and Sensor.read / read_value override "
    "(bytes consumed, byte order, signedness, sentinel values and what they map to, divisor, rounding) and compared with the frozen "
    "documented interpretation of each sensor type (R1); every one of the 494 table rows is evaluated on the bulk path and must read "
    "only bytes starting at its own register - or, for two-word bitmaps, its two own registers (R2); the address -> position map of "
    "each framing is 2 x (address - first address) for Modbus and the plain byte offset for AA55, shared with C02.R3 (R3); the byte "
    "count a type's docstring announces equals what its decoder consumes (R4). Numeric equality on all register contents is a value "
    "level question and is not decided."
)

GROUP_BASES = ("EcoModeV1", "Schedule")


def row_summary(dec: Decoders, row: Row) -> Tuple[str, List[str]]:
    return canon_cases(dec.row_cases(row, "read_value"))


def check(ctx: Ctx, rep: Report):
    rep.rule("C12.R1", "decoder summary of every sensor type equals the documented interpretation (bytes, big-endian, signedness, sentinels, scale)", 30)
    rep.rule("C12.R2", "every table row reads only bytes at its own register(s) on the bulk path", 480)
    rep.rule("C12.R3", "address -> position map: 2 x (address - first) for Modbus, identity for AA55; seek/trim go through the command", 5)
    rep.rule("C12.R4", "the byte count announced by the type's docstring equals the bytes its decoder consumes", 25)
    prog = ctx.prog
    tabs, dec = tables_ctx(ctx), decoders_ctx(ctx)
    # ---- R1 per class (one representative row per (class, scale))
    done = set()
    used_classes = set()
    for row in tabs.all_rows():
        used_classes.add(row.cls.name)
        k = (row.cls.name, row.attrs.get("scale"))
        if k in done:
            continue
        done.add(k)
        group = next((g for g in GROUP_BASES if prog.is_subclass(row.cls, prog.cls(g))), None)
        rv = prog.find_method(row.cls, "read_value")
        if group is not None:
            _group_layout(ctx, rep, dec, row, group)
            continue
        if rv is not None and _only_raises(rv):
            # derived sensors (Calculated, bitmaps): decoded by their own read(); covered by C13 and R2
            continue
        reads, cases = row_summary(dec, row)
        ref = DECODER_REFERENCE.get(row.cls.name)
        if ref is None:
            rep.violation("C12.R1", "summary:%s" % row.cls.name, row.cls.module.relpath + ":%d" % row.cls.node.lineno,
                          "sensor type %s has no documented reference interpretation (new type?) - extracted: reads=%s %s" % (row.cls.name, reads, cases))
            continue
        want_reads, want_cases = ref
        want_cases = sorted(c.replace("{scale}", str(row.attrs.get("scale"))) for c in want_cases)
        ok = reads == want_reads and cases == want_cases
        rep.check(ok, "C12.R1", "summary:%s%s" % (row.cls.name, ":%s" % row.attrs["scale"] if "scale" in row.attrs else ""),
                  "%s:%d" % (row.cls.module.relpath, row.cls.node.lineno),
                  "%s decodes %s as documented: %s" % (row.cls.name, reads, "; ".join(cases)),
                  bad="%s (used by %s ...) no longer decodes as documented: reads %s (documented %s); cases %s (documented %s)" % (
                      row.cls.name, row.id_, reads, want_reads, cases, want_cases))
    # helpers used by getters are covered through the rows; classes never used in a table are reported as notes
    sensor = prog.cls("Sensor")
    for ci in prog.all_subclasses(sensor, include_self=False):
        if ci.name not in used_classes:
            rep.note("sensor type %s is not used by any table" % ci.name)
    # ---- R2 every row
    for row in tabs.all_rows():
        cases = dec.row_cases(row, "read")
        rng = consumed_ranges(cases)
        own = {row.offset}
        if "_offsetL" in row.attrs:
            own.add(row.attrs["_offsetL"])
        is_getter = "_getter" in row.attrs
        bad = []
        for base, lo, hi in rng:
            if is_getter:
                if not isinstance(base, int):
                    bad.append("getter reads at non-constant address %r" % (base,))
                continue
            if base not in own:
                bad.append("reads at %r which is not its own register" % (base,))
            elif lo != 0:
                bad.append("skips %d bytes" % lo)
        if not rng and not any(c.outcome == "raise" for c in cases):
            bad.append("reads nothing")
        notes = {n for c in cases for n in c.notes}
        if notes:
            bad.append("decoder not fully modelled: %s" % sorted(notes)[:2])
        rep.check(not bad, "C12.R2", "own:%s.%s:%s" % (row.owner.name, row.table, row.id_), row.where(),
                  "%s reads %s" % (row.id_, ["%s+[%d,%d)" % r for r in rng]),
                  bad="%s.%s row '%s' (%s): %s" % (row.owner.name, row.table, row.id_, row.cls.name, "; ".join(bad)))
    # Sensor.read = seek(self.offset) + read_value
    rd = sensor.methods.get("read")
    from ..astutil import returned_values as _rv
    ok = rd is not None and any(isinstance(n, ast.Call) and call_chain(n) == (rd.params[1], "seek") and len(n.args) == 1 and chain(n.args[0]) == ("self", "offset")
                                for n in ast.walk(rd.node)) \
        and any(isinstance(v, ast.Call) and call_chain(v) == ("self", "read_value") and len(v.args) == 1 and norm(v.args[0]) == rd.params[1] for v in _rv(rd.node))
    rep.check(ok, "C12.R2", "sensor-read", rd.loc() if rd else sensor.module.relpath, "Sensor.read seeks to self.offset and decodes with read_value",
              bad="Sensor.read is no longer 'seek(self.offset); return self.read_value(data)'")
    # ---- R3
    fams = ctx.memo("families", lambda: families(prog, ctx.res))
    for fam in fams.values():
        want = (1, False) if fam.kind == "aa55" else (2, True)
        rep.check((fam.offset_scale, fam.offset_uses_first) == want, "C12.R3", "map:%s" % fam.name, prog.find_method(fam.cls, "get_offset").loc(),
                  "%s maps address -> %s" % (fam.name, "byte offset" if fam.kind == "aa55" else "2 x (address - first_address)"),
                  bad="%s.get_offset is not %s" % (fam.name, "the identity" if fam.kind == "aa55" else "2*(address - first_address)"))
    pr = prog.cls("ProtocolResponse")
    sk, rdm = pr.methods.get("seek"), pr.methods.get("read")
    def _is(n, chain_, args):
        """call with the given (alias-canonical) access chain whose arguments satisfy the given predicates"""
        return isinstance(n, ast.Call) and call_chain(n) == chain_ and len(n.args) == len(args) and all(f(a) for f, a in zip(args, n.args))
    from ..astutil import seeks_through_get_offset
    ok = sk is not None and seeks_through_get_offset(sk)
    rep.check(ok, "C12.R3", "response-seek", sk.loc() if sk else pr.module.relpath, "ProtocolResponse.seek positions at command.get_offset(address)",
              bad="ProtocolResponse.seek no longer positions the buffer at command.get_offset(address)")
    from ..astutil import returned_values
    ok = rdm is not None and any(_is(v, ("self", "_bytes", "read"), [lambda a: norm(a) == rdm.params[1]]) for v in returned_values(rdm.node))
    rep.check(ok, "C12.R3", "response-read", rdm.loc() if rdm else pr.module.relpath, "ProtocolResponse.read reads from the trimmed payload buffer",
              bad="ProtocolResponse.read no longer returns self._bytes.read(size)")
    # ---- R4 docstring byte counts
    for ci in prog.all_subclasses(sensor, include_self=False):
        doc = ast.get_docstring(ci.node) or ""
        m = re.search(r"encoded in (\d+)(\+(\d+))? (\(\w+\) )?byte", doc)
        if not m:
            continue
        announced = int(m.group(1)) + (int(m.group(3)) if m.group(3) else 0)
        rows = [r for r in tabs.all_rows() if r.cls is ci]
        if not rows:
            continue
        row = rows[0]
        via = "read" if _only_raises(prog.find_method(ci, "read_value")) else "read_value"
        cases = dec.row_cases(row, via)
        leaves = {leaf for c in cases for leaf in c.reads}
        consumed = 0
        per_base: Dict = {}
        for leaf in leaves:
            per_base.setdefault(leaf[1], []).append(leaf)
        for base, ls in per_base.items():
            # a low-byte sensor skips the high byte: count only what feeds the value
            if ci.name in ("ByteL", "EnumL"):
                consumed += 1
            else:
                consumed += max(l[2] + l[3] for l in ls) - min(l[2] for l in ls)
        rep.check(consumed == announced, "C12.R4", "doc:%s" % ci.name, "%s:%d" % (ci.module.relpath, ci.node.lineno),
                  "%s: docstring announces %d byte(s), decoder consumes %d" % (ci.name, announced, consumed),
                  bad="%s: docstring says 'encoded in %d bytes' but the decoder consumes %d" % (ci.name, announced, consumed))


def _only_raises(fn) -> bool:
    if fn is None:
        return True
    body = [s for s in fn.node.body if not (isinstance(s, ast.Expr) and isinstance(s.value, ast.Constant))]
    return len(body) == 1 and isinstance(body[0], ast.Raise)


def _group_layout(ctx: Ctx, rep: Report, dec: Decoders, row: Row, group: str):
    cases = dec.row_cases(row, "read_value")
    rets = [c for c in cases if c.outcome == "return"]
    if not rets:
        raise AnalysisError("%s.read_value never returns" % row.cls.name)
    layouts = set()
    for c in rets:
        lay = []
        for attr, v in c.stores:
            if v[0] == "num" and v[1][0] == "read":
                lay.append((attr, _leaf_str(v[1])))
        layouts.add(tuple(lay))
    want = tuple(GROUP_LAYOUT[group])
    ok = layouts == {want}
    raises = {c.value for c in cases if c.outcome == "raise"}
    rep.check(ok and raises <= {"ValueError"}, "C12.R1", "layout:%s" % row.cls.name, "%s:%d" % (row.cls.module.relpath, row.cls.node.lineno),
              "%s reads its %d fields in the documented wire order" % (row.cls.name, len(want)),
              bad="%s field layout is %s, documented %s; raises %s" % (row.cls.name, sorted(layouts)[:1], list(want), sorted(raises)))
