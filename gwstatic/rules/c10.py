"""C10 - at most one transport is open per inverter and none is leaked."""
from __future__ import annotations

import ast
from typing import List

from .. import AnalysisError
from ..astutil import call_chain, chain, self_store
from ..core import Ctx, Report
from ..model import norm
from ..paths import enumerate_paths, no_raise
from .proto import connector, proto_classes, method, protocol_paths, tags, loop_callbacks, net_mayraise, feasible

PID = "C10"
LEVEL = "other"
EXPLANATION = (
    "Ownership of the _transport field decided structurally: (R1) endpoints are created only in _connect, under "
    "'not self._transport or self._transport.is_closing()', and the result is stored in self._transport; (R2) every "
    "'self._transport = None' is preceded on its path by close() of that field, connection_made stores only the transport it is "
    "given, and nothing else assigns the field; (R3) every request goes through ProtocolCommand.execute whose finally reaches "
    "protocol.close() when keep_alive is off, both close() implementations and _max_retries_reached reach _close_transport() on all "
    "paths, and the UDP send_request closes in its finally when keep_alive is off; (R4) _ensure_lock closes on a changed loop, "
    "connection_lost / eof_received reach _close_transport, which tolerates RuntimeError from a closed loop. Observed open/close "
    "histories of real transports are not decided."
    ' (R6, shared with C05.R3) _ensure_lock reuses the lock only after comparing the event loops; a new lock records the loop and closes the old transport.'
    ' (R7) inventory of loop-bound attributes (lock, futures, timer handles): each is renewed by _ensure_lock or cancelled / cleared by _close_transport on a loop change.'
    ' (R8, shared with C06.R6) no timeout handle is orphaned or left armed when a request completes: a stale _timeout_mechanism would close the transport of the next request.'
    ' (R9, shared with C08.R6) no loop callback schedules a method of the protocol object after completing the response future.'
)


LOOP_BOUND_MAKERS = {"create_future", "Future", "Lock", "Event", "Condition", "Semaphore", "BoundedSemaphore", "Queue", "create_task", "ensure_future",
                     "call_later", "call_soon", "call_at", "call_soon_threadsafe"}


def loop_bound_inventory(ctx: Ctx, rep: Report):
    """After asyncio.run() returns, everything created on that loop is dead: awaiting a future of it in the next loop
    raises RuntimeError ('attached to a different loop'), a lock of it cannot be waited on.  So each attribute of the
    protocol classes that is assigned such an object must be handled where the loop change is detected: re-created by
    _ensure_lock on the path that installs the new lock, or cancelled / cleared by _close_transport (which that path
    calls)."""
    from ..astutil import self_store
    prog = ctx.prog
    base = prog.cls("InverterProtocol")
    el, ct = base.methods.get("_ensure_lock"), base.methods.get("_close_transport")
    if el is None or ct is None:
        raise AnalysisError("_ensure_lock / _close_transport not found")
    bound = {}
    for ci in prog.all_subclasses(base, include_self=True):
        for m in ci.methods.values():
            for st in [x for x in ast.walk(m.node) if isinstance(x, ast.stmt)]:
                for a, v, _ in self_store(st):
                    if isinstance(v, ast.Call):
                        name = v.func.attr if isinstance(v.func, ast.Attribute) else (v.func.id if isinstance(v.func, ast.Name) else "")
                        if name in LOOP_BOUND_MAKERS:
                            bound.setdefault(a, (m, st))
    if any(isinstance(x, ast.Attribute) and x.attr == "response_future" for x in ast.walk(base.node)):
        bound.setdefault("response_future", (base.methods.get("__init__") or el, el.node))
    def handled_by(root):
        out = set()
        for f in ctx.res.reachable([root]):
            if f.cls is None or not any(f.cls is c for k in prog.all_subclasses(base, include_self=True) for c in prog.mro(k) if hasattr(c, "methods")):
                continue
            for st in [x for x in ast.walk(f.node) if isinstance(x, ast.stmt)]:
                for a, _, _ in self_store(st):
                    out.add(a)
            for n in ast.walk(f.node):
                if isinstance(n, ast.Call) and isinstance(n.func, ast.Attribute) and n.func.attr in ("cancel", "close", "set_result", "set_exception"):
                    c = chain(n.func.value)
                    if c and len(c) == 2 and c[0] == "self":
                        out.add(c[1])
        return out
    handled_el = handled_by(el)          # includes what _close_transport (called on the renewing path) and helpers do
    handled_ct = handled_by(ct)
    calls_ct = ct in ctx.res.reachable([el])
    if len(bound) < 2:
        raise AnalysisError("expected the lock and the timer among the loop-bound attributes, found %s" % sorted(bound))
    for a, (m, st) in sorted(bound.items()):
        ok = a in handled_el or (calls_ct and a in handled_ct)
        rep.check(ok, "C10.R7", "loop-bound:%s" % a, m.loc(st) if hasattr(st, "lineno") else m.loc(),
                  "self.%s (loop-bound) is %s on a loop change" % (a, "re-created by _ensure_lock" if a in handled_el else "cancelled / cleared by _close_transport"),
                  bad="self.%s holds an object bound to the event loop it was created on (%s in %s) but neither _ensure_lock nor _close_transport renews, cancels or clears it when the loop changes: "
                      "after a new asyncio.run() the next request waits on / completes an object of the dead loop (RuntimeError: attached to a different loop) instead of reconnecting" % (a, norm(st.value)[:50] if hasattr(st, "value") and st.value is not None else "assigned", m.short))


def check(ctx: Ctx, rep: Report):
    rep.rule("C10.R1", "single guarded creation site: endpoints are created only in _connect under the no-open-transport test and kept in self._transport", 2)
    rep.rule("C10.R2", "an open transport is never forgotten: _transport = None only after close(); only connection_made/_connect assign it", 3)
    rep.rule("C10.R3", "keep-alive off => closed on every exit of a request; close() and _max_retries_reached always reach _close_transport", 8)
    rep.rule("C10.R4", "loop change and connection loss close the transport; _close_transport tolerates RuntimeError", 5)
    rep.rule("C10.R5", "keep-alive on: a successful request does not close the transport", 4)
    rep.rule("C10.R7", "every attribute of the protocol object that holds something bound to an event loop (lock, future, timer handle) is renewed by _ensure_lock or cancelled / cleared by _close_transport when the loop changes", 2)
    loop_bound_inventory(ctx, rep)
    rep.rule("C10.R6", "use from a new event loop is detected exactly: the lock is reused only after comparing the loops, a new lock records the loop and closes the old transport (shared with C05.R3)", 1)
    from .c05 import r3 as _c05_r3
    from ..core import Report as _Report
    _sub = _Report("C05", rep.tier)
    _c05_r3(ctx, _sub)
    for o in _sub.obligations:
        rep.obligations.append(type(o)("C10.R6", o.key, o.where, o.what, o.status, o.detail))
    prog, res = ctx.prog, ctx.res
    classes = proto_classes(ctx)
    rep.rule("C10.R8", "no timeout of an earlier (completed) request is left armed: a stale _timeout_mechanism would close the healthy transport of the next request, so two successful requests would not share one transport (shared with C06.R6)", 6)
    from .c06 import r6 as _c06_r6
    _sub = _Report("C06", rep.tier)
    for ci in classes:
        _c06_r6(ctx, _sub, ci)
    for o in _sub.obligations:
        rep.obligations.append(type(o)("C10.R8", o.key, o.where, o.what, o.status, o.detail))
    r5(ctx, rep, classes)
    rep.rule("C10.R9", "no transport close is deferred past the completion of a request: it would close the transport the next request has just reused (shared with C08.R6)", 6)
    from .proto import no_deferred_after_completion
    no_deferred_after_completion(ctx, rep, "C10.R9")
    # ---- R1
    for fn in res.all_funcs():
        for n in res._own_nodes(fn):
            if isinstance(n, ast.Call) and (call_chain(n) or ("",))[-1] in ("create_datagram_endpoint", "create_connection"):
                ok = fn.cls in classes and connector(ctx, fn.cls) is fn
                rep.check(ok, "C10.R1", "creator:%s" % fn.short, fn.loc(n), "endpoint created in %s" % fn.short,
                          bad="%s creates a transport outside _connect: a second socket could be opened next to the tracked one" % fn.short)
    for ci in classes:
        fn = connector(ctx, ci)
        rep.analysed_add("functions", fn.qualname)
        for p in [q for q in enumerate_paths(prog, fn, no_raise) if feasible(q)]:
            creates = [i for i, ev in enumerate(p.events) if ev.kind == "call" and "create_endpoint" in tags(ev)]
            if not creates:
                continue
            i = creates[0]
            # facts: transport falsy, or is_closing() true
            guard = False
            for e2 in p.events[:i]:
                if e2.kind == "test" and chain(e2.node) == ("self", "_transport") and e2.data is False:
                    guard = True
                if e2.kind == "test" and isinstance(e2.node, ast.Call) and call_chain(e2.node) == ("self", "_transport", "is_closing") and e2.data is True:
                    guard = True
                if e2.kind == "test" and isinstance(e2.node, ast.Compare) and len(e2.node.ops) == 1 and norm(e2.node.left) == "self._transport" \
                        and isinstance(e2.node.comparators[0], ast.Constant) and e2.node.comparators[0].value is None:
                    if (isinstance(e2.node.ops[0], (ast.Is, ast.Eq)) and e2.data is True) or (isinstance(e2.node.ops[0], (ast.IsNot, ast.NotEq)) and e2.data is False):
                        guard = True
            stored = any(ev.kind == "stmt" and "store:_transport" in tags(ev) for ev in p.events[i:])
            rep.check(guard and stored, "C10.R1", "guarded-create:%s:%s" % (fn.short, p.describe()), fn.loc(p.events[i].node),
                      "endpoint created only when no usable transport exists, and kept in self._transport",
                      bad="%s %s [path %s]" % (fn.short, "opens a new transport although one may be open (a second socket)" if not guard else "does not keep the new transport in self._transport (leak)", p.describe()))
    # ---- R2
    for ci in classes:
        for c in [x for x in prog.mro(ci) if hasattr(x, "methods")]:
            for m in c.methods.values():
                if m.name == "__init__":
                    continue
                assigns = [n for n in ast.walk(m.node) if isinstance(n, (ast.Assign, ast.AnnAssign)) and any(a == "_transport" for a, _, _ in self_store(n))]
                if not assigns:
                    continue
                rep.analysed_add("functions", m.qualname)
                creator = m is connector(ctx, ci)
                if creator and m.name != "send_request":
                    continue
                if m.name == "connection_made":
                    for n in assigns:
                        ok = isinstance(n.value, ast.Name) and n.value.id == m.params[1]
                        rep.check(ok, "C10.R2", "connection_made:%s" % ci.name, m.loc(n), "connection_made stores the transport it is given",
                                  bad="%s.connection_made stores %s instead of the transport asyncio hands over" % (ci.name, norm(n.value)))
                    continue
                # any other writer: only '= None' after close() of the same field on the same path
                for p in [q for q in enumerate_paths(prog, m, no_raise) if feasible(q)]:
                    for i, ev in enumerate(p.events):
                        if ev.kind == "stmt" and "store:_transport" in tags(ev):
                            if creator and any(e2.kind == "call" and "create_endpoint" in tags(e2) for e2 in p.events[:i]) \
                                    and "store:_transport=None" not in tags(ev):
                                continue      # the endpoint just created is being kept (R1 checks the guard)
                            is_none = "store:_transport=None" in tags(ev)
                            closed = any(e2.kind == "call" and "transport_close" in tags(e2) for e2 in p.events[:i])
                            rep.check(is_none and closed, "C10.R2", "forget:%s.%s:%s" % (ci.name, m.name, p.describe()), m.loc(ev.node),
                                      "_transport is dropped only after close()",
                                      bad="%s %s [path %s]" % (m.short, "forgets the transport without closing it (socket leak)" if is_none else "assigns self._transport outside _connect/connection_made", p.describe()))
    # ---- R3
    execute = prog.cls("ProtocolCommand").methods["execute"]
    mr = net_mayraise(ctx)
    nclose = 0
    for p in enumerate_paths(prog, execute, mr.oracle):
        ka = [ev for ev in p.events if ev.kind == "test" and norm(ev.node) == "protocol.keep_alive"]
        closes = any(ev.kind == "call" and call_chain(ev.node) == ("protocol", "close") for ev in p.events)
        sent = any(ev.kind in ("call", "raise") and isinstance(ev.node, (ast.Call, ast.Await)) and "send_request" in norm(ev.node) for ev in p.events)
        if not sent:
            continue
        nclose += 1
        ok = bool(ka) and (closes or ka[-1].data is True)
        rep.check(ok, "C10.R3", "execute-exit:%s" % p.describe(8), execute.loc(), "execute exit closes the protocol when keep_alive is off",
                  bad="ProtocolCommand.execute can finish a request with keep_alive off and the transport still open [path %s]" % p.describe(8))
    if nclose == 0:
        raise AnalysisError("execute has no path through send_request")
    for ci in classes:
        for name in ("close", "_max_retries_reached"):
            fn = method(ctx, ci, name)
            paths = protocol_paths(ctx, fn) if name == "close" else [q for q in enumerate_paths(prog, fn, no_raise)]
            bad = [p for p in paths if p.end != "raise" and not any(ev.kind == "call" and "close_transport" in tags(ev) for ev in p.events)]
            rep.check(not bad, "C10.R3", "closes:%s.%s" % (ci.name, name), fn.loc(), "%s.%s reaches _close_transport() on every path" % (ci.name, name),
                      bad="%s.%s can return without closing the transport [path %s]" % (ci.name, name, bad[0].describe() if bad else ""))
        # UDP only: send_request's finally closes when keep_alive is off (the TCP class keeps the connection until execute/close)
        sr = method(ctx, ci, "send_request")
        fin = [n for n in ast.walk(sr.node) if isinstance(n, ast.Try) and n.finalbody]
        has_close_in_finally = any(isinstance(x, ast.Call) and call_chain(x) == ("self", "_close_transport") for t in fin for b in t.finalbody for x in ast.walk(b))
        is_dgram = any(isinstance(b, str) and b == "asyncio.DatagramProtocol" for b in prog.mro(ci))
        if is_dgram:
            # path rule: after the finally block is entered, the socket is closed unless keep_alive was tested true
            ok, nfin = True, 0
            for p in protocol_paths(ctx, sr):
                fs = [i for i, ev in enumerate(p.events) if ev.kind == "finally"]
                if not fs:
                    continue
                nfin += 1
                tail = p.events[fs[0]:]      # nested finally blocks (async with <lock> around the try): any of them may close
                closed = any(ev.kind == "call" and "close_transport" in tags(ev) for ev in tail)
                kept = any(ev.kind == "test" and chain(ev.node) == ("self", "keep_alive") and ev.data is True for ev in tail)
                if not closed and not kept:
                    ok = False
            ok = ok and nfin > 0
            rep.check(ok, "C10.R3", "udp-finally:%s" % ci.name, sr.loc(), "UDP send_request closes the socket in its finally when keep_alive is off",
                      bad="%s.send_request no longer closes the socket in its finally when keep_alive is off" % ci.name)
    # every request goes through execute (who-may-call)
    for ci in classes:
        sr = ci.methods["send_request"]
        for ct in res.callers_of(sr):
            fn = ct.caller
            ok = fn is execute or (fn.name == "send_request" and fn.cls is not None and fn.cls in classes)
            rep.check(ok, "C10.R3", "via-execute:%s<-%s" % (ci.name, fn.short), fn.loc(ct.node), "send_request reached through execute()",
                      bad="%s calls %s.send_request directly: its transport is not closed by execute's finally" % (fn.short, ci.name))
    # ---- R4
    base = prog.cls("InverterProtocol")
    ct_fn = base.methods.get("_close_transport")
    if ct_fn is None:
        raise AnalysisError("InverterProtocol._close_transport not found")
    tolerant = False
    for t in [n for n in ast.walk(ct_fn.node) if isinstance(n, ast.Try)]:
        closes = any(isinstance(x, ast.Call) and call_chain(x) == ("self", "_transport", "close") for b in t.body for x in ast.walk(b))
        catches = any(h.type is None or any(prog.is_subclass(prog.ext_class("builtins.RuntimeError"), c) for c in prog.resolve_exc_expr(ct_fn.module, h.type)) for h in t.handlers)
        if closes and catches:
            tolerant = True
    rep.check(tolerant, "C10.R4", "close-tolerates-runtimeerror", ct_fn.loc(), "_close_transport tolerates RuntimeError from a closed loop",
              bad="_close_transport no longer tolerates RuntimeError from transport.close() (reuse after asyncio.run() would fail)")
    el = base.methods.get("_ensure_lock")
    if el is None:
        raise AnalysisError("InverterProtocol._ensure_lock not found")
    renew = [p for p in enumerate_paths(prog, el, no_raise) if feasible(p) and any(ev.kind == "stmt" and "store:_lock" in tags(ev) for ev in p.events)]
    if not renew:
        raise AnalysisError("_ensure_lock never creates a lock")
    badp = [p for p in renew if not any(ev.kind == "call" and "close_transport" in tags(ev) for ev in p.events)]
    rep.check(not badp, "C10.R4", "loop-change-closes", el.loc(), "a new event loop drops the transport of the previous one",
              bad="_ensure_lock creates a lock for a new loop but keeps the transport of the old loop [path %s]" % (badp[0].describe() if badp else ""))
    for ci in classes:
        for cbname in ("connection_lost", "eof_received"):
            m = prog.find_method(ci, cbname)
            if m is None or m.cls is None or m not in loop_callbacks(ctx, ci):
                continue
            bad = [p for p in enumerate_paths(prog, m, no_raise) if not any(ev.kind == "call" and "close_transport" in tags(ev) for ev in p.events)]
            rep.check(not bad, "C10.R4", "lost:%s.%s" % (ci.name, cbname), m.loc(), "%s.%s reaches _close_transport()" % (ci.name, cbname),
                      bad="%s.%s does not drop the dead transport: the next request would write to it [path %s]" % (ci.name, cbname, bad[0].describe() if bad else ""))


def r5(ctx: Ctx, rep: Report, classes):
    prog = ctx.prog
    for ci in classes:
        # receive callbacks: the delivering path leaves the transport alone
        for cb in [f for f in loop_callbacks(ctx, ci) if f.name in ("datagram_received", "data_received")]:
            bad = None
            n = 0
            for p in protocol_paths(ctx, cb):
                if not any(ev.kind == "call" and "fut_set_result" in tags(ev) for ev in p.events):
                    continue
                n += 1
                if any(ev.kind == "call" and ("close_transport" in tags(ev) or "transport_close" in tags(ev)) for ev in p.events):
                    bad = p
            if n == 0:
                raise AnalysisError("%s has no delivering path" % cb.short)
            rep.check(bad is None, "C10.R5", "deliver-keeps:%s" % cb.short, cb.loc(), "%s delivers a result without closing the transport" % cb.short,
                      bad="%s closes the transport while delivering a valid answer: with keep-alive on every request opens a new socket [path %s]" % (cb.short, bad.describe(6) if bad else ""))
        # send_request: the success exit closes only under 'not keep_alive'
        sr = method(ctx, ci, "send_request")
        bad = None
        n = 0
        for p in protocol_paths(ctx, sr):
            if p.end != "return" or any(ev.kind == "catch" for ev in p.events):
                continue
            ka = [ev for ev in p.events if ev.kind == "test" and norm(ev.node) == "self.keep_alive"]
            keepalive_on = any(ev.data is True for ev in ka)
            closes = any(ev.kind == "call" and "close_transport" in tags(ev) for ev in p.events)
            n += 1
            if closes and (keepalive_on or not ka):
                bad = p
        if n == 0:
            raise AnalysisError("%s has no plain success path" % sr.short)
        rep.check(bad is None, "C10.R5", "success-keeps:%s" % sr.short, sr.loc(), "%s keeps the transport after a success unless keep_alive is off" % sr.short,
                  bad="%s closes the transport after a successful request although keep_alive is on (or without asking) [path %s]" % (sr.short, bad.describe(8) if bad else ""))
