"""C03 - requests on the wire are canonical, decodable frames carrying the arguments."""
from __future__ import annotations

import ast
import re
from typing import Dict, List, Optional, Tuple

from .. import AnalysisError
from ..astutil import call_chain, chain, self_store, expand_locals
from ..calls import arg_for
from ..core import Ctx, Report
from ..framing import aa55_construction_sites
from ..model import FuncInfo, ClassInfo, NotConst, norm
from ..paths import enumerate_paths, no_raise
from ..replay import Replay
from ..symx import Sym, Lin, Fact, entails_ge
from .c14 import tables_ctx
from .proto import proto_classes, method, tags

PID = "C03"
LEVEL = "other"
EXPLANATION = (
    "(R1) the four create_modbus_* builders are abstractly executed on a symbolic bytearray (index stores, append, extend) giving one "
    "expression per byte, compared with the Modbus reference layout: address, function, big-endian register and value / count words as "
    "(x >> 8) & 0xFF, x & 0xFF (masking = two's complement), multi: count word = len(values)//2 and byte count = len(values); RTU: CRC "
    "of all preceding bytes, low byte first; TCP: protocol id 0 and length word = bytes that follow. (R2) byte-range safety: every "
    "unmasked expression stored into a frame byte and every integer interpolated into an AA55 hex template '{x:0Nx}' is proven in "
    "range from the bounds of all call-site arguments (offsets from the settings tables routed to AA55, counts from size_, values "
    "from int.from_bytes(<=2 bytes, signed) - which may be negative -, guarded parameters, literals). (R3) every AA55 payload "
    "template has a length byte equal to the bytes that follow, and header and checksum are computed over the same string. (R4) "
    "_next_tx keeps the transaction id in [1, 0xFFFE], changes it on every call including across the wrap, request_bytes replaces "
    "exactly bytes [0:2], and _send_request calls request_bytes() once per transport write. CRC values per argument are not decided."
    ' (R5, shared with C18.R1) every request is one fresh construction from the arguments of the call. R1 abstractly executes the builders on symbolic byte strings (bytearray index stores, bytes((..)) concatenation, x.to_bytes(2, order), helpers that append the CRC), R4 reads _next_tx as a guarded transition system with an inductive interval invariant.'
    ' (R6, shared with C06.R9) the transport is written only by _send_request or helpers reached only from it.'
    " (R7) self._comm_addr is a constructor parameter stored unchanged on every path and forwarded by the subclasses' constructors: the frames carry the configured bus address."
    ' (R4, without _next_tx) a counter kept inside request_bytes must be one process-wide cell and its update, followed from the initial value, must yield a different non-zero 16-bit id each time.'
    ' (R2 mask) a masked hex field keeps every bit of the field (0xFFFF for 4 digits).'
)


# ----------------------------------------------------------------- R1 builders
def byte_form(prog, mod, e: ast.expr) -> str:
    """Canonical description of a byte expression: hi(x) / lo(x) / raw(x) / const."""
    try:
        v = prog.consteval(e, mod)
        if isinstance(v, int):
            return "const:%d" % v
    except NotConst:
        pass
    def strip16(a):
        """x & 0xFFFF -> (x, True): the low 16 bits of x are all a byte of the frame can see anyway"""
        if isinstance(a, ast.BinOp) and isinstance(a.op, ast.BitAnd):
            for u, w in ((a.left, a.right), (a.right, a.left)):
                try:
                    if prog.consteval(w, mod) == 0xFFFF:
                        return u, True
                except NotConst:
                    pass
        return a, False

    if isinstance(e, ast.BinOp) and isinstance(e.op, ast.BitAnd):
        for a, b in ((e.left, e.right), (e.right, e.left)):
            try:
                mask = prog.consteval(b, mod)
            except NotConst:
                continue
            if mask == 0xFF:
                a, _ = strip16(a)
                if isinstance(a, ast.BinOp) and isinstance(a.op, ast.RShift):
                    try:
                        if prog.consteval(a.right, mod) == 8:
                            return "hi(%s)" % norm(strip16(a.left)[0])
                    except NotConst:
                        pass
                return "lo(%s)" % norm(a)
    if isinstance(e, ast.BinOp) and isinstance(e.op, ast.RShift):
        try:
            if prog.consteval(e.right, mod) == 8:
                inner, masked16 = strip16(e.left)
                return ("hi(%s)" if masked16 else "unmasked-hi(%s)") % norm(inner)       # (x & 0xFFFF) >> 8 is at most 0xFF
        except NotConst:
            pass
    return "raw(%s)" % norm(_shift_as_division(e))


class _ShiftAsDivision(ast.NodeTransformer):
    """x >> k (k a literal) written as x // 2**k: one spelling for the reference comparison"""

    def visit_BinOp(self, n):
        n = self.generic_visit(n)
        if isinstance(n.op, ast.RShift) and isinstance(n.right, ast.Constant) and isinstance(n.right.value, int) and 0 <= n.right.value <= 16:
            return ast.copy_location(ast.BinOp(left=n.left, op=ast.FloorDiv(), right=ast.Constant(value=2 ** n.right.value)), n)
        return n


def _shift_as_division(e: ast.expr) -> ast.expr:
    import copy
    return ast.fix_missing_locations(_ShiftAsDivision().visit(copy.deepcopy(e)))


class _Subst(ast.NodeTransformer):
    def __init__(self, env):
        self.env = env

    def visit_Name(self, n):
        if isinstance(n.ctx, ast.Load) and n.id in self.env:
            import copy
            return copy.deepcopy(self.env[n.id])
        return n


def _subst(e: ast.expr, env: Dict[str, ast.expr]) -> ast.expr:
    import copy
    return ast.fix_missing_locations(_Subst(env).visit(copy.deepcopy(e))) if env else e


class _BytesEval:
    """Abstract execution of a frame builder on symbolic byte strings.  A value is
       ('bytes', [segment, ...])   a byte string; segments are byte forms ('hi(offset)', 'const:6', 'raw(cmd)', ...),
                                   ('payload', name) for a caller-supplied byte string, ('crc-lo' | 'crc-hi', covered segments)
       ('crc', covered segments)   the integer _modbus_checksum(...) of a byte string
       ('scalar', expression)      anything else (substituted into later byte expressions).
    Understands bytearray(n) / bytes((..)) / concatenation / index stores / append / extend / x.to_bytes(2, order) and
    package helpers that are straight-line code (evaluated with their parameters bound)."""

    def __init__(self, ctx: Ctx):
        self.ctx, self.prog, self.res = ctx, ctx.prog, ctx.res

    # ------------------------------------------------------------ expressions
    def _scalar_env(self, env):
        return {k: v[1] for k, v in env.items() if v[0] == "scalar"}

    def byte_of(self, e: ast.expr, env, fn: FuncInfo):
        """One byte: its form, or a crc half when it is the low / high byte of a crc value."""
        crc_names = {k: v for k, v in env.items() if v[0] == "crc"}
        form = byte_form(self.prog, fn.module, _subst(e, self._scalar_env(env)))
        m = re.fullmatch(r"(hi|lo)\((\w+)\)", form)
        if m and m.group(2) in crc_names:
            return ("crc-" + m.group(1), tuple(crc_names[m.group(2)][1]))
        return form

    def ev(self, e: ast.expr, env, fn: FuncInfo, depth: int = 0):
        prog = self.prog
        if isinstance(e, ast.Name):
            if e.id in env:
                return env[e.id]
            if e.id in fn.params:
                return ("scalar", e)
            return ("scalar", e)
        if isinstance(e, ast.BinOp) and isinstance(e.op, ast.Add):
            l, r = self.ev(e.left, env, fn, depth), self.ev(e.right, env, fn, depth)
            if l[0] == "bytes" and r[0] == "bytes":
                return ("bytes", list(l[1]) + list(r[1]))
            if l[0] == "bytes" or r[0] == "bytes":
                other = r if l[0] == "bytes" else l
                if other[0] == "scalar" and isinstance(other[1], ast.Name):
                    seg = [("payload", other[1].id)]
                    return ("bytes", (list(l[1]) + seg) if l[0] == "bytes" else (seg + list(r[1])))
                raise AnalysisError("%s concatenates bytes with %s" % (fn.short, norm(e)[:60]))
            return ("scalar", _subst(e, self._scalar_env(env)))
        if isinstance(e, ast.Call):
            name = norm(e.func)
            if name in ("bytes", "bytearray") and len(e.args) == 1 and not e.keywords:
                a = e.args[0]
                if isinstance(a, (ast.Tuple, ast.List)):
                    return ("bytes", [self.byte_of(x, env, fn) for x in a.elts])
                v = self.ev(a, env, fn, depth)
                if v[0] == "bytes":
                    return ("bytes", list(v[1]))
                try:
                    n = prog.consteval(_subst(a, self._scalar_env(env)), fn.module)
                    if isinstance(n, int) and name == "bytearray" or isinstance(n, int):
                        return ("bytes", ["const:0"] * n)
                    if isinstance(n, (bytes, bytearray)):
                        return ("bytes", ["const:%d" % b for b in n])        # bytearray(b"\x00\x01...")
                except NotConst:
                    pass
                if v[0] == "scalar" and isinstance(v[1], ast.Name):
                    return ("bytes", [("payload", v[1].id)])
                raise AnalysisError("%s: %s is not understood by the frame builder analysis" % (fn.short, norm(e)[:60]))
            if name in ("struct.pack", "pack") and e.args and not e.keywords:
                # struct.pack(">HH", a, b)  ==  a.to_bytes(2, 'big') + b.to_bytes(2, 'big')  (unsigned codes only; both
                # refuse a value outside the field: struct.error / OverflowError)
                try:
                    fmt = prog.consteval(e.args[0], fn.module)
                except NotConst:
                    fmt = None
                if isinstance(fmt, str) and re.fullmatch(r"[<>!]?[HB]+", fmt) and (fmt[0] in "<>!" or set(fmt) <= {"B"}):
                    order = "little" if fmt[0] == "<" else "big"
                    codes = fmt.lstrip("<>!")
                    if len(codes) == len(e.args) - 1:
                        segs: List = []
                        for c_, a_ in zip(codes, e.args[1:]):
                            tb = ast.Call(func=ast.Attribute(value=a_, attr="to_bytes", ctx=ast.Load()),
                                          args=[ast.Constant(value=2 if c_ == "H" else 1), ast.Constant(value=order)], keywords=[])
                            ast.copy_location(tb, e)
                            ast.fix_missing_locations(tb)
                            v_ = self.ev(tb, env, fn, depth)
                            segs.extend(v_[1])
                        return ("bytes", segs)
                raise AnalysisError("%s: %s is not understood by the frame builder analysis" % (fn.short, norm(e)[:60]))
            if name == "_modbus_checksum" and len(e.args) == 1:
                v = self.ev(e.args[0], env, fn, depth)
                if v[0] != "bytes":
                    raise AnalysisError("%s: checksum of %s" % (fn.short, norm(e.args[0])))
                return ("crc", list(v[1]))
            if isinstance(e.func, ast.Attribute) and e.func.attr == "to_bytes":
                recv = e.func.value
                args = list(e.args)
                if isinstance(recv, ast.Name) and recv.id == "int" and args:
                    recv, args = args[0], args[1:]
                kw = {k.arg: k.value for k in e.keywords}
                n_e = args[0] if args else kw.get("length")
                o_e = args[1] if len(args) > 1 else kw.get("byteorder")
                try:
                    n = prog.consteval(n_e, fn.module) if n_e is not None else None
                    order = prog.consteval(o_e, fn.module) if o_e is not None else "big"
                except NotConst:
                    n = order = None
                rv = self.ev(recv, env, fn, depth)
                if n == 2 and order in ("big", "little"):
                    if rv[0] == "crc":
                        halves = [("crc-hi", tuple(rv[1])), ("crc-lo", tuple(rv[1]))]
                    else:
                        x = _subst(recv, self._scalar_env(env))
                        masked = isinstance(x, ast.BinOp) and isinstance(x.op, ast.BitAnd) and any(_const(prog, fn, s_) == 0xFFFF for s_ in (x.left, x.right))
                        inner = (x.left if _const(prog, fn, x.right) == 0xFFFF else x.right) if masked else x
                        t = norm(inner)
                        halves = ["hi(%s)" % t, "lo(%s)" % t] if masked else ["tobytes-hi(%s)" % t, "tobytes-lo(%s)" % t]
                        r0 = recv
                        if isinstance(r0, ast.BinOp) and isinstance(r0.op, ast.BitAnd):
                            r0 = r0.left if _const(prog, fn, r0.right) == 0xFFFF else (r0.right if _const(prog, fn, r0.left) == 0xFFFF else r0)
                        if isinstance(r0, ast.Name) and env.get(r0.id, ("",))[0] == "crc":
                            halves = [("crc-hi", tuple(env[r0.id][1])), ("crc-lo", tuple(env[r0.id][1]))]          # (crc & 0xFFFF).to_bytes(2, ...)
                    return ("bytes", halves if order == "big" else halves[::-1])
                if n == 1:
                    return ("bytes", ["raw(%s)" % norm(_subst(recv, self._scalar_env(env)))])
                raise AnalysisError("%s: %s is not understood by the frame builder analysis" % (fn.short, norm(e)[:60]))
            # package helper: straight-line body evaluated with its parameters bound
            ct = self.res.resolve_call(e, fn)
            if len(ct.funcs) == 1 and not ct.funcs[0].is_lambda and depth < 4 and ct.ctor is None:
                g = ct.funcs[0]
                genv = {}
                for pn in g.params:
                    a = arg_for(e, g, pn)
                    if a is not None:
                        genv[pn] = self.ev(a, env, fn, depth)
                        if genv[pn][0] == "scalar":
                            genv[pn] = ("scalar", _subst(a, self._scalar_env(env)))
                r = self.run(g, genv, depth + 1)
                if r is not None:
                    return r
            return ("scalar", _subst(e, self._scalar_env(env)))
        return ("scalar", _subst(e, self._scalar_env(env)))

    # ------------------------------------------------------------- statements
    def run(self, fn: FuncInfo, env, depth: int = 0):
        """Value returned by the straight-line function *fn* (None when it returns nothing)."""
        env = dict(env)
        for st in fn.node.body:
            if isinstance(st, ast.Expr) and isinstance(st.value, ast.Constant):
                continue
            if isinstance(st, (ast.Import, ast.ImportFrom)):
                continue
            if isinstance(st, (ast.Assign, ast.AnnAssign)) and getattr(st, "value", None) is not None:
                tgt = st.targets[0] if isinstance(st, ast.Assign) else st.target
                if isinstance(tgt, ast.Name):
                    env[tgt.id] = self.ev(st.value, env, fn, depth)
                    continue
                if isinstance(tgt, ast.Subscript) and isinstance(tgt.value, ast.Name) and env.get(tgt.value.id, ("",))[0] == "bytes" \
                        and not isinstance(tgt.slice, ast.Slice):
                    try:
                        idx = self.prog.consteval(_subst(tgt.slice, self._scalar_env(env)), fn.module)
                    except NotConst:
                        raise AnalysisError("%s stores at a non-constant index %s" % (fn.short, norm(tgt.slice)))
                    segs = list(env[tgt.value.id][1])
                    if not (0 <= idx < len(segs)) or any(isinstance(x, tuple) and x[0] == "payload" for x in segs[:idx + 1]):
                        raise AnalysisError("%s stores into byte %s outside the fixed part of the frame" % (fn.short, idx))
                    segs[idx] = self.byte_of(st.value, env, fn)
                    env[tgt.value.id] = ("bytes", segs)
                    continue
                if isinstance(tgt, (ast.Tuple, ast.List)) and all(isinstance(t_, ast.Subscript) and isinstance(t_.value, ast.Name) and env.get(t_.value.id, ("",))[0] == "bytes"
                                                                  and not isinstance(t_.slice, ast.Slice) for t_ in tgt.elts):
                    # data[2], data[3] = hi, lo   /   = _split_word(offset)  (a helper returning a tuple of byte expressions)
                    val = st.value
                    if isinstance(val, ast.Call):
                        from ..astutil import inline_pure_calls
                        val = inline_pure_calls(self.res, fn, val)
                    if isinstance(val, ast.Call) and isinstance(val.func, ast.Name) and val.func.id == "divmod" and len(val.args) == 2 and not val.keywords \
                            and len(tgt.elts) == 2 and _const(self.prog, fn, val.args[1]) == 256:
                        # hi, lo = divmod(x, 256)   ==   x >> 8, x & 0xFF  (floor division, any sign)
                        x_ = val.args[0]
                        val = ast.Tuple(elts=[ast.BinOp(left=x_, op=ast.RShift(), right=ast.Constant(value=8)),
                                              ast.BinOp(left=x_, op=ast.BitAnd(), right=ast.Constant(value=0xFF))], ctx=ast.Load())
                        ast.copy_location(val, st.value)
                        ast.fix_missing_locations(val)
                    val = _subst(val, self._scalar_env(env)) if not isinstance(val, (ast.Tuple, ast.List)) else val
                    if not isinstance(val, (ast.Tuple, ast.List)) or len(val.elts) != len(tgt.elts):
                        raise AnalysisError("statement %s of %s is not understood by the frame builder analysis" % (norm(st)[:60], fn.short))
                    for t_, v_ in zip(tgt.elts, val.elts):
                        try:
                            idx = self.prog.consteval(_subst(t_.slice, self._scalar_env(env)), fn.module)
                        except NotConst:
                            raise AnalysisError("%s stores at a non-constant index %s" % (fn.short, norm(t_.slice)))
                        segs = list(env[t_.value.id][1])
                        if not (0 <= idx < len(segs)) or any(isinstance(x, tuple) and x[0] == "payload" for x in segs[:idx + 1]):
                            raise AnalysisError("%s stores into byte %s outside the fixed part of the frame" % (fn.short, idx))
                        segs[idx] = self.byte_of(v_, env, fn)
                        env[t_.value.id] = ("bytes", segs)
                    continue
                if isinstance(tgt, ast.Subscript) and isinstance(tgt.value, ast.Name) and env.get(tgt.value.id, ("",))[0] == "bytes" \
                        and isinstance(tgt.slice, ast.Slice) and tgt.slice.step is None:
                    # data[a:b] = <byte string of b - a bytes>  (e.g. (x & 0xFFFF).to_bytes(2, 'big'), a constant header)
                    segs = list(env[tgt.value.id][1])
                    try:
                        lo = self.prog.consteval(_subst(tgt.slice.lower, self._scalar_env(env)), fn.module) if tgt.slice.lower is not None else 0
                        hi = self.prog.consteval(_subst(tgt.slice.upper, self._scalar_env(env)), fn.module) if tgt.slice.upper is not None else len(segs)
                    except NotConst:
                        raise AnalysisError("%s stores at a non-constant slice %s" % (fn.short, norm(tgt.slice)))
                    v = self.ev(st.value, env, fn, depth)
                    if v[0] == "scalar":
                        try:
                            cv = self.prog.consteval(v[1], fn.module)
                            if isinstance(cv, (bytes, bytearray)):
                                v = ("bytes", ["const:%d" % b for b in cv])
                        except NotConst:
                            pass
                    if v[0] != "bytes" or not (0 <= lo <= hi <= len(segs)) or len(v[1]) != hi - lo \
                            or any(isinstance(x, tuple) and x[0] == "payload" for x in segs[:hi] + list(v[1])):
                        raise AnalysisError("statement %s of %s is not understood by the frame builder analysis" % (norm(st)[:60], fn.short))
                    segs[lo:hi] = list(v[1])
                    env[tgt.value.id] = ("bytes", segs)
                    continue
            if isinstance(st, ast.AugAssign) and isinstance(st.op, ast.Add) and isinstance(st.target, ast.Name) and env.get(st.target.id, ("",))[0] == "bytes":
                v = self.ev(st.value, env, fn, depth)
                if v[0] == "scalar" and isinstance(v[1], ast.Name):
                    v = ("bytes", [("payload", v[1].id)])
                if v[0] != "bytes":
                    raise AnalysisError("%s: %s" % (fn.short, norm(st)[:60]))
                env[st.target.id] = ("bytes", list(env[st.target.id][1]) + list(v[1]))
                continue
            if isinstance(st, ast.Expr) and isinstance(st.value, ast.Call) and isinstance(st.value.func, ast.Attribute) \
                    and isinstance(st.value.func.value, ast.Name) and env.get(st.value.func.value.id, ("",))[0] == "bytes" and len(st.value.args) == 1:
                buf, m, a = st.value.func.value.id, st.value.func.attr, st.value.args[0]
                segs = list(env[buf][1])
                if m == "append":
                    segs.append(self.byte_of(a, env, fn))
                    env[buf] = ("bytes", segs)
                    continue
                if m == "extend":
                    v = self.ev(a, env, fn, depth)
                    if v[0] == "bytes":
                        segs.extend(v[1])
                    elif v[0] == "scalar" and isinstance(v[1], ast.Name):
                        segs.append(("payload", v[1].id))
                    else:
                        raise AnalysisError("%s extends the frame with %s" % (fn.short, norm(a)[:60]))
                    env[buf] = ("bytes", segs)
                    continue
            if isinstance(st, ast.Expr) and isinstance(st.value, ast.Call):
                # a helper that mutates the buffer it is given (appends the checksum): evaluate it on the same value
                ct = self.res.resolve_call(st.value, fn)
                bufs = [a.id for a in st.value.args if isinstance(a, ast.Name) and env.get(a.id, ("",))[0] == "bytes"]
                if len(ct.funcs) == 1 and len(bufs) == 1 and depth < 4:
                    g = ct.funcs[0]
                    genv = {}
                    bparam = None
                    for pn in g.params:
                        a = arg_for(st.value, g, pn)
                        if a is None:
                            continue
                        if isinstance(a, ast.Name) and a.id == bufs[0]:
                            bparam = pn
                        genv[pn] = self.ev(a, env, fn, depth)
                    sub = _BytesEval(self.ctx)
                    out_env = sub._run_env(g, genv, depth + 1)
                    if bparam is not None and out_env is not None and out_env.get(bparam, ("",))[0] == "bytes":
                        env[bufs[0]] = out_env[bparam]
                        continue
            if isinstance(st, ast.Return):
                return self.ev(st.value, env, fn, depth) if st.value is not None else None
            raise AnalysisError("statement %s of %s is not understood by the frame builder analysis" % (norm(st)[:60], fn.short))
        self._last_env = env
        return None

    def _run_env(self, fn, env, depth):
        self._last_env = None
        saved = dict(env)
        r = self.run(fn, env, depth)
        if r is not None:
            # the helper returned a value: the mutated buffer is the returned bytes when it is bytes(<param>)
            return None
        return self._last_env


def build_frame(ctx: Ctx, fn: FuncInfo) -> Tuple[List[str], Optional[str], List[str], Optional[str]]:
    """(fixed bytes, name of the extended payload or None, trailer bytes, crc variable)"""
    v = _BytesEval(ctx).run(fn, {})
    if v is None or v[0] != "bytes":
        raise AnalysisError("%s does not return bytes(<frame>)" % fn.short)
    segs = list(v[1])
    pay = [i for i, x in enumerate(segs) if isinstance(x, tuple) and x[0] == "payload"]
    if len(pay) > 1:
        raise AnalysisError("%s puts more than one caller-supplied byte string into the frame" % fn.short)
    cut = pay[0] if pay else None
    crcs = [i for i, x in enumerate(segs) if isinstance(x, tuple) and x[0].startswith("crc-")]
    body_end = crcs[0] if crcs else len(segs)
    fixed = segs[:cut] if cut is not None else segs[:body_end]
    payload = segs[cut][1] if cut is not None else None
    trailer_raw = segs[cut + 1:] if cut is not None else segs[body_end:]
    if any(isinstance(x, tuple) for x in fixed):
        raise AnalysisError("%s: a checksum byte precedes the end of the header" % fn.short)
    crc = None
    trailer = []
    for k, x in enumerate(trailer_raw):
        if isinstance(x, tuple) and x[0].startswith("crc-"):
            covered = list(x[1])
            before = segs[:(cut + 1 if cut is not None else body_end) + [j for j, y in enumerate(trailer_raw) if isinstance(y, tuple) and y[0].startswith("crc-")][0]]
            ok = covered == before
            crc = "checksum:" + ("after-all" if ok and (crc is None or crc.endswith("after-all")) else "early")
            trailer.append("%s(checksum)" % x[0][4:])
        else:
            trailer.append(x)
    return [str(x) for x in fixed], payload, trailer, crc


def _flat_concat(e: ast.expr) -> List[str]:
    """Operands of a string concatenation, adjacent literals merged."""
    if isinstance(e, ast.BinOp) and isinstance(e.op, ast.Add):
        parts = _flat_concat(e.left) + _flat_concat(e.right)
    elif isinstance(e, ast.JoinedStr):
        parts = []
        for v in e.values:
            parts.extend(_flat_concat(v) if isinstance(v, ast.Constant) else ["{%s}" % norm(v)])
    elif isinstance(e, ast.Constant) and isinstance(e.value, str):
        parts = [("lit", e.value)]
    else:
        parts = [norm(e)]
    out: List = []
    for p_ in parts:
        if isinstance(p_, tuple) and out and isinstance(out[-1], tuple):
            out[-1] = ("lit", out[-1][1] + p_[1])
        else:
            out.append(p_)
    return out


def _header_checksum_ok(init: FuncInfo) -> bool:
    """super().__init__(bytes.fromhex(S + self._checksum(bytes.fromhex(S)).hex()), ...) with S = 'AA55C07F' + payload,
    locals expanded."""
    from ..astutil import single_assignments
    local = single_assignments(init.node)
    sup = [n for n in ast.walk(init.node) if isinstance(n, ast.Call) and isinstance(n.func, ast.Attribute) and n.func.attr == "__init__"
           and isinstance(n.func.value, ast.Call) and norm(n.func.value.func) == "super"]
    if len(sup) != 1 or not sup[0].args:
        return False
    req = sup[0].args[0]
    for _ in range(4):
        req = _subst(req, local)
    def hexsrc(e):
        return e.args[0] if isinstance(e, ast.Call) and norm(e.func) == "bytes.fromhex" and len(e.args) == 1 else None
    if isinstance(req, ast.BinOp) and isinstance(req.op, ast.Add) and hexsrc(req.left) is not None:
        # bytes form: fromhex(S) + self._checksum(fromhex(S))
        ck = req.right
        if not (isinstance(ck, ast.Call) and (call_chain(ck) or ("",))[-1] == "_checksum" and len(ck.args) == 1 and hexsrc(ck.args[0]) is not None):
            return False
        sent, summed = _flat_concat(hexsrc(req.left)), _flat_concat(hexsrc(ck.args[0]))
        return sent == summed and bool(sent) and isinstance(sent[0], tuple) and sent[0][1].upper().startswith("AA55C07F")
    if not (isinstance(req, ast.Call) and norm(req.func) == "bytes.fromhex" and len(req.args) == 1):
        return False
    body = req.args[0]
    if not (isinstance(body, ast.BinOp) and isinstance(body.op, ast.Add)):
        return False
    tail = body.right
    # <checksum call>.hex()
    if not (isinstance(tail, ast.Call) and isinstance(tail.func, ast.Attribute) and tail.func.attr == "hex" and isinstance(tail.func.value, ast.Call)
            and (call_chain(tail.func.value) or ("",))[-1] == "_checksum" and len(tail.func.value.args) == 1):
        return False
    inner = tail.func.value.args[0]
    if not (isinstance(inner, ast.Call) and norm(inner.func) == "bytes.fromhex" and len(inner.args) == 1):
        return False
    sent, summed = _flat_concat(body.left), _flat_concat(inner.args[0])
    return sent == summed and bool(sent) and isinstance(sent[0], tuple) and sent[0][1].upper().startswith("AA55C07F")


REFERENCE_FRAMES = {
    # name: (fixed bytes, payload, trailer)
    "create_modbus_rtu_request": (["raw(comm_addr)", "raw(cmd)", "hi(offset)", "lo(offset)", "hi(value)", "lo(value)"], None, ["lo(checksum)", "hi(checksum)"]),
    "create_modbus_tcp_request": (["const:0", "TX", "const:0", "const:0", "const:0", "const:6", "raw(comm_addr)", "raw(cmd)", "hi(offset)", "lo(offset)", "hi(value)", "lo(value)"], None, []),
    "create_modbus_rtu_multi_request": (["raw(comm_addr)", "raw(cmd)", "hi(offset)", "lo(offset)", "const:0", "raw(len(values) // 2)", "raw(len(values))"], "values", ["lo(checksum)", "hi(checksum)"]),
    "create_modbus_tcp_multi_request": (["const:0", "TX", "const:0", "const:0", "const:0", "raw(7 + len(values))", "raw(comm_addr)", "raw(cmd)", "hi(offset)", "lo(offset)", "const:0",
                                         "raw(len(values) // 2)", "raw(len(values))"], "values", []),
}


def r1(ctx: Ctx, rep: Report):
    prog = ctx.prog
    for name, (want_fixed, want_payload, want_trailer) in REFERENCE_FRAMES.items():
        fn = prog.func("modbus." + name)
        rep.analysed_add("functions", fn.qualname)
        fixed, payload, trailer, crc = build_frame(ctx, fn)
        problems = []
        if len(fixed) != len(want_fixed):
            problems.append("header is %d bytes, reference %d" % (len(fixed), len(want_fixed)))
        for i, (g, w) in enumerate(zip(fixed, want_fixed)):
            if w == "TX":
                continue      # transaction id low byte: replaced by request_bytes (R4)
            if _same_byte(prog, fn, g, w):
                continue
            problems.append("byte %d is %s, reference %s" % (i, g, w))
        if payload != want_payload:
            problems.append("payload %s, reference %s" % (payload, want_payload))
        tr = [t.replace(crc.split(":")[0], "checksum") if crc else t for t in trailer]
        if tr != want_trailer:
            problems.append("trailer %s, reference %s (CRC low byte first)" % (tr, want_trailer))
        if want_trailer and (crc is None or not crc.endswith("after-all")):
            problems.append("the CRC is not computed over all preceding bytes of the frame")
        # TCP length word = number of bytes that follow the length field
        if "tcp" in name:
            total_fixed = len(fixed)
            follow = total_fixed - 6
            lw = fixed[5] if len(fixed) > 5 else "?"
            want = "const:%d" % follow if payload is None else "raw(%d + len(values))" % follow
            if not _same_byte(prog, fn, lw, want):
                problems.append("length field is %s but %s bytes follow" % (lw, want))
        rep.check(not problems, "C03.R1", "layout:%s" % name, fn.loc(), "%s builds the reference frame (%d fixed bytes%s%s)" % (name, len(fixed), " + values" if payload else "", " + CRC" if trailer else ""),
                  bad="%s: %s" % (name, "; ".join(problems)))


def _same_byte(prog, fn, got: str, want: str) -> bool:
    if got == want:
        return True
    # raw(a + b) vs raw(b + a): compare as linear forms
    mg, mw = re.fullmatch(r"raw\((.*)\)", got or ""), re.fullmatch(r"raw\((.*)\)", want or "")
    if mg and mw:
        try:
            s = Sym.for_function(prog, fn)
            return s.lin(ast.parse(mg.group(1), mode="eval").body) == s.lin(ast.parse(mw.group(1), mode="eval").body)
        except SyntaxError:
            return False
    return False


# ----------------------------------------------------------------- bounds
class Bounds:
    """Small interval reasoner over call-site arguments."""

    def __init__(self, ctx: Ctx):
        self.ctx = ctx
        self.tabs = tables_ctx(ctx)
        self._depth = 0

    def enc_lengths(self) -> List[int]:
        """Lengths encode_value can produce: 2 x ceil(size_/2) over the settings rows."""
        return sorted({2 * ((r.size_ + r.size_ % 2) // 2) for (f, a), rows in self.tabs.tables.items() if self.tabs.is_settings_table(a) for r in rows if r.size_ > 0})

    def of(self, e: ast.expr, fn: FuncInfo, facts: List[Fact], sym: Sym, depth: int = 0) -> Tuple[Optional[int], Optional[int], str]:
        prog = self.ctx.prog
        try:
            v = prog.consteval(e, fn.module, sym._cenv)
            if hasattr(v, "value") and not isinstance(v, (int, str)):
                v = v.value
            if isinstance(v, bool):
                v = int(v)
            if isinstance(v, int):
                return v, v, "constant"
        except NotConst:
            pass
        if isinstance(e, ast.IfExp):
            a, b = self.of(e.body, fn, facts, sym, depth), self.of(e.orelse, fn, facts, sym, depth)
            return _lo(a[0], b[0]), _hi(a[1], b[1]), "conditional"
        if isinstance(e, ast.BinOp):
            if isinstance(e.op, ast.BitAnd):
                for x in (e.left, e.right):
                    try:
                        m = prog.consteval(x, fn.module)
                        if isinstance(m, int) and m >= 0:
                            return 0, m, "masked with 0x%X" % m
                    except NotConst:
                        pass
            l, r = self.of(e.left, fn, facts, sym, depth), self.of(e.right, fn, facts, sym, depth)
            if isinstance(e.op, ast.Add) and None not in (l[0], r[0], l[1], r[1]):
                return l[0] + r[0], l[1] + r[1], "sum"
            if isinstance(e.op, ast.Sub) and None not in (l[0], r[0], l[1], r[1]):
                return l[0] - r[1], l[1] - r[0], "difference"
            if isinstance(e.op, ast.FloorDiv) and r[0] == r[1] and r[0] and r[0] > 0 and None not in (l[0], l[1]):
                return l[0] // r[0], l[1] // r[0], "quotient"
            if isinstance(e.op, ast.RShift) and r[0] == r[1] and r[0] is not None and 0 <= r[0] <= 64 and None not in (l[0], l[1]):
                return l[0] >> r[0], l[1] >> r[0], "shifted right"
            if isinstance(e.op, ast.Mult) and None not in (l[0], r[0], l[1], r[1]):
                c = [l[0] * r[0], l[0] * r[1], l[1] * r[0], l[1] * r[1]]
                return min(c), max(c), "product"
            if isinstance(e.op, ast.Mod) and r[0] == r[1] and r[0] and r[0] > 0:
                return 0, r[0] - 1, "modulo"
            return None, None, "arithmetic %s" % type(e.op).__name__
        if isinstance(e, ast.Call):
            name = norm(e.func)
            if name == "len" and e.args:
                ls = self.enc_lengths()
                return 0, max(ls + [4]), "length of an encoded setting (%s)" % ls
            if name == "abs" and e.args:
                a = self.of(e.args[0], fn, facts, sym, depth)
                if None not in (a[0], a[1]):
                    return 0, max(abs(a[0]), abs(a[1])), "abs"
                return 0, None, "abs"
            if name == "int" and e.args:
                return self.of(e.args[0], fn, facts, sym, depth)
            if name == "sum" and len(e.args) == 1 and isinstance(e.args[0], ast.Call) and norm(e.args[0].func) == "divmod" and len(e.args[0].args) == 2:
                # sum(divmod(a, b)) = a // b + a % b
                a_, b_ = e.args[0].args
                return self.of(ast.BinOp(left=ast.BinOp(left=a_, op=ast.FloorDiv(), right=b_), op=ast.Add(), right=ast.BinOp(left=a_, op=ast.Mod(), right=b_)), fn, facts, sym, depth)
            if name == "int.from_bytes" and e.args:
                signed = any(k.arg == "signed" and _const(prog, fn, k.value) is True for k in e.keywords)
                return (-32768, 32767, "int.from_bytes(<=2 bytes, signed)") if signed else (0, 65535, "int.from_bytes(<=2 bytes, unsigned)")
            if name.endswith(".encode_power") and e.args:
                a = self.of(e.args[0], fn, facts, sym, depth)
                if None not in (a[0], a[1]):
                    return min(a[0] * 10, a[0] // 10, a[0]), max(a[1] * 10, a[1]), "ScheduleType.encode_power (x1, x10 or /10)"
        if isinstance(e, ast.Attribute):
            if e.attr == "offset":
                # settings routed to AA55 (offset <= 30000) or any setting
                offs = [r.offset for (f, a), rows in self.tabs.tables.items() if self.tabs.is_settings_table(a) for r in rows]
                if fn.cls is not None and fn.cls.name == "ES":
                    offs = [r.offset for (f, a), rows in self.tabs.tables.items() if f == "ES" and self.tabs.is_settings_table(a) for r in rows]
                return min(offs), max(offs), "offsets of the settings tables"
            if e.attr == "size_":
                sizes = [r.size_ for r in self.tabs.all_rows()]
                return min(sizes), max(sizes), "size_ of the table rows"
            if e.attr == "schedule_type" or norm(e).endswith("schedule_type.value"):
                return 0, 85, "ScheduleType members"
        if isinstance(e, ast.Name):
            # local assignment
            if e.id in sym.env:
                pass
            lo = hi = None
            t = Lin.of_term(("var", e.id))
            # facts: look for bounds lo <= x <= hi among small candidates
            for cand in (0, 1):
                if entails_ge(facts, t - Lin.of_const(cand)):
                    lo = cand
            for cand in (100, 255, 1000, 32767, 65535):
                if entails_ge(facts, Lin.of_const(cand) - t):
                    hi = cand
                    break
            if lo is not None or hi is not None:
                return lo, hi, "guarded parameter"
            # assigned locally from an expression
            assigns = [n.value for n in ast.walk(fn.node) if isinstance(n, ast.Assign) and any(isinstance(tg, ast.Name) and tg.id == e.id for tg in n.targets)]
            for n in ast.walk(fn.node):
                # q, r = divmod(a, b)
                if isinstance(n, ast.Assign) and len(n.targets) == 1 and isinstance(n.targets[0], ast.Tuple) and len(n.targets[0].elts) == 2 \
                        and isinstance(n.value, ast.Call) and norm(n.value.func) == "divmod" and len(n.value.args) == 2:
                    for k_, tg in enumerate(n.targets[0].elts):
                        if isinstance(tg, ast.Name) and tg.id == e.id:
                            assigns.append(ast.BinOp(left=n.value.args[0], op=ast.FloorDiv() if k_ == 0 else ast.Mod(), right=n.value.args[1]))
            if assigns:
                lo = hi = None
                first = True
                for a in assigns:
                    b = self.of(a, fn, facts, sym, depth)
                    lo = b[0] if first else _lo(lo, b[0])
                    hi = b[1] if first else _hi(hi, b[1])
                    first = False
                return lo, hi, "local %s" % e.id
            if e.id in fn.params and depth < 3:
                return self.param(fn, e.id, depth + 1)
        return None, None, "unknown (%s)" % norm(e)[:40]

    def param(self, fn: FuncInfo, pname: str, depth: int) -> Tuple[Optional[int], Optional[int], str]:
        """Union of the bounds of the arguments bound to pname at every call site of fn."""
        res = self.ctx.res
        lo = hi = None
        first = True
        why = []
        sites = res.callers_of(fn)
        if not sites:
            return None, None, "public parameter %s (no caller in the package)" % pname
        for ct in sites:
            a = arg_for(ct.node, fn, pname)
            if a is None:
                continue
            caller = ct.caller
            facts: List[Fact] = []
            sym = Sym.for_function(self.ctx.prog, caller)
            # facts dominating the call site: take the path facts of the first path reaching it
            if not caller.is_lambda and caller.name != "<module>":
                for p in enumerate_paths(self.ctx.prog, caller, no_raise):
                    idx = [i for i, ev in enumerate(p.events) if ev.kind == "call" and ev.node is ct.node]
                    if idx:
                        r = Replay(self.ctx.prog, caller, p)
                        facts = r.facts_before(idx[0])
                        sym = r.sym_at(idx[0])
                        break
            b = self.of(a, caller, facts, sym, depth)
            why.append("%s: %s in [%s, %s] (%s)" % (caller.short, norm(a)[:30], b[0], b[1], b[2]))
            lo = b[0] if first else _lo(lo, b[0])
            hi = b[1] if first else _hi(hi, b[1])
            first = False
        return lo, hi, "; ".join(why)[:400]


def _lo(a, b):
    return None if a is None or b is None else min(a, b)


def _hi(a, b):
    return None if a is None or b is None else max(a, b)


def _const(prog, fn, e):
    try:
        return prog.consteval(e, fn.module)
    except NotConst:
        return None


# ----------------------------------------------------------------- R2 / R3
def template_parts(js: ast.expr) -> Optional[List[Tuple[str, object]]]:
    """[('lit', 'AB..'), ('field', (expr, ndigits)), ('hexbytes', expr)] of a payload expression."""
    if isinstance(js, ast.Constant) and isinstance(js.value, str):
        return [("lit", js.value)]
    if isinstance(js, ast.BinOp) and isinstance(js.op, ast.Add):
        l, r = template_parts(js.left), template_parts(js.right)
        return None if l is None or r is None else l + r
    if isinstance(js, ast.Call) and isinstance(js.func, ast.Attribute) and js.func.attr == "hex" and not js.args:
        tb = js.func.value
        if isinstance(tb, ast.Call) and isinstance(tb.func, ast.Attribute) and tb.func.attr == "to_bytes":
            # X.to_bytes(N, 'big').hex() is the field {X:0(2N)x} (for X in range; a larger X raises instead of widening)
            kw = {k.arg: k.value for k in tb.keywords}
            n_e = tb.args[0] if tb.args else kw.get("length")
            o_e = tb.args[1] if len(tb.args) > 1 else kw.get("byteorder")
            sg = kw.get("signed")
            if isinstance(n_e, ast.Constant) and isinstance(n_e.value, int) and (o_e is None or (isinstance(o_e, ast.Constant) and o_e.value == "big")) \
                    and (sg is None or (isinstance(sg, ast.Constant) and sg.value is False)):
                return [("field", (tb.func.value, 2 * n_e.value))]
        return [("hexbytes", js.func.value)]
    if isinstance(js, ast.Call) and isinstance(js.func, ast.Name) and js.func.id == "format" and len(js.args) == 2 and isinstance(js.args[1], ast.Constant) \
            and isinstance(js.args[1].value, str) and re.fullmatch(r"0(\d+)x", js.args[1].value):
        return [("field", (js.args[0], int(js.args[1].value[1:-1])))]          # format(x, '04x')
    if isinstance(js, ast.Call) and isinstance(js.func, ast.Attribute) and js.func.attr == "format" and isinstance(js.func.value, ast.Constant) \
            and isinstance(js.func.value.value, str) and not js.keywords:
        # '0335{:04x}{:02x}'.format(a, b): automatic numbering only
        out, args, pos = [], list(js.args), 0
        for lit, fld in re.findall(r"([^{}]*)(\{[^{}]*\})?", js.func.value.value):
            if lit:
                out.append(("lit", lit))
            if fld:
                m = re.fullmatch(r"\{:0(\d+)x\}", fld)
                if not m or pos >= len(args):
                    return None
                out.append(("field", (args[pos], int(m.group(1)))))
                pos += 1
        return out if pos == len(args) else None
    if isinstance(js, ast.JoinedStr):
        out = []
        for v in js.values:
            if isinstance(v, ast.Constant):
                out.append(("lit", str(v.value)))
            elif isinstance(v, ast.FormattedValue):
                spec = v.format_spec.values[0].value if v.format_spec is not None and v.format_spec.values and isinstance(v.format_spec.values[0], ast.Constant) else None
                if spec is None:
                    if isinstance(v.value, ast.Call) and isinstance(v.value.func, ast.Attribute) and v.value.func.attr == "hex":
                        out += template_parts(v.value)          # {x.hex()} / {X.to_bytes(N, 'big').hex()}
                        continue
                    return None
                m = re.fullmatch(r"0(\d+)x", spec)
                if not m:
                    return None
                out.append(("field", (v.value, int(m.group(1)))))
            else:
                return None
        return out
    return None


def r2_r3(ctx: Ctx, rep: Report):
    prog, res = ctx.prog, ctx.res
    bounds = Bounds(ctx)
    target = prog.cls("Aa55ProtocolCommand")
    init = target.methods["__init__"]
    sites = aa55_construction_sites(prog, res)
    nfields = ntemplates = 0
    for fn, call in sites:
        payload = arg_for(call, init, "payload")
        if payload is not None and template_parts(payload) is None:
            payload = expand_locals(payload, fn.node)        # payload = '..' + format(..) + ..; super().__init__(payload, ..)
        if payload is not None and template_parts(payload) is None:
            from ..astutil import inline_pure_calls           # '032c05' + self._payload_helper(a, b, ..)
            payload = inline_pure_calls(ctx.res, fn, payload, guards=True)
        parts = template_parts(payload) if payload is not None else None
        key = "%s:%s" % (fn.short, norm(payload)[:40] if payload is not None else "?")
        if parts is None:
            raise AnalysisError("%s builds an AA55 payload (%s) the template analysis does not understand (%s)" % (fn.short, norm(payload)[:60] if payload is not None else "?", fn.loc(call)))
        ntemplates += 1
        # ---- R3 length byte
        digits = 0
        sym_bytes: List[str] = []
        lits = ""
        ok_hex = True
        for kind, p in parts:
            if kind == "lit":
                digits += len(p)
                lits += p
                if not re.fullmatch(r"[0-9a-fA-F]*", p):
                    ok_hex = False
            elif kind == "field":
                digits += p[1]
            else:
                sym_bytes.append(norm(expand_locals(p, fn.node)))        # (the encoded bytes may be held in a local first)
        head = ""
        for kind, p in parts:
            if kind == "lit":
                head += p
            else:
                break
        problems = []
        if not ok_hex or len(head) < 6:
            problems.append("payload does not start with three literal bytes (control, function, length)")
        else:
            announced = int(head[4:6], 16)
            fixed_follow = (digits - 6)
            if fixed_follow % 2:
                problems.append("odd number of hex digits")
            follow = fixed_follow // 2
            if sym_bytes:
                # length of the variable part: encoded settings routed here
                lens = _routed_lengths(ctx, fn, sym_bytes[0])
                if not lens:
                    problems.append("cannot bound the length of %s" % sym_bytes[0])
                elif any(follow + l != announced for l in lens):
                    problems.append("length byte 0x%02X but %d fixed + %s variable bytes follow" % (announced, follow, sorted(lens)))
            elif follow != announced:
                problems.append("length byte 0x%02X but %d bytes follow" % (announced, follow))
        rep.check(not problems, "C03.R3", "template:" + key, fn.loc(call), "AA55 payload %s: length byte matches the bytes that follow" % head[:6],
                  bad="%s: AA55 payload %s: %s" % (fn.short, norm(payload)[:70], "; ".join(problems)))
        # ---- R2 every interpolated field fits its width
        for kind, p in parts:
            if kind != "field":
                continue
            expr, nd = p
            nfields += 1
            facts: List[Fact] = []
            sym = Sym.for_function(prog, fn)
            if fn.name != "<module>" and not fn.is_lambda:
                for path in enumerate_paths(prog, fn, no_raise):
                    idx = [i for i, ev in enumerate(path.events) if ev.kind == "call" and ev.node is call]
                    if idx:
                        r = Replay(prog, fn, path)
                        facts, sym = r.facts_before(idx[0]), r.sym_at(idx[0])
                        break
            lo, hi, why = bounds.of(expr, fn, facts, sym)
            limit = 16 ** nd - 1
            fkey = "field:%s:%s:%s" % (fn.short, norm(expr), nd)
            # a masked field carries its argument (mod 16^digits) only if the mask keeps every bit of the field
            if isinstance(expr, ast.BinOp) and isinstance(expr.op, ast.BitAnd):
                mk = next((m for m in (_const(prog, fn, expr.left), _const(prog, fn, expr.right)) if isinstance(m, int)), None)
                if mk is not None:
                    rep.check(mk == limit, "C03.R2", "mask:%s:%s:%s" % (fn.short, norm(expr), nd), fn.loc(call), "{%s:0%dx}: the mask keeps all %d bits of the field" % (norm(expr), nd, 4 * nd),
                              bad="%s interpolates {%s:0%dx}: the mask 0x%X is not 0x%X, so the field does not carry the argument's two's complement (bits are dropped)" % (fn.short, norm(expr), nd, mk, limit))
            # a field computed from one argument alone (value & 0xFFFF, value % 65536 ...) carries that argument's two's
            # complement: checked by evaluating the expression for boundary values of the argument, negative ones included
            free = {x.id for x in ast.walk(expr) if isinstance(x, ast.Name) and isinstance(x.ctx, ast.Load)}
            if len(free) == 1 and not isinstance(expr, ast.Name) and next(iter(free)) in fn.params and not any(isinstance(x, (ast.Call, ast.Attribute, ast.Subscript)) for x in ast.walk(expr)):
                pn = next(iter(free))
                half = 16 ** nd // 2
                samples = sorted({v for b in (0, 1, 2, 127, 128, 255, 256, 0x7FFE, 0x7FFF, half - 1, half, 16 ** nd - 2, 16 ** nd - 1) for v in (b, -b, -b - 1) if -half <= v <= 16 ** nd - 1})
                wrong = None
                try:
                    for v in samples:
                        got = prog.consteval(expr, fn.module, {pn: v})
                        if not isinstance(got, int) or got % (16 ** nd) != v % (16 ** nd):
                            wrong = (v, got)
                            break
                except NotConst:
                    wrong = None
                rep.check(wrong is None, "C03.R2", "twos-complement:%s:%s:%s" % (fn.short, norm(expr), nd), fn.loc(call),
                          "{%s:0%dx} equals %s modulo 16^%d for the boundary values of the argument (%d samples, negative ones included)" % (norm(expr), nd, pn, nd, len(samples)),
                          bad="%s interpolates {%s:0%dx}: for %s = %s the field is %s, not %s's two's complement 0x%0*X" % (
                              fn.short, norm(expr), nd, pn, wrong[0] if wrong else "", ("0x%X" % wrong[1]) if wrong and isinstance(wrong[1], int) and wrong[1] >= 0 else (wrong[1] if wrong else ""), pn,
                              nd, (wrong[0] % (16 ** nd)) if wrong else 0))
            if lo is None or lo < 0:
                rep.violation("C03.R2", fkey, fn.loc(call), "%s interpolates {%s:0%dx} whose value may be negative (%s): format() yields a '-' and the frame cannot even be built (bytes.fromhex fails)" % (
                    fn.short, norm(expr), nd, why))
            elif hi is None:
                rep.note("C03.R2: %s: {%s:0%dx} has no upper bound in the package (%s) - outside the property's argument domain" % (fn.short, norm(expr), nd, why))
                rep.ok("C03.R2", fkey, fn.loc(call), "{%s:0%dx} is non-negative; no upper bound stated by the property" % (norm(expr), nd))
            else:
                rep.check(hi <= limit, "C03.R2", fkey, fn.loc(call), "{%s:0%dx} in [%d, %d] fits %d hex digits (%s)" % (norm(expr), nd, lo, hi, nd, why[:80]),
                          bad="%s interpolates {%s:0%dx} with values up to %d > 0x%X: the frame grows by a digit and its length byte no longer matches (%s)" % (fn.short, norm(expr), nd, hi, limit, why[:120]))
    if ntemplates < 14:
        raise AnalysisError("only %d AA55 payload templates found" % ntemplates)
    if nfields < 10:
        raise AnalysisError("only %d interpolated AA55 fields found" % nfields)
    # header and checksum over the same string
    ok = _header_checksum_ok(init)
    rep.check(ok, "C03.R3", "header-checksum", init.loc(), "frame = C07F header + payload + checksum of exactly that prefix",
              bad="Aa55ProtocolCommand.__init__: the checksum is not computed over the same 'AA55C07F' + payload string that is sent")
    ck = target.methods.get("_checksum")
    rets = [n for n in ast.walk(ck.node) if isinstance(n, ast.Return)]
    s = Sym.for_function(prog, ck)
    from ..paths import enumerate_paths as ep
    rp = Replay(prog, ck, ep(prog, ck)[0], s)
    t = rp.sym.lin(rets[0].value).single_term() if rets else None
    okc = t is not None and t[0] == "tobytes" and t[2] == 2 and t[3] == "big" and not t[4] and "sum" in repr(t[1])
    rep.check(okc, "C03.R3", "checksum-form", ck.loc(), "request checksum = plain byte sum as 2 big-endian unsigned bytes",
              bad="Aa55ProtocolCommand._checksum is not the plain byte sum in 2 big-endian unsigned bytes")


def _routed_lengths(ctx: Ctx, fn: FuncInfo, name: str) -> List[int]:
    """Lengths of the bytes object interpolated with .hex(): encoded settings that reach this constructor."""
    prog = ctx.prog
    tabs = tables_ctx(ctx)
    if fn.cls is not None and fn.cls.name == "Aa55WriteMultiCommand":
        # ES routes to AA55 the settings with offset <= 30000 whose encoding is longer than 2 bytes
        es_rows = [r for (f, a), rows in tabs.tables.items() if f == "ES" and tabs.is_settings_table(a) for r in rows]
        routed = [r for r in es_rows if r.offset <= 30000 and r.size_ > 2 and "encode_value" in {m for c in prog.mro(r.cls) if hasattr(c, "methods") for m in c.methods}]
        return sorted({2 * ((r.size_ + r.size_ % 2) // 2) for r in routed})
    if "encode_value" in name or "Timestamp" in name:
        return [6]
    return []


# ----------------------------------------------------------------- R2 Modbus raw bytes
def r2_modbus(ctx: Ctx, rep: Report):
    prog = ctx.prog
    bounds = Bounds(ctx)
    for name in REFERENCE_FRAMES:
        fn = prog.func("modbus." + name)
        fixed, payload, trailer, crc = build_frame(ctx, fn)
        for i, b in enumerate(fixed + trailer):
            m = re.fullmatch(r"(raw|unmasked-hi)\((.*)\)", b)
            if not m:
                continue
            expr = ast.parse(m.group(2), mode="eval").body
            key = "byte:%s:%d:%s" % (name, i, m.group(2))
            if m.group(2) in ("comm_addr",):
                rep.note("C03.R2: %s stores the caller-supplied comm_addr unmasked: assumed in 0..255 (it is the inverter's bus address)" % name)
                rep.ok("C03.R2", key, fn.loc(), "comm_addr is the configured bus address (assumed 0..255)")
                continue
            if m.group(2) == "cmd":
                doms = _cmd_values(ctx, fn)
                rep.check(bool(doms) and all(0 <= v <= 255 for v in doms), "C03.R2", key, fn.loc(), "function code in %s" % sorted(doms),
                          bad="%s is called with a function code outside 0..255: %s" % (name, sorted(doms)))
                continue
            sym = Sym.for_function(prog, fn)
            lo, hi, why = bounds.of(expr, fn, [], sym)
            if m.group(1) == "unmasked-hi":
                rep.violation("C03.R2", key, fn.loc(), "%s stores (%s >> 8) without masking: a negative or large argument raises ValueError instead of being sent in two's complement" % (name, m.group(2)))
                continue
            rep.check(lo is not None and hi is not None and lo >= 0 and hi <= 255, "C03.R2", key, fn.loc(), "%s in [%s, %s] fits a byte (%s)" % (m.group(2), lo, hi, why[:60]),
                      bad="%s stores %s in [%s, %s] into one byte (%s)" % (name, m.group(2), lo, hi, why[:100]))


def _cmd_values(ctx: Ctx, fn: FuncInfo):
    out = set()
    for ct in ctx.res.callers_of(fn):
        a = arg_for(ct.node, fn, "cmd")
        v = _const(ctx.prog, ct.caller, a) if a is not None else None
        if v is None:
            return set()
        out.add(v)
    return out


# ----------------------------------------------------------------- R4
def _meet(ivs: List[Tuple[int, int]], f: Fact, var: Tuple) -> Optional[List[Tuple[int, int]]]:
    """Restrict the intervals of the counter by one linear fact over it; None when the fact is not linear in the counter."""
    if f.kind not in ("eq", "ne", "ge") or f.lin is None:
        return None
    l = f.lin
    if set(l.terms) - {var}:
        return None
    a = l.terms.get(var, 0)
    if a == 0:
        holds = (l.const == 0) if f.kind == "eq" else (l.const != 0) if f.kind == "ne" else (l.const >= 0)
        return ivs if holds else []
    out: List[Tuple[int, int]] = []
    import math
    for lo, hi in ivs:
        if f.kind == "ge":      # a*x + b >= 0
            if a > 0:
                lo2, hi2 = max(lo, math.ceil(-l.const / a)), hi
            else:
                lo2, hi2 = lo, min(hi, math.floor(-l.const / a))
            if lo2 <= hi2:
                out.append((lo2, hi2))
        else:
            pt = -l.const / a
            if pt.denominator != 1:
                if f.kind == "ne":
                    out.append((lo, hi))
                continue
            pt = int(pt)
            if f.kind == "eq":
                if lo <= pt <= hi:
                    out.append((pt, pt))
            else:
                if pt < lo or pt > hi:
                    out.append((lo, hi))
                else:
                    if lo <= pt - 1:
                        out.append((lo, pt - 1))
                    if pt + 1 <= hi:
                        out.append((pt + 1, hi))
    return out


def _next_tx_invariant(ctx: Ctx, fn: FuncInfo) -> Tuple[bool, str]:
    """The counter update as a guarded transition system (one guard + linear update per path of _next_tx): find an
    interval [L, H] within [0, 0xFFFF] that contains the initial value, is closed under every transition, and whose
    transitions all produce a value in [1, 0xFFFF] different from the previous one, returned as 2 unsigned big-endian bytes."""
    prog = ctx.prog
    globs = [n for st in ast.walk(fn.node) if isinstance(st, ast.Global) for n in st.names]
    if len(globs) != 1:
        return False, "expected one module-level counter, found %s" % globs
    name = globs[0]
    var = ("var", name)
    b = fn.module.scope.get(name)
    init = _const(prog, fn, b[1]) if b and b[0] == "const" else None
    if not isinstance(init, int):
        return False, "initial value of %s is not a constant" % name
    trans = []
    consts = {init}
    for p in enumerate_paths(prog, fn, no_raise):
        if p.end != "return" or p.end_node.value is None:
            return False, "a path does not return the transaction id"
        rp = Replay(prog, fn, p)
        final = rp.sym.env.get(name)
        if final is None:
            return False, "a path returns without changing the counter"
        final = final if isinstance(final, Lin) else Lin.of_term(final)
        if set(final.terms) - {var} or final.terms.get(var, 0) not in (0, 1):
            return False, "the update %r is not 'counter + constant' or a constant" % final
        tb = rp.sym.lin(p.end_node.value).single_term()
        inner = None
        if tb is not None and tb[0] == "tobytes":
            inner = tb[1][1] if tb[1][0] == "lin" else Lin.of_term(tb[1])
        if not (tb is not None and tb[0] == "tobytes" and tb[2] == 2 and tb[3] == "big" and not tb[4] and inner == final):
            return False, "the result is not the new counter value as 2 big-endian unsigned bytes"
        for f in rp.facts:
            if f.lin is not None and var in f.lin.terms:
                pt = -f.lin.const / f.lin.terms[var]
                if pt.denominator == 1:
                    consts |= {int(pt) - 1, int(pt), int(pt) + 1}
        if final.is_const():
            consts.add(int(final.const))
        trans.append((rp.facts, final, p))
    if not trans:
        return False, "no path"
    cands = sorted(c for c in consts if 0 <= c <= 0xFFFF)
    reason = "no interval [L, H] in [0, 0xFFFF] containing the initial value %d is closed under the update" % init
    for L in [c for c in cands if c <= init]:
        for H in [c for c in cands if c >= init][::-1]:
            good = True
            covered: List[Tuple[int, int]] = []
            for facts, final, p in trans:
                ivs: Optional[List[Tuple[int, int]]] = [(L, H)]
                for f in facts:
                    ivs = _meet(ivs, f, var)
                    if ivs is None:
                        return False, "a test of the counter is not a linear comparison (%r)" % f
                d = final.terms.get(var, 0)
                for lo, hi in ivs:
                    covered.append((lo, hi))
                    nlo, nhi = (lo * d + int(final.const), hi * d + int(final.const)) if d else (int(final.const), int(final.const))
                    if not (max(L, 1) <= nlo and nhi <= H and nhi <= 0xFFFF):
                        good = False
                        reason = "from [%d, %d] the path [%s] produces [%d, %d], outside [1, 0x%X]" % (lo, hi, p.describe(), nlo, nhi, min(H, 0xFFFF))
                    elif d == 1 and final.const == 0:
                        good = False
                        reason = "the path [%s] does not change the id" % p.describe()
                    elif d == 0 and lo <= nlo <= hi:
                        good = False
                        reason = "at the wrap the id %d is issued twice in a row (path [%s])" % (nlo, p.describe())
            if good:
                return True, "tx stays in [%d, %d] from %d on, every call issues a different non-zero 16-bit id" % (max(L, 1), H, init)
    return False, reason


def _inline_tx_counter(ctx: Ctx, rep: Report) -> bool:
    """The transaction id kept and advanced inside ModbusTcpProtocolCommand.request_bytes itself (no _next_tx function):
    the counter must be ONE cell for the whole process (a module global or an attribute of an explicitly named class - not
    of type(self) / self, which gives one counter per concrete command class / per command), and its update, followed from
    the initial value through a full cycle, must always produce a non-zero 16-bit value different from the previous one."""
    import copy
    prog = ctx.prog
    tcp = prog.cls("ModbusTcpProtocolCommand")
    rb = tcp.methods.get("request_bytes")
    if rb is None:
        return False
    aliases = {}
    update = splice = None
    for st in rb.node.body:
        if isinstance(st, ast.Assign) and len(st.targets) == 1 and isinstance(st.targets[0], ast.Name) and isinstance(st.value, (ast.Call, ast.Attribute)) \
                and norm(st.value) in ("type(self)", "self.__class__"):
            aliases[st.targets[0].id] = st.value
        elif isinstance(st, (ast.Assign, ast.AugAssign)):
            tgt = st.targets[0] if isinstance(st, ast.Assign) else st.target
            if norm(tgt) == "self.request":
                splice = st
            elif update is None and isinstance(tgt, (ast.Attribute, ast.Name)):
                update = st
    if update is None or splice is None:
        return False
    cell = update.targets[0] if isinstance(update, ast.Assign) else update.target
    v = splice.value
    okshape = isinstance(v, ast.BinOp) and isinstance(v.op, ast.Add) and isinstance(v.right, ast.Subscript) and isinstance(v.right.slice, ast.Slice) \
        and norm(v.right.value) == "self.request" and v.right.slice.lower is not None and _const(prog, rb, v.right.slice.lower) == 2 and v.right.slice.upper is None
    sym = Sym.for_function(prog, rb)
    tb = sym.lin(v.left).single_term() if okshape else None
    okshape = okshape and tb is not None and tb[0] == "tobytes" and tb[2] == 2 and tb[3] == "big" and not tb[4] and \
        (tb[1][1] if tb[1][0] == "lin" else Lin.of_term(tb[1])) == sym.lin(cell)
    rep.check(okshape, "C03.R4", "stamp:%s" % rb.short, rb.loc(splice), "%s splices the counter, as 2 unsigned big-endian bytes, over bytes [0:2] of the frame" % rb.short,
              bad="%s: the new transaction id is not spliced as <counter>.to_bytes(2, 'big') + <frame>[2:]" % rb.short)
    # one cell
    recv = cell.value if isinstance(cell, ast.Attribute) else None
    if recv is None:
        single = any(isinstance(n, ast.Global) and cell.id in n.names for n in ast.walk(rb.node))
        where = "the local name %s" % cell.id
        init_e = (rb.module.scope.get(cell.id) or (None, None))[1] if single else None
    else:
        r0 = aliases.get(recv.id, recv) if isinstance(recv, ast.Name) else recv
        b = prog.lookup(rb.module, r0.id) if isinstance(r0, ast.Name) else None
        single = bool(b and b[0] == "class")
        where = norm(r0)
        owner = b[1] if single else tcp
        init_e = next((c.class_attrs[cell.attr] for c in prog.mro(owner) if isinstance(c, ClassInfo) and cell.attr in c.class_attrs), None)
    rep.check(single, "C03.R4", "one-counter", rb.loc(update), "the transaction counter is one cell (%s)" % norm(cell),
              bad="the transaction counter is stored on %s: every concrete command class (read / write / write-multi) - or every command object - counts on its own, "
                  "so consecutive transmissions of different kinds can carry the same transaction id" % where)
    # the update, followed from the initial value
    init = _const(prog, rb, init_e) if init_e is not None else None
    if not isinstance(init, int):
        rep.violation("C03.R4", "next-tx", rb.loc(update), "the initial value of the transaction counter %s is not a constant" % norm(cell))
        return True
    if isinstance(update, ast.AugAssign):
        expr = ast.BinOp(left=copy.deepcopy(cell), op=update.op, right=update.value)
    else:
        expr = update.value
    key = norm(cell)

    class Put(ast.NodeTransformer):
        def __init__(self, c):
            self.c = c

        def generic_visit(self, n):
            if isinstance(n, (ast.Attribute, ast.Name)) and norm(n) == key:
                return ast.Constant(value=self.c)
            return super().generic_visit(n)
    cur, why, seen = init, "", set()
    for _ in range(0x10000 + 2):
        try:
            nxt = prog.consteval(ast.fix_missing_locations(Put(cur).visit(copy.deepcopy(expr))), rb.module)
        except NotConst:
            raise AnalysisError("the transaction counter update %s cannot be evaluated" % norm(expr))
        if not isinstance(nxt, int) or not (1 <= nxt <= 0xFFFF):
            why = "from %d the update %s produces %r, not a non-zero 16-bit id" % (cur, norm(expr), nxt)
            break
        if nxt == cur:
            why = "the update %s leaves the id %d unchanged" % (norm(expr), cur)
            break
        if nxt in seen:
            break
        seen.add(nxt)
        cur = nxt
    rep.check(not why, "C03.R4", "next-tx", rb.loc(update), "the counter update %s yields a different non-zero 16-bit id on every transmission (%d values followed from %d)" % (norm(expr), len(seen), init),
              bad="transaction counter: %s" % why)
    return True


def r4(ctx: Ctx, rep: Report):
    prog = ctx.prog
    inline = not prog.has_func("protocol._next_tx") and _inline_tx_counter(ctx, rep)
    if not inline:
        fn = prog.func("protocol._next_tx")
        ok, why = _next_tx_invariant(ctx, fn)
        rep.check(ok, "C03.R4", "next-tx", fn.loc(), "_next_tx: %s" % why, bad="_next_tx: %s: the transaction id may become 0, repeat, or overflow two bytes" % why)
    # the id is renewed for every transmission: every _next_tx() call site splices the id over bytes [0:2] of the frame and
    # lies in a function the TCP _send_request reaches before its transport write (request_bytes of the Modbus/TCP commands)
    res = ctx.res
    tcp = prog.cls("ModbusTcpProtocolCommand")
    tcp_proto = [ci for ci in proto_classes(ctx) if any(isinstance(b, str) and b == "asyncio.Protocol" for b in prog.mro(ci))]
    if not tcp_proto:
        raise AnalysisError("no stream protocol class found")
    sr = method(ctx, tcp_proto[0], "_send_request")
    reach = res.reachable([sr])
    sites = [(f, n) for f in res.all_funcs() for n in res._own_nodes(f) if isinstance(n, ast.Call) and norm(n.func) == "_next_tx"] if not inline else []
    if not sites and not inline:
        rep.violation("C03.R4", "stamp-sites", fn.loc(), "_next_tx() is never called: Modbus/TCP frames keep the placeholder transaction id")
    for f, n in sites:
        from ..astutil import single_assignments
        local = single_assignments(f.node)
        spliced = False
        for st in ast.walk(f.node):
            if isinstance(st, (ast.Assign, ast.Return)) and st.value is not None:
                x = _subst(_subst(st.value, local), local)
                if isinstance(x, ast.BinOp) and isinstance(x.op, ast.Add) and isinstance(x.left, ast.Call) and norm(x.left.func) == "_next_tx" \
                        and isinstance(x.right, ast.Subscript) and isinstance(x.right.slice, ast.Slice) and x.right.slice.lower is not None \
                        and _const(prog, f, x.right.slice.lower) == 2 and x.right.slice.upper is None \
                        and (isinstance(st, ast.Return) or any(norm(t) == norm(x.right.value) for t in st.targets)):
                    spliced = True
        per_send = f in reach
        rep.check(spliced and per_send, "C03.R4", "stamp:%s" % f.short, f.loc(n), "%s splices a fresh transaction id over bytes [0:2] on the path of every transmission" % f.short,
                  bad="%s: %s" % (f.short, "the new transaction id is not spliced as _next_tx() + <frame>[2:]" if not spliced else
                                  "the transaction id is renewed in %s, which %s does not run for each transmission: a retransmission repeats the id of the lost frame" % (f.short, sr.short)))
    # every path of the stream protocol's _send_request renews the id before it writes
    stampers = {f.qualname for f, _ in sites} if not inline else {tcp.methods["request_bytes"].qualname}
    for p in enumerate_paths(prog, sr, no_raise):
        sends = [i for i, ev in enumerate(p.events) if ev.kind == "call" and "send" in tags(ev)]
        if not sends:
            continue
        renewed = False
        for ev in p.events[:sends[0]]:
            if ev.kind != "call":
                continue
            if norm(ev.node.func) == "_next_tx":
                renewed = True
            ct = res.resolve_call(ev.node, sr)
            tcp_targets = [c for c in ct.funcs if c.cls is None or not prog.is_subclass(c.cls, prog.cls("ProtocolCommand")) or prog.is_subclass(c.cls, tcp)]
            if tcp_targets and all(any(g.qualname in stampers for g in res.reachable([c])) for c in tcp_targets):
                renewed = True
        rep.check(renewed, "C03.R4", "renew-per-send:%s:%s" % (sr.short, p.describe()), sr.loc(), "%s renews the transaction id before the write" % sr.short,
                  bad="%s writes a Modbus/TCP frame without renewing its transaction id on this path [path %s]" % (sr.short, p.describe()))
    # exactly one request_bytes() per transport write, before it
    for ci in proto_classes(ctx):
        sr = method(ctx, ci, "_send_request")
        for p in enumerate_paths(prog, sr, no_raise):
            rbs = [i for i, ev in enumerate(p.events) if ev.kind == "call" and (call_chain(ev.node) or ("",))[-1] == "request_bytes"]
            sends = [i for i, ev in enumerate(p.events) if ev.kind == "call" and "send" in tags(ev)]
            okp = len(rbs) == 1 and len(sends) == 1 and rbs[0] < sends[0]
            sent = p.events[sends[0]].node.args[0] if sends and p.events[sends[0]].node.args else None
            if okp and isinstance(sent, ast.Name):
                okp = _derives_from_request_bytes(p, sends[0], sent.id)
            elif okp:
                okp = sent is not None and _expr_from_request_bytes(p, sends[0], sent, 0)
            rep.check(okp, "C03.R4", "stamp-per-send:%s:%s" % (sr.short, p.describe()), sr.loc(), "%s sends the bytes of one request_bytes() call" % sr.short,
                      bad="%s does not send the result of exactly one command.request_bytes() call per transmission (retransmissions must carry a new transaction id) [path %s]" % (sr.short, p.describe()))


def _is_rb(x) -> bool:
    return isinstance(x, ast.Call) and (call_chain(x) or ("",))[-1] == "request_bytes"


def _expr_from_request_bytes(p, upto: int, v: ast.expr, depth: int, skip: str = "") -> bool:
    """The expression *v*, evaluated before event *upto*, contains the result of a request_bytes() call: directly,
    through a local, or as the value an inlined helper returns."""
    if any(_is_rb(x) for x in ast.walk(v)):
        return True
    for x in ast.walk(v):
        if isinstance(x, ast.Call):
            k = next((k for k in range(upto - 1, -1, -1) if p.events[k].kind == "exit" and p.events[k].node is x), None)
            if k is None:
                continue
            d = 0
            for m in range(k - 1, -1, -1):
                e = p.events[m]
                if e.kind == "exit":
                    d += 1
                elif e.kind == "enter":
                    if d == 0:
                        break
                    d -= 1
                elif e.kind == "iret" and d == 0 and e.node.value is not None:
                    if _expr_from_request_bytes(p, m, e.node.value, depth + 1):
                        return True
                    break
    return any(_derives_from_request_bytes(p, upto, x.id, depth + 1) for x in ast.walk(v) if isinstance(x, ast.Name) and x.id != skip)


def _derives_from_request_bytes(p, upto: int, name: str, depth: int = 0) -> bool:
    """The value of *name* at event *upto* is computed (through the assignments on the path) from a request_bytes() call."""
    if depth > 8:
        return False
    for idx in range(upto - 1, -1, -1):
        ev = p.events[idx]
        if ev.kind == "stmt" and isinstance(ev.node, (ast.Assign, ast.AnnAssign)) and ev.node.value is not None \
                and any(isinstance(t, ast.Name) and t.id == name for t in (ev.node.targets if isinstance(ev.node, ast.Assign) else [ev.node.target])):
            v = ev.node.value
            return _expr_from_request_bytes(p, idx, v, depth, skip=name) or \
                any(isinstance(x, ast.Name) and x.id == name for x in ast.walk(v)) and _derives_from_request_bytes(p, idx, name, depth + 1)
    return False


def r7(ctx: Ctx, rep: Report):
    """The bus address a frame carries is the one the caller configured: the command factories read self._comm_addr
    (C03.R5); here: every assignment of that attribute in the protocol classes stores a constructor parameter
    unchanged, and the subclasses' constructors forward their own parameter to it."""
    from ..replay import Replay
    from ..astutil import self_store
    prog, res = ctx.prog, ctx.res
    base = prog.cls("InverterProtocol")
    attr = "_comm_addr"
    writers = []
    for ci in prog.all_subclasses(base, include_self=True):
        for m in ci.methods.values():
            if any(a == attr for n in ast.walk(m.node) if isinstance(n, ast.stmt) for a, _, _ in self_store(n)):
                writers.append(m)
    if not writers:
        raise AnalysisError("no method of the protocol classes assigns self.%s" % attr)
    target = ast.Attribute(value=ast.Name(id="self", ctx=ast.Load()), attr=attr, ctx=ast.Load())
    src_param = {}
    for m in writers:
        ok, why, pname = m.name == "__init__", "", None
        if not ok:
            why = "%s re-assigns self.%s after construction" % (m.short, attr)
        else:
            for p in enumerate_paths(prog, m, no_raise):
                if p.end == "raise":
                    continue
                rp = Replay(prog, m, p)
                t = rp.sym.lin(target).single_term()
                if t is None or t[0] != "var" or t[1] not in m.params[1:]:
                    ok, why = False, "%s stores %s, not the address it was given" % (m.short, next((norm(v) for n in ast.walk(m.node) if isinstance(n, ast.stmt) for a, v, _ in self_store(n) if a == attr and v is not None), "?"))
                    break
                pname = t[1]
        src_param[m] = pname
        rep.check(ok, "C03.R7", "address:%s" % m.short, m.loc(), "%s stores its parameter %s unchanged as self.%s" % (m.short, pname, attr),
                  bad="%s: requests then carry another bus address than the configured one" % why)
    # constructors of the subclasses hand their own address parameter on
    for m0, pname in src_param.items():
        if pname is None or m0.name != "__init__":
            continue
        pos = m0.params.index(pname) - 1
        for ci in prog.all_subclasses(m0.cls, include_self=False):
            sub = ci.methods.get("__init__")
            if sub is None:
                continue
            calls = [n for n in res._own_nodes(sub) if isinstance(n, ast.Call) and isinstance(n.func, ast.Attribute) and n.func.attr == "__init__"
                     and m0 in res.resolve_call(n, sub).funcs]
            for c in calls:
                off = 0 if isinstance(c.func.value, ast.Call) else 1      # super().__init__(...) vs Base.__init__(self, ...)
                a = c.args[pos + off] if len(c.args) > pos + off else next((k.value for k in c.keywords if k.arg == pname), None)
                ok = isinstance(a, ast.Name) and a.id in sub.params and not any(
                    isinstance(n, ast.Name) and n.id == a.id and isinstance(n.ctx, ast.Store) for n in ast.walk(sub.node))
                rep.check(ok, "C03.R7", "address:%s" % sub.short, sub.loc(c), "%s forwards its parameter %s" % (sub.short, norm(a) if a is not None else "?"),
                          bad="%s passes %s as the bus address to %s, not the address it was given" % (sub.short, norm(a) if a is not None else "nothing", m0.short))


def check(ctx: Ctx, rep: Report):
    rep.rule("C03.R7", "the bus address of the frames is the configured one: self._comm_addr is a constructor parameter stored unchanged and forwarded by the subclasses", 3)
    r7(ctx, rep)
    rep.rule("C03.R1", "the four Modbus request builders produce the reference frame layout", 4)
    rep.rule("C03.R6", "the transport is written only by _send_request (which renews the Modbus/TCP transaction id)", 2)
    from .proto import only_send_request_transmits as _shared_C03_R6, proto_classes as _pcs
    for _ci in _pcs(ctx):
        _shared_C03_R6(ctx, rep, "C03.R6", _ci)
    rep.rule("C03.R2", "every byte / hex field of a request is proven to fit (negative values in two's complement)", 20)
    rep.rule("C03.R3", "AA55 templates: length byte = bytes that follow; header and checksum over the same string", 16)
    rep.rule("C03.R4", "Modbus/TCP transaction id: non-zero, two bytes, changes on every transmission", 6)
    rep.rule("C03.R5", "each request sent is freshly built from the arguments of this call: the command factories return exactly one construction of the matching class with their own arguments (shared with C18.R1 factory:*)", 8)
    r1(ctx, rep)
    r2_modbus(ctx, rep)
    r2_r3(ctx, rep)
    r4(ctx, rep)
    from .c18 import factories, Wire
    sub = Report("C18", rep.tier)
    factories(ctx, sub, ctx.memo("wire", lambda: Wire(ctx)))
    for o in sub.obligations:
        rep.obligations.append(type(o)("C03.R5", o.key, o.where, o.what, o.status, o.detail))
