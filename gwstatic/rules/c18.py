"""C18 - reading never writes, and invalid setter arguments never reach the inverter."""
from __future__ import annotations

import ast
from typing import Dict, List, Optional, Set, Tuple

from .. import AnalysisError
from ..astutil import call_chain, chain, single_assignments
from ..calls import arg_for
from ..core import Ctx, Report
from ..model import FuncInfo, ClassInfo, NotConst, norm
from ..paths import enumerate_paths, no_raise, Path
from ..replay import Replay
from ..symx import Sym, Lin, Fact, entails_ge, contradicts

PID = "C18"
LEVEL = "other"
EXPLANATION = (
    "(R1) wire-effect analysis: every command construction site of the package is classified read / write / unknown (Modbus command "
    "classes by the function code they pass to their framing constructor, AA55 commands by the first payload byte 01 / 02 / 03, "
    "non-literal payloads and raw ProtocolCommand / send_command as unknown); command objects kept in attributes carry the class of "
    "their construction. From each read-only entry point (connect, discover, and per family read_device_info, read_runtime_data, "
    "read_sensor, read_setting, read_settings_data, get_grid_export_limit, get_operation_mode(s), get_ongrid_battery_dod) the set of "
    "functions reachable over the resolved call graph must neither construct nor send a write / unknown command; the setters are the "
    "positive control. (R2) guard dominance: on every path of a setter, each call that can reach a write is preceded by tests whose "
    "facts entail the documented domain of the argument (linear entailment), and the rejecting outcome raises ValueError where "
    "documented before any request. (R3) an unknown setting id raises ValueError without any request. The first sentence of the "
    "property is decided in full (reachability is a statement about code shape)."
    ' R1 also checks the factories the classification relies on: Inverter._read_command / _write_command / _write_multi_command return exactly self._protocol.<same factory>(<their arguments>), and the protocol factories return one fresh construction of the matching command class from self._comm_addr and their own arguments.'
    " (R4, shared with C08.R3) the tests that recognise 'register does not exist' compare against a reason text the validators produce, so a refused setting becomes an unknown id."
    ' R4 also requires _read_sensor to pop the refused setting from self._settings.'
    ' (R5, shared with C04.R11) what a read-only call transmits, first time and on every retry, is the request it built: send_request passes its own parameter on.'
)

READ_ONLY = ("read_device_info", "read_runtime_data", "read_sensor", "read_setting", "read_settings_data", "get_grid_export_limit",
             "get_operation_modes", "get_operation_mode", "get_ongrid_battery_dod")
SETTERS = ("write_setting", "set_grid_export_limit", "set_operation_mode", "set_ongrid_battery_dod")


class Wire:
    def __init__(self, ctx: Ctx):
        self.ctx = ctx
        prog, res = ctx.prog, ctx.res
        self.cmd_base = prog.cls("ProtocolCommand")
        self.class_kind: Dict[str, str] = {}
        self._classify_classes()
        self.sites: List[Tuple[FuncInfo, ast.Call, str, str]] = []   # (fn, call, kind, why)
        self.attr_kind: Dict[Tuple[str, str], str] = {}              # (class name, attr) -> kind of the command stored there
        self._collect_sites()
        self._reach_cache: Dict[str, Set[str]] = {}

    def _classify_classes(self):
        prog = self.ctx.prog
        rd = self._const("MODBUS_READ_CMD", 3)
        for ci in prog.all_subclasses(self.cmd_base, include_self=False):
            init = ci.methods.get("__init__")
            kind = None
            if init is not None:
                for n in ast.walk(init.node):
                    if isinstance(n, ast.Call) and isinstance(n.func, ast.Attribute) and n.func.attr == "__init__":
                        parent = prog.find_method(ci, "__init__", after=ci)
                        if parent is None:
                            continue
                        if "cmd" in parent.params:
                            a = arg_for(n, parent, "cmd")
                            try:
                                v = prog.consteval(a, ci.module) if a is not None else None
                            except NotConst:
                                v = None
                            if v is not None:
                                kind = "read" if v == rd else "write"
                        elif "payload" in parent.params:
                            a = arg_for(n, parent, "payload")
                            kind = self._payload_kind(a, ci.module)
            self.class_kind[ci.name] = kind or "framing"    # framing base classes are classified at their construction sites

    def _const(self, name, default):
        mod = self.ctx.prog.modules.get("goodwe.modbus")
        b = mod.scope.get(name) if mod else None
        try:
            return self.ctx.prog.consteval(b[1], mod) if b else default
        except NotConst:
            return default

    def _payload_kind(self, a: Optional[ast.expr], mod) -> str:
        """AA55: first payload byte 01 = read, 02 / 03 = write."""
        if a is None:
            return "unknown"
        head = None
        if isinstance(a, ast.Constant) and isinstance(a.value, str):
            head = a.value[:2]
        elif isinstance(a, ast.JoinedStr) and a.values and isinstance(a.values[0], ast.Constant):
            head = str(a.values[0].value)[:2]
        elif isinstance(a, ast.BinOp) and isinstance(a.op, ast.Add):
            return self._payload_kind(a.left, mod)
        elif isinstance(a, ast.Call) and isinstance(a.func, ast.Attribute) and a.func.attr == "format" and isinstance(a.func.value, ast.Constant) \
                and isinstance(a.func.value.value, str) and len(a.func.value.value.split("{")[0]) >= 2:
            head = a.func.value.value[:2]          # '011A03{:04x}{:02x}'.format(...): the literal prefix decides
        else:
            try:
                v = self.ctx.prog.consteval(a, mod)
                head = v[:2] if isinstance(v, str) else None
            except NotConst:
                head = None
        if head is None or len(head) < 2:
            return "unknown"
        return {"01": "read", "02": "write", "03": "write"}.get(head, "unknown")

    def site_kind(self, fn: FuncInfo, call: ast.Call) -> Optional[Tuple[str, str]]:
        """Kind of a call that constructs a command, or None."""
        prog, res = self.ctx.prog, self.ctx.res
        ct = res.resolve_call(call, fn)
        name = (call_chain(call) or ("",))[-1]
        if ct.ctor is not None and prog.is_subclass(ct.ctor, self.cmd_base):
            ci = ct.ctor
            if ci is self.cmd_base:
                return "unknown", "raw ProtocolCommand(%s)" % norm(call.args[0])[:40] if call.args else "raw ProtocolCommand"
            k = self.class_kind.get(ci.name, "unknown")
            if k == "framing":
                init = prog.find_method(ci, "__init__")
                if "payload" in init.params:
                    k = self._payload_kind(arg_for(call, init, "payload"), fn.module)
                else:
                    k = "unknown"
            return k, ci.name
        if name in ("_read_command", "read_command"):
            return "read", name
        if name in ("_write_command", "write_command", "_write_multi_command", "write_multi_command"):
            return "write", name
        return None

    def _collect_sites(self):
        prog, res = self.ctx.prog, self.ctx.res
        for fn in res.all_funcs():
            if fn.cls is not None and (prog.is_subclass(fn.cls, self.cmd_base) or prog.is_subclass(fn.cls, prog.cls("InverterProtocol"))):
                continue      # the command classes and protocol factories themselves
            if fn.cls is not None and fn.cls.name == "Inverter" and fn.name in ("_read_command", "_write_command", "_write_multi_command"):
                continue
            for n in res._own_nodes(fn):
                if isinstance(n, ast.Call):
                    k = self.site_kind(fn, n)
                    if k is not None:
                        self.sites.append((fn, n, k[0], k[1]))
        # commands kept in attributes (class level and __init__)
        for ci in prog.classes.values():
            for attr, value in ci.class_attrs.items():
                if isinstance(value, ast.Call):
                    k = self.site_kind(res.module_init(ci.module), value)
                    if k is not None:
                        self.attr_kind[(ci.name, attr)] = k[0]
            init = ci.methods.get("__init__")
            if init is not None:
                for n in ast.walk(init.node):
                    tgt = val = None
                    if isinstance(n, ast.AnnAssign) and n.value is not None:
                        tgt, val = n.target, n.value
                    elif isinstance(n, ast.Assign) and len(n.targets) == 1:
                        tgt, val = n.targets[0], n.value
                    if isinstance(tgt, ast.Attribute) and isinstance(val, ast.Call):
                        k = self.site_kind(init, val)
                        if k is not None:
                            self.attr_kind[(ci.name, tgt.attr)] = k[0]
        for mod in prog.modules.values():
            for name, b in mod.scope.items():
                if b[0] == "const" and isinstance(b[1], ast.Call):
                    k = self.site_kind(res.module_init(mod), b[1])
                    if k is not None:
                        self.attr_kind[("<module>", name)] = k[0]

    def effects_in(self, fn: FuncInfo) -> List[Tuple[ast.AST, str, str]]:
        """Write / unknown wire effects directly inside fn: constructions and uses of stored write commands."""
        out = []
        for f2, call, kind, why in self.sites:
            if f2 is fn and kind != "read":
                out.append((call, kind, why))
        for n in self.ctx.res._own_nodes(fn):
            if isinstance(n, ast.Attribute) and isinstance(n.ctx, ast.Load):
                for (cname, attr), kind in self.attr_kind.items():
                    if kind != "read" and n.attr == attr and cname != "<module>":
                        out.append((n, kind, "stored %s.%s" % (cname, attr)))
            if isinstance(n, ast.Name) and isinstance(n.ctx, ast.Load) and ("<module>", n.id) in self.attr_kind and self.attr_kind[("<module>", n.id)] != "read":
                out.append((n, self.attr_kind[("<module>", n.id)], "module constant %s" % n.id))
            if isinstance(n, ast.Call) and (call_chain(n) or ("",))[-1] == "send_command":
                out.append((n, "unknown", "send_command(raw bytes)"))
        return out

    def reaches_write(self, fn: FuncInfo) -> bool:
        return any(self.effects_in(g) for g in self.ctx.res.reachable([fn]))


def entry_points(ctx: Ctx) -> List[FuncInfo]:
    prog = ctx.prog
    out = []
    top = prog.modules["goodwe"]
    for n in ("connect", "discover"):
        b = top.scope.get(n)
        if not b or b[0] != "func":
            raise AnalysisError("goodwe.%s not found" % n)
        out.append(b[1])
    for fam in ("ET", "DT", "ES"):
        ci = prog.cls(fam)
        for n in READ_ONLY:
            m = prog.find_method(ci, n)
            if m is None or m.cls.name == "Inverter":
                raise AnalysisError("%s.%s not found" % (fam, n))
            out.append(m)
    return out


def check(ctx: Ctx, rep: Report):
    rep.rule("C18.R1", "no read-only entry point can reach the construction or use of a write / unknown command over the call graph; the command factories build what their name says", 38)
    rep.rule("C18.R2", "setter guards dominate every write-reaching call; documented rejections raise ValueError before any request", 9)
    rep.rule("C18.R3", "an unknown setting id raises ValueError without building a request", 3)
    rep.rule("C18.R4", "a setting the inverter reports as non-existent becomes an unknown id: the tests that recognise that refusal compare against a reason text the validators produce (shared with C08.R3)", 4)
    from .c08 import message_comparisons
    message_comparisons(ctx, rep, "C18.R4")
    rep.rule("C18.R5", "what a read-only call transmits - first time and on every retry - is the request it built itself: send_request passes its own parameter on, never the request left on the protocol object by an earlier call (shared with C04.R11)", 2)
    from .proto import retry_resends_own_command
    retry_resends_own_command(ctx, rep, "C18.R5")
    # ... and on that refusal the setting is dropped from self._settings (so a later write of it is an unknown id)
    from ..famstate import _illegal_choice
    for fam in ("ET", "DT"):
        rs = ctx.prog.cls(fam).methods.get("_read_sensor")
        if rs is None:
            raise AnalysisError("%s._read_sensor not found" % fam)
        bad, n = None, 0
        from .proto import protocol_paths
        for p in protocol_paths(ctx, rs):
            if not any(ev.kind == "test" and _illegal_choice(ev) == "illegal" for ev in p.events):
                continue
            n += 1
            pops = [ev for ev in p.events if ev.kind == "call" and (call_chain(ev.node) or ())[-2:] == ("_settings", "pop")
                    and ev.node.args and norm(ev.node.args[0]) == "%s.id_" % rs.params[1]]
            if not pops and bad is None:
                bad = p
        if n == 0:
            raise AnalysisError("%s._read_sensor: no path recognises ILLEGAL DATA ADDRESS" % fam)
        rep.check(bad is None, "C18.R4", "forget:%s" % fam, rs.loc(), "%s._read_sensor forgets a setting the inverter reports as non-existent" % fam,
                  bad="%s._read_sensor no longer removes a setting the inverter refused with ILLEGAL DATA ADDRESS from self._settings: it stays a known id and a later write of it is transmitted [path %s]" % (fam, bad.describe(6) if bad else ""))
    prog, res = ctx.prog, ctx.res
    wire = ctx.memo("wire", lambda: Wire(ctx))
    kinds = {}
    for fn, call, kind, why in wire.sites:
        kinds[kind] = kinds.get(kind, 0) + 1
    rep.analysed_add("construction_sites", "%s (attributes holding commands: %d)" % (kinds, len(wire.attr_kind)))
    if kinds.get("read", 0) < 15 or kinds.get("write", 0) < 10:
        raise AnalysisError("too few command construction sites classified: %s" % kinds)
    for ep in entry_points(ctx):
        reach = res.reachable([ep])
        bad = []
        for g in reach:
            for node, kind, why in wire.effects_in(g):
                bad.append((g, node, kind, why))
        rep.analysed_add("entry_points", "%s (%d functions reachable)" % (ep.qualname, len(reach)))
        if not bad:
            rep.ok("C18.R1", "readonly:%s" % ep.short, ep.loc(), "%s reaches only read commands (%d functions)" % (ep.short, len(reach)))
        for g, node, kind, why in bad[:5]:
            chain_ = _call_chain_to(res, ep, g)
            rep.violation("C18.R1", "readonly:%s->%s:%s" % (ep.short, g.short, norm(node)[:50]), g.loc(node),
                          "read-only call %s can reach a %s command (%s at %s in %s) via %s" % (ep.short, kind, why, g.loc(node), g.short, " -> ".join(chain_)))
    factories(ctx, rep, wire)
    # positive control
    for fam in ("ET", "DT", "ES"):
        ci = prog.cls(fam)
        for n in ("write_setting", "set_grid_export_limit"):
            m = prog.find_method(ci, n)
            if m is None or not wire.reaches_write(m):
                raise AnalysisError("positive control failed: %s.%s does not reach a write according to the classification" % (fam, n))
    r2(ctx, rep, wire)
    r3(ctx, rep, wire)


def factories(ctx: Ctx, rep: Report, wire: Wire):
    """The classification above trusts the names _read_command / read_command ...: each of these factories must hand
    back exactly the object one call of the matching constructor (or of the protocol's matching factory) builds - not,
    e.g., an object looked up in a cache that a write factory may have filled."""
    from ..astutil import inlined_body, alternatives, single_assignments
    prog, res = ctx.prog, ctx.res
    want = {"_read_command": "read_command", "_write_command": "write_command", "_write_multi_command": "write_multi_command"}
    inv = prog.cls("Inverter")

    def returns_of(fn):
        body = inlined_body(res, fn)
        fake = ast.Module(body=body, type_ignores=[])
        local = single_assignments(fake)
        out = []
        for st in body:
            for n in ast.walk(st):
                if isinstance(n, ast.Return):
                    out.extend(alternatives(n.value, local) if n.value is not None else [None])
        return out

    for name, target in want.items():
        fn = inv.methods.get(name)
        if fn is None:
            raise AnalysisError("Inverter.%s not found" % name)
        rets = returns_of(fn)
        ok = bool(rets) and all(isinstance(v, ast.Call) and call_chain(v) == ("self", "_protocol", target)
                                and [norm(a) for a in v.args] == fn.params[1:] and not v.keywords for v in rets)
        rep.check(ok, "C18.R1", "factory:Inverter.%s" % name, fn.loc(), "Inverter.%s returns self._protocol.%s(<its arguments>)" % (name, target),
                  bad="Inverter.%s does not simply return self._protocol.%s(%s) (returns %s): the command a caller gets is not determined by the factory it called" % (
                      name, target, ", ".join(fn.params[1:]), "; ".join(norm(v)[:60] if v is not None else "None" for v in rets)))
    base = prog.cls("InverterProtocol")
    kinds = {"read_command": "read", "write_command": "write", "write_multi_command": "write"}
    for ci in prog.all_subclasses(base, include_self=False):
        for name, kind in kinds.items():
            fn = ci.methods.get(name)
            if fn is None:
                continue
            rets = returns_of(fn)
            ks = [wire.site_kind(fn, v) if isinstance(v, ast.Call) else None for v in rets]
            ok = bool(rets) and all(k is not None and k[0] == kind for k in ks) and all(res.resolve_call(v, fn).ctor is not None for v in rets)
            # ... built from this object's bus address and this call's arguments, in this order
            ok = ok and all([norm(a) for a in v.args] == ["self._comm_addr"] + fn.params[1:] and not v.keywords for v in rets)
            rep.check(ok, "C18.R1", "factory:%s.%s" % (ci.name, name), fn.loc(), "%s.%s constructs a %s command" % (ci.name, name, kind),
                      bad="%s.%s does not return a freshly constructed %s command (returns %s)" % (
                          ci.name, name, kind, "; ".join(norm(v)[:60] if v is not None else "None" for v in rets)))


def _call_chain_to(res, src: FuncInfo, dst: FuncInfo) -> List[str]:
    """One call chain src -> ... -> dst (BFS)."""
    prev = {src.qualname: None}
    by = {src.qualname: src}
    queue = [src]
    while queue:
        f = queue.pop(0)
        if f is dst:
            break
        for c in res.callees(f):
            if c.qualname not in prev:
                prev[c.qualname] = f.qualname
                by[c.qualname] = c
                queue.append(c)
    out = []
    cur = dst.qualname
    while cur is not None and cur in prev:
        out.append(by[cur].short)
        cur = prev[cur]
    return list(reversed(out))


# ----------------------------------------------------------------------- R2
def _write_events(ctx: Ctx, wire: Wire, fn: FuncInfo, p: Path) -> List[int]:
    """Indices of events on the path that construct a write or call something that can reach one."""
    res = ctx.res
    out = []
    for i, ev in enumerate(p.events):
        if ev.kind not in ("call", "await"):
            continue
        node = ev.node if ev.kind == "call" else ev.node.value
        if not isinstance(node, ast.Call):
            continue
        if ev.kind == "call" and i + 1 < len(p.events) and p.events[i + 1].kind == "enter" and p.events[i + 1].node is node:
            continue      # a helper spliced into the path: its own events are judged, with the facts established inside it
        cur = p.fn_at(i, fn)
        k = wire.site_kind(cur, node)
        if k is not None and k[0] != "read":
            out.append(i)
            continue
        ct = res.resolve_call(node, cur)
        if any(wire.reaches_write(c) for c in ct.funcs):
            # creating a coroutine is no effect; the await is (both events exist for awaited calls: count once, at the call)
            if ev.kind == "call":
                out.append(i)
    return out


def _request_events(ctx: Ctx, fn: FuncInfo, p: Path) -> List[int]:
    res = ctx.res
    rfs = ctx.prog.cls("Inverter").methods["_read_from_socket"]
    out = []
    for i, ev in enumerate(p.events):
        if ev.kind == "call" and isinstance(ev.node, ast.Call):
            if i + 1 < len(p.events) and p.events[i + 1].kind == "enter" and p.events[i + 1].node is ev.node:
                continue
            ct = res.resolve_call(ev.node, p.fn_at(i, fn))
            if any(rfs in res.reachable([c]) for c in ct.funcs):
                out.append(i)
    return out


def r2(ctx: Ctx, rep: Report, wire: Wire):
    prog = ctx.prog
    specs = []
    for fam in ("ET", "DT", "ES"):
        ci = prog.cls(fam)
        specs.append((ci.methods.get("set_grid_export_limit"), {"export_limit": (0, None)}, None, False))
        if fam != "DT":
            specs.append((ci.methods.get("set_ongrid_battery_dod"), {"dod": (0, 100)}, None, False))
            specs.append((ci.methods.get("set_operation_mode"), {"eco_mode_power": (0, 100), "eco_mode_soc": (0, 100)}, ("ECO_CHARGE", "ECO_DISCHARGE"), True))
    es = prog.cls("ES")
    for n in ("_set_limit_power_for_charge", "_set_limit_power_for_discharge"):
        specs.append((es.methods.get(n), {"limit": (0, 100)}, None, True))
    for fn, domain, modes, valueerror in specs:
        if fn is None:
            raise AnalysisError("a setter named in the property is missing")
        rep.analysed_add("setters", fn.qualname)
        paths = enumerate_paths(prog, fn, no_raise)
        verdict = {"ok": True, "why": "", "n": 0, "nrej": 0}
        for p in paths:
            r = Replay(prog, fn, p)
            # only the branch of the emulated modes is constrained for set_operation_mode
            if modes is not None:
                in_branch = any(ev.kind == "test" and isinstance(ev.node, ast.Compare) and isinstance(ev.node.ops[0], ast.In) and ev.data is True
                                and all(m in norm(ev.node) for m in modes) for ev in p.events)
                if not in_branch:
                    from .c19 import mode_of_path as _mop          # (the same selection written as == ... or == ...)
                    _sel = _mop(ctx, p, fn.params[1])
                    in_branch = bool(_sel) and _sel <= set(modes)
                if not in_branch:
                    continue
            w = _write_events(ctx, wire, fn, p)
            sym = r.sym
            for i in w:
                verdict["n"] += 1
                facts = r.facts_before(i)
                for param, (lo, hi) in domain.items():
                    pv = Lin.of_term(("var", param))
                    if lo is not None and not entails_ge(facts, pv - Lin.of_const(lo)) and verdict["ok"]:
                        verdict.update(ok=False, why="%s reaches a write (%s) without having established %s >= %d [path %s]" % (
                            fn.short, norm(p.events[i].node)[:50], param, lo, p.describe(8)))
                    if hi is not None and not entails_ge(facts, Lin.of_const(hi) - pv) and verdict["ok"]:
                        verdict.update(ok=False, why="%s reaches a write (%s) without having established %s <= %d [path %s]" % (
                            fn.short, norm(p.events[i].node)[:50], param, hi, p.describe(8)))
            if valueerror and p.end != "raise" and verdict["ok"]:
                # a path that tested an argument out of its domain must not end silently
                dom = []
                for param, (lo, hi) in domain.items():
                    pv = Lin.of_term(("var", param))
                    if lo is not None:
                        dom.append(Fact("ge", pv - Lin.of_const(lo)))
                    if hi is not None:
                        dom.append(Fact("ge", Lin.of_const(hi) - pv))
                out_of_range = [f for f in r.facts if f.kind == "ge" and contradicts(dom, f)]
                if out_of_range:
                    verdict.update(ok=False, why="%s silently ignores an out-of-range argument (%r) instead of raising ValueError [path %s]" % (fn.short, out_of_range[0], p.describe(8)))
            if valueerror and p.end == "raise":
                verdict["nrej"] += 1
                reqs = _request_events(ctx, fn, p)
                is_ve = isinstance(p.end_node, ast.Raise) and p.end_node.exc is not None and norm(p.end_node.exc.func if isinstance(p.end_node.exc, ast.Call) else p.end_node.exc) == "ValueError"
                if (reqs or not is_ve) and verdict["ok"] and _is_range_rejection(p, domain):
                    verdict.update(ok=False, why="%s rejects an out-of-range argument %s [path %s]" % (
                        fn.short, "after already sending a request" if reqs else "with %s instead of ValueError" % norm(p.end_node)[:40], p.describe(8)))
        if verdict["n"] == 0:
            raise AnalysisError("%s: no write-reaching path found" % fn.short)
        if valueerror and verdict["nrej"] == 0 and verdict["ok"]:
            verdict.update(ok=False, why="%s has no rejecting path that raises ValueError for an out-of-range argument" % fn.short)
        rep.check(verdict["ok"], "C18.R2", "guard:%s" % fn.short, fn.loc(),
                  "%s: every write is dominated by %s (%d write sites on paths)" % (fn.short, ", ".join("%s in [%s, %s]" % (k, v[0], v[1] if v[1] is not None else "inf") for k, v in domain.items()), verdict["n"]),
                  bad=verdict["why"])


def _is_range_rejection(p: Path, domain) -> bool:
    last_tests = [ev for ev in p.events if ev.kind == "test"][-2:]
    return any(any(param in norm(ev.node) for param in domain) for ev in last_tests)


def _lookup_truth(fn, ev):
    """For a test on the outcome of the lookup in ``self._settings`` (``if setting:``, ``if not (s := self._settings.get(i)):``,
    ``if s is None:``, ``if i in self._settings:``): whether the lookup succeeded on this branch; None for any other test."""
    node, val = ev.node, bool(ev.data)
    local = single_assignments(fn.node)
    for _ in range(6):
        if isinstance(node, ast.UnaryOp) and isinstance(node.op, ast.Not):
            node, val = node.operand, not val
        elif isinstance(node, ast.Compare) and len(node.ops) == 1 and isinstance(node.comparators[0], ast.Constant) \
                and node.comparators[0].value is None and isinstance(node.ops[0], (ast.Is, ast.IsNot, ast.Eq, ast.NotEq)):
            if isinstance(node.ops[0], (ast.Is, ast.Eq)):
                val = not val
            node = node.left
        elif isinstance(node, ast.NamedExpr):
            node = node.value
        elif isinstance(node, ast.Name) and node.id in local:
            node = local[node.id]
        else:
            break
    if isinstance(node, ast.Compare) and len(node.ops) == 1 and isinstance(node.ops[0], (ast.In, ast.NotIn)) \
            and norm(node.comparators[0]).endswith("_settings"):
        return val if isinstance(node.ops[0], ast.In) else not val
    if isinstance(node, ast.Call) and isinstance(node.func, ast.Attribute) and node.func.attr == "get" \
            and norm(node.func.value).endswith("_settings"):
        return val
    return None


# ----------------------------------------------------------------------- R3
def r3(ctx: Ctx, rep: Report, wire: Wire):
    prog = ctx.prog
    for fam in ("ET", "DT", "ES"):
        fn = prog.cls(fam).methods.get("write_setting")
        if fn is None:
            raise AnalysisError("%s.write_setting not found" % fam)
        paths = enumerate_paths(prog, fn, no_raise)
        idp = fn.params[1]
        bad = None
        nunknown = 0
        for p in paths:
            # unknown id: the lookup in self._settings is falsy and the id is no 'modbus' escape (and, on ES, not 'time')
            lookup_false = any(ev.kind == "test" and ev.data is False and isinstance(ev.node, ast.Name) for ev in p.events) or \
                any(ev.kind == "test" and ev.data is True and isinstance(ev.node, ast.UnaryOp) for ev in p.events)
            tests = {norm(ev.node): ev.data for ev in p.events if ev.kind == "test"}
            modbus = next((v for k, v in tests.items() if "startswith('modbus')" in k), None)
            setting_falsy = any(_lookup_truth(p.fn_at(i_, fn), ev) is False for i_, ev in enumerate(p.events) if ev.kind == "test")       # (the lookup may sit in a helper)
            is_time = next((v for k, v in tests.items() if "== 'time'" in k), False)
            if not setting_falsy or modbus or is_time:
                continue
            nunknown += 1
            reqs = _request_events(ctx, fn, p) or _write_events(ctx, wire, fn, p)
            is_ve = p.end == "raise" and isinstance(p.end_node, ast.Raise) and norm(p.end_node.exc.func if isinstance(p.end_node.exc, ast.Call) else p.end_node.exc) == "ValueError"
            if (reqs or not is_ve) and bad is None:
                bad = p
        if nunknown == 0:
            raise AnalysisError("%s.write_setting: no path for an unknown setting id found" % fam)
        rep.check(bad is None, "C18.R3", "unknown-id:%s" % fam, fn.loc(), "%s.write_setting(unknown id) raises ValueError without a request" % fam,
                  bad="%s.write_setting: an unknown setting id %s [path %s]" % (fam, "reaches a request" if bad is not None and (bad.end != "raise") else "does not raise ValueError", bad.describe(8) if bad else ""))
