"""C20 - inverter objects are independent; returned values do not change afterwards."""
from __future__ import annotations

import ast
from typing import Dict, List, Set, Tuple

from .. import AnalysisError
from ..astutil import call_chain, chain, self_store
from ..core import Ctx, Report
from ..model import ClassInfo, FuncInfo, norm
from .c14 import tables_ctx

PID = "C20"
LEVEL = "other"
EXPLANATION = (
    "Shared-mutable-state inventory: (R1) every object constructed at module or class level (the 494 sensor / setting definitions of "
    "the 16 tables, the class-level ES commands, DISCOVERY_COMMAND) is shared by all inverter instances, so for every class "
    "instantiated there no method other than __init__ (resolved through the MRO) may store to self.<attr>, and no read* method may "
    "return self; (R2) the per-instance containers (_settings, _sensors*) are created afresh in __init__ / re-bound, never a "
    "class-level or module-level list / dict mutated in place; (R3) the inventory of 'global' statements and of module-level mutable "
    "objects mutated inside functions is exactly {protocol._modbus_tcp_tx}, which the property exempts, and no function other than "
    "the one advancing that counter reads it (so it can influence nothing but the id bytes); (R4) request_bytes mutates "
    "self.request only in command classes that are never instantiated at module / class level. Observational equivalence of "
    "interleaved and solo runs is not decided."
    ' (R5) no module- or class-level binding holds an exhaustible iterator (generator expression, chain, map, filter, zip, iter ...) that a function reads.'
    ' (R3) attributes of class objects assigned from functions are process-wide state (exempt: a transaction counter written only in ModbusTcpProtocolCommand.request_bytes and read nowhere else).'
    ' (R6) the in-place decoders (read_value / read of shared definitions) never read an attribute of self that methods assign before this call has assigned it: a decode cannot depend on what an earlier decode left behind.'
    ' (R7, shared with C03.R4) the Modbus/TCP transaction counter - the one piece of state all inverter objects share - is advanced and encoded by a total function of the counter value (2 big-endian unsigned bytes over its whole range), so what another object sent can change the two id bytes and nothing else.'
    ' (R8, shared with C19.R6) the schedule type another object\'s read left on a shared schedule group is overwritten on every path before the group is encoded.'
)

MUTATORS = {"append", "extend", "insert", "pop", "remove", "clear", "update", "setdefault", "popitem", "sort", "reverse", "add", "discard"}


def shared_instances(ctx: Ctx) -> Dict[str, List[str]]:
    """class name -> where instances are created at module / class level."""
    prog = ctx.prog
    out: Dict[str, List[str]] = {}
    for mod in prog.modules.values():
        for st in mod.tree.body:
            scopes = []
            if isinstance(st, ast.ClassDef):
                scopes = [(b, "%s.%s" % (mod.short, st.name)) for b in st.body if isinstance(b, (ast.Assign, ast.AnnAssign))]
            elif isinstance(st, (ast.Assign, ast.AnnAssign)):
                scopes = [(st, mod.short)]
            for node, where in scopes:
                value = node.value
                if value is None:
                    continue
                for n in ast.walk(value):
                    if isinstance(n, ast.Lambda):
                        continue
                    if isinstance(n, ast.Call) and isinstance(n.func, ast.Name):
                        b = prog.lookup(mod, n.func.id)
                        if b and b[0] == "class":
                            out.setdefault(b[1].name, [])
                            if where not in out[b[1].name]:
                                out[b[1].name].append(where)
    return out


def stale_decode_state(ctx: Ctx, rep: Report, shared):
    """(R6) Some shared definitions decode in place (the schedule groups: a known finding of R1).  What they must not
    do on top of that is *read* what an earlier decode left behind: on every path of read_value / read of a class
    instantiated at module / class level, an attribute of self that methods other than __init__ assign is read only
    after this call has assigned it.  Otherwise the value decoded for one inverter depends on what another inverter
    object read before."""
    from ..paths import enumerate_paths, no_raise
    prog = ctx.prog
    rep.rule("C20.R6", "a decode never reads state an earlier decode left on the shared definition: in read_value / read every mutable attribute of self is assigned before it is read", 2)
    n = 0
    for cname in sorted(shared):
        if not prog.has_cls(cname):
            continue
        ci = prog.cls(cname)
        if prog.is_enum(ci) or prog.is_subclass(ci, prog.ext_class("builtins.BaseException")):
            continue
        mutable: Set[str] = set()
        for c in prog.mro(ci):
            if isinstance(c, ClassInfo):
                for m in c.methods.values():
                    if m.name != "__init__":
                        mutable |= {a for st in ast.walk(m.node) if isinstance(st, ast.stmt) for a, _, _ in self_store(st)}
        if not mutable:
            continue
        for mname in ("read_value", "read"):
            m = prog.find_method(ci, mname)
            if m is None or m.cls is None or not any(isinstance(x, ast.Attribute) and isinstance(x.value, ast.Name) and x.value.id == "self" and x.attr in mutable for x in ast.walk(m.node)):
                continue
            key = "stale-state:%s.%s" % (m.cls.name, mname)
            if any(o.key == key for o in rep.obligations):
                continue
            n += 1
            bad = None
            for p in enumerate_paths(prog, m, no_raise):
                assigned: Set[str] = set()
                for i, ev in enumerate(p.events):
                    node = ev.node
                    if node is None or p.fn_at(i, m).cls is None:
                        continue
                    if ev.kind == "stmt" and isinstance(node, (ast.Assign, ast.AnnAssign, ast.AugAssign)):
                        loads = [node.value] if getattr(node, "value", None) is not None else []
                        if isinstance(node, ast.AugAssign):
                            loads.append(node.target)
                        tgts = node.targets if isinstance(node, ast.Assign) else [node.target]
                        loads += [t.value for t in tgts if isinstance(t, ast.Subscript)]
                    elif ev.kind in ("test", "call", "await", "raise", "return", "stmt", "iter"):
                        loads, tgts = [node.value if ev.kind == "return" and getattr(node, "value", None) is not None else node], []
                        if ev.kind == "return" and getattr(node, "value", None) is None:
                            loads = []
                    else:
                        continue
                    for l in loads:
                        for x in ast.walk(l):
                            if isinstance(x, ast.Attribute) and isinstance(x.ctx, ast.Load) and isinstance(x.value, ast.Name) and x.value.id == "self" \
                                    and x.attr in mutable and x.attr not in assigned and bad is None:
                                bad = (p, x)
                    for t in tgts:
                        for x in ast.walk(t):
                            if isinstance(x, ast.Attribute) and isinstance(x.ctx, ast.Store) and isinstance(x.value, ast.Name) and x.value.id == "self":
                                assigned.add(x.attr)
                if bad is not None:
                    break
            rep.check(bad is None, "C20.R6", key, m.loc(bad[1]) if bad else m.loc(),
                      "%s.%s assigns every mutable attribute of self before reading it" % (m.cls.name, mname),
                      bad="%s.%s reads self.%s before this call has assigned it: the decoded value depends on what an earlier read - possibly by another inverter object, %s definitions are shared - left there [path %s]" % (
                          m.cls.name, mname, bad[1].attr if bad else "?", cname, bad[0].describe(6) if bad else ""))
    if n == 0:
        raise AnalysisError("no in-place decoder found among the shared definitions (the schedule groups were expected)")


def check(ctx: Ctx, rep: Report):
    rep.rule("C20.R1", "definitions shared by all inverter objects are immutable: no method besides __init__ stores to self, no read* returns self", 40)
    rep.rule("C20.R2", "per-instance containers are fresh; class-level / module-level lists and dicts are never mutated in place", 6)
    rep.rule("C20.R3", "module-level mutable state mutated from functions is exactly {protocol._modbus_tcp_tx}, and only the function advancing it reads it", 2)
    rep.rule("C20.R5", "no module- or class-level binding holds an exhaustible iterator (generator, chain, map, filter, zip, iter ...) that functions consume", 1)
    rep.rule("C20.R4", "request_bytes mutates self.request only in command classes never instantiated at module / class level", 1)
    prog = ctx.prog
    shared = shared_instances(ctx)
    rep.analysed_add("shared_classes", "%d classes instantiated at module / class level" % len(shared))
    if len(shared) < 30:
        raise AnalysisError("only %d classes found instantiated at module/class level" % len(shared))
    tabs = tables_ctx(ctx)
    rep.analysed_add("shared_definitions", "%d table rows" % len(tabs.all_rows()))
    # ---- R1
    reported: Set[str] = set()
    for cname in sorted(shared):
        if not prog.has_cls(cname):
            continue
        ci = prog.cls(cname)
        if prog.is_enum(ci) or prog.is_subclass(ci, prog.ext_class("builtins.BaseException")):
            continue
        seen: Set[str] = set()
        any_method = False
        for c in prog.mro(ci):
            if not isinstance(c, ClassInfo):
                continue
            for m in c.methods.values():
                if m.name in seen:
                    continue
                seen.add(m.name)
                if m.name == "__init__":
                    continue
                any_method = True
                stores = sorted({a for n in ast.walk(m.node) if isinstance(n, ast.stmt) for a, _, _ in self_store(n)})
                returns_self = any(isinstance(n, ast.Return) and isinstance(n.value, ast.Name) and n.value.id == "self" for n in ast.walk(m.node)) and m.name.startswith("read")
                key = "shared-store:%s.%s" % (c.name, m.name)
                where = m.loc()
                if key in reported:
                    continue
                reported.add(key)
                if stores or returns_self:
                    what = []
                    if stores:
                        what.append("stores to self.%s" % ", self.".join(stores))
                    if returns_self:
                        what.append("returns the shared definition itself")
                    rep.violation("C20.R1", key, where,
                                  "%s.%s %s, but %s objects are created once at %s and shared by every inverter object: a value handed to one caller changes with the next read on any inverter" % (
                                      c.name, m.name, " and ".join(what), cname, shared[cname][0]))
                else:
                    rep.ok("C20.R1", key, where, "%s.%s does not mutate the shared definition" % (c.name, m.name))
        if not any_method:
            rep.ok("C20.R1", "shared-store:%s" % cname, "%s:%d" % (ci.module.relpath, ci.node.lineno), "%s has no mutating method" % cname)
    # callers that mutate a shared definition from outside (setattr on table rows): eco_mode.<attr> = ...
    for fn in ctx.res.all_funcs():
        if fn.cls is None or not prog.is_subclass(fn.cls, prog.cls("Inverter")):
            continue
        for n in ast.walk(fn.node):
            if isinstance(n, (ast.Assign, ast.AugAssign)):
                tgts = n.targets if isinstance(n, ast.Assign) else [n.target]
                for t in tgts:
                    if isinstance(t, ast.Attribute) and isinstance(t.value, ast.Name) and t.value.id not in ("self", "cls"):
                        types = ctx.res.expr_types(t.value, fn)
                        if any(ty[0] == "inst" and any(sub.name in shared for sub in prog.all_subclasses(ty[1])) for ty in types):
                            rep.violation("C20.R1", "external-store:%s:%s" % (fn.short, norm(t)), fn.loc(n),
                                          "%s assigns %s on a definition object shared by all inverter instances" % (fn.short, norm(t)))
    stale_decode_state(ctx, rep, shared)
    rep.rule("C20.R7", "the one process-wide counter reaches nothing but the two transaction-id bytes: its update and its encoding are total over the whole counter range (shared with C03.R4 next-tx)", 1)
    from .c03 import r4 as _c03_r4
    from ..core import Report as _R7
    _s7 = _R7("C03", rep.tier)
    _c03_r4(ctx, _s7)
    for o in _s7.obligations:
        if o.rule == "C03.R4" and o.key == "next-tx":
            rep.obligations.append(type(o)("C20.R7", o.key, o.where, o.what, o.status, o.detail))
    rep.rule("C20.R8", "the schedule group definitions are shared and decode in place (known finding of R1): what another object's read left on them is overwritten - set_schedule_type(ScheduleType.ECO_MODE, ...) - on every path before the group is encoded, so one object's eco-mode write never depends on another object's reads (shared with C19.R6)", 4)
    from .c19 import r6 as _c19_r6
    _s8 = _R7("C19", rep.tier)
    _c19_r6(ctx, _s8)
    for o in _s8.obligations:
        if o.rule == "C19.R6":
            rep.obligations.append(type(o)("C20.R8", o.key, o.where, o.what, o.status, o.detail and o.detail + " - and that type is whatever any inverter object of the process decoded last"))
    # ---- R2
    inv = prog.cls("Inverter")
    for ci in prog.all_subclasses(inv, include_self=False):
        init = ci.methods.get("__init__")
        if init is None:
            raise AnalysisError("%s has no __init__" % ci.name)
        for n in init.node.body:
            for attr, value, kind in self_store(n):
                if attr == "_settings":
                    from ..astutil import inline_pure_calls
                    v2 = inline_pure_calls(ctx.res, init, value) if value is not None else value      # a helper that returns a new dict
                    fresh = any(isinstance(v_, (ast.DictComp, ast.Dict)) or (isinstance(v_, ast.Call) and norm(v_.func) == "dict") for v_ in (value, v2))
                    rep.check(fresh, "C20.R2", "fresh:%s._settings" % ci.name, init.loc(n), "%s._settings is a new dict per instance" % ci.name,
                              bad="%s.__init__ binds _settings to %s, which is shared between instances" % (ci.name, norm(value)[:60]))
        # in-place mutation of class-level containers
        class_level = {a for a, v in ci.class_attrs.items() if isinstance(v, (ast.Tuple, ast.List, ast.Dict, ast.Set, ast.ListComp, ast.DictComp, ast.SetComp))
                       or (isinstance(v, ast.Call) and norm(v.func) in ("dict", "list", "set", "defaultdict", "collections.defaultdict", "OrderedDict", "collections.OrderedDict", "deque", "collections.deque"))}
        for m in ci.methods.values():
            for n in ast.walk(m.node):
                if isinstance(n, ast.Call) and isinstance(n.func, ast.Attribute) and n.func.attr in MUTATORS:
                    recv = n.func.value
                    if isinstance(recv, ast.Attribute) and isinstance(recv.value, ast.Name) and recv.value.id in ("self", "cls", ci.name) and recv.attr in class_level:
                        rep.violation("C20.R2", "class-mutation:%s.%s:%s" % (ci.name, m.name, norm(n)[:50]), m.loc(n),
                                      "%s.%s mutates the class-level container %s in place: every instance sees it" % (ci.name, m.name, norm(recv)))
                if isinstance(n, ast.AugAssign) and isinstance(n.target, ast.Attribute) and isinstance(n.target.value, ast.Name) \
                        and n.target.value.id in ("cls", ci.name) and n.target.attr in class_level:
                    rep.violation("C20.R2", "class-mutation:%s.%s:%s" % (ci.name, m.name, norm(n)[:50]), m.loc(n), "%s.%s rebinds a class attribute" % (ci.name, m.name))
        rep.ok("C20.R2", "class-containers:%s" % ci.name, "%s:%d" % (ci.module.relpath, ci.node.lineno), "%s: %d class-level tables scanned for in-place mutation" % (ci.name, len(class_level)))
    # in-place mutation of class-level containers of every other class (protocol, command and sensor classes): a dict
    # or list in a class body is one object for all instances (e.g. a "cache" keyed without the instance's identity)
    done = {c.qualname for c in prog.all_subclasses(inv, include_self=False)}
    for ci in prog.classes.values():
        if ci.qualname in done:
            continue
        class_level = {a for a, v in ci.class_attrs.items() if isinstance(v, (ast.List, ast.Dict, ast.Set, ast.ListComp, ast.DictComp, ast.SetComp))
                       or (isinstance(v, ast.Call) and norm(v.func) in ("dict", "list", "set", "defaultdict", "collections.defaultdict", "OrderedDict"))}
        shadowed = set()
        for c2 in [x for x in prog.mro(ci) if hasattr(x, "methods")]:
            init = c2.methods.get("__init__")
            if init is not None:
                shadowed |= {a for n in ast.walk(init.node) if isinstance(n, ast.stmt) for a, _, _ in self_store(n)}
        class_level -= shadowed
        for sub in prog.all_subclasses(ci):
            for m in sub.methods.values():
                for n in ast.walk(m.node):
                    recv = None
                    if isinstance(n, ast.Call) and isinstance(n.func, ast.Attribute) and n.func.attr in MUTATORS:
                        recv = n.func.value
                    elif isinstance(n, (ast.Assign, ast.AugAssign)):
                        for t in (n.targets if isinstance(n, ast.Assign) else [n.target]):
                            if isinstance(t, ast.Subscript):
                                recv = t.value
                    elif isinstance(n, ast.Delete):
                        for t in n.targets:
                            if isinstance(t, ast.Subscript):
                                recv = t.value
                    if isinstance(recv, ast.Attribute) and isinstance(recv.value, ast.Name) and recv.value.id in ("self", "cls", ci.name) and recv.attr in class_level:
                        rep.violation("C20.R2", "class-mutation:%s.%s:%s" % (sub.name, m.name, recv.attr), m.loc(n),
                                      "%s.%s mutates %s.%s, a container created once in the class body and shared by every %s object in the process: what one inverter object stores there is seen by all others" % (
                                          sub.name, m.name, ci.name, recv.attr, ci.name))
        if class_level:
            rep.ok("C20.R2", "class-containers:%s" % ci.name, "%s:%d" % (ci.module.relpath, ci.node.lineno), "%s: class-level containers %s are never mutated in place" % (ci.name, sorted(class_level)))
    # ---- R3
    globals_found = []
    mutated = []
    for mod in prog.modules.values():
        module_mutables = {name for name, b in mod.scope.items() if b[0] == "const" and isinstance(b[1], (ast.List, ast.Dict, ast.Set, ast.ListComp, ast.DictComp))}
        for fn in [f for f in prog.functions if f.module is mod]:
            node = fn.node
            for n in ast.walk(node) if not fn.is_lambda else []:
                if isinstance(n, ast.Global):
                    for name in n.names:
                        g = "%s.%s" % (mod.short, name)
                        if g not in globals_found:
                            globals_found.append(g)
                if isinstance(n, ast.Call) and isinstance(n.func, ast.Attribute) and n.func.attr in MUTATORS and isinstance(n.func.value, ast.Name):
                    nm = n.func.value.id
                    owner = prog._owner_module(mod, nm)
                    b = prog.lookup(mod, nm)
                    if b and b[0] == "const" and isinstance(b[1], (ast.List, ast.Dict, ast.Set)) and nm not in _locals(fn):
                        mutated.append("%s.%s mutated in %s" % (owner.short, nm, fn.short))
                if isinstance(n, (ast.Assign, ast.AugAssign)):
                    for t in (n.targets if isinstance(n, ast.Assign) else [n.target]):
                        if isinstance(t, ast.Subscript) and isinstance(t.value, ast.Name):
                            nm = t.value.id
                            b = prog.lookup(mod, nm)
                            if b and b[0] == "const" and isinstance(b[1], (ast.List, ast.Dict)) and nm not in _locals(fn):
                                mutated.append("%s[...] assigned in %s" % (nm, fn.short))
    # class objects are process-wide too: an attribute of a class (ClassName.x, type(self).x, self.__class__.x, cls.x)
    # assigned from a function is shared state.  The one exemption is, like the global counter, a Modbus/TCP transaction
    # counter: assigned only in ModbusTcpProtocolCommand.request_bytes and read nowhere else.
    class_state = []
    for fn in prog.functions:
        if fn.is_lambda:
            continue
        alias = {}
        for n in ast.walk(fn.node):
            if isinstance(n, ast.Assign) and len(n.targets) == 1 and isinstance(n.targets[0], ast.Name) and norm(n.value) in ("type(self)", "self.__class__"):
                alias[n.targets[0].id] = norm(n.value)
        for n in ast.walk(fn.node):
            if not isinstance(n, (ast.Assign, ast.AugAssign, ast.AnnAssign)):
                continue
            for t in (n.targets if isinstance(n, ast.Assign) else [n.target]):
                if not isinstance(t, ast.Attribute):
                    continue
                r = t.value
                rs = norm(r)
                is_cls = rs in ("type(self)", "self.__class__") or (isinstance(r, ast.Name) and (
                    r.id in alias or (r.id == "cls" and fn.is_classmethod) or ((prog.lookup(fn.module, r.id) or ("",))[0] == "class" and r.id not in _locals(fn))))
                if not is_cls:
                    continue
                readers = [f for f in prog.functions if f is not fn and not f.is_lambda and any(
                    isinstance(x, ast.Attribute) and x.attr == t.attr and isinstance(x.ctx, ast.Load) for x in ast.walk(f.node))]
                exempt = fn.cls is not None and fn.cls.name == "ModbusTcpProtocolCommand" and fn.name == "request_bytes" and not readers
                if not exempt:
                    class_state.append("%s.%s assigned in %s" % (rs, t.attr, fn.short))
    mutated.extend(class_state)
    ok = set(globals_found) <= {"protocol._modbus_tcp_tx"} and not mutated
    if not globals_found:
        rep.ok("C20.R3", "counter-readers:none", "goodwe/", "no module-level name is assigned from a function")
    rep.check(ok, "C20.R3", "global-inventory", "goodwe/protocol.py", "global state written by functions: %s" % globals_found,
              bad="module-level state written from functions is %s %s, not just the exempted protocol._modbus_tcp_tx" % (globals_found, mutated))
    # the exempted counter influences nothing but the id bytes it stamps: only the function that advances it reads it
    for g in globals_found:
        mname, var = g.rsplit(".", 1)
        mod = next((m for m in prog.modules.values() if m.short == mname), None)
        writers = [f for f in prog.functions if f.module is mod and not f.is_lambda and any(isinstance(n, ast.Global) and var in n.names for n in ast.walk(f.node))]
        for fn in prog.functions:
            if fn.is_lambda or fn in writers:
                continue
            owner_ok = fn.module is mod or (prog.lookup(fn.module, var) is not None and prog._owner_module(fn.module, var) is mod)
            if not owner_ok or var in _locals(fn):
                continue
            reads = [n for n in ast.walk(fn.node) if isinstance(n, ast.Name) and n.id == var and isinstance(n.ctx, ast.Load)]
            if reads:
                rep.violation("C20.R3", "counter-reader:%s:%s" % (g, fn.short), fn.loc(reads[0]),
                              "%s reads the process-wide counter %s, which every inverter object advances: its behaviour then depends on what other objects did in the meantime" % (fn.short, g))
        rep.ok("C20.R3", "counter-readers:%s" % g, "goodwe/%s.py" % mname, "%s is read only by %s" % (g, [w.short for w in writers]))
    # ---- R5: a module-/class-level iterator is consumed by whoever iterates it first: process-wide, one-shot state
    ITER_MAKERS = {"iter", "map", "filter", "zip", "enumerate", "reversed", "chain", "chain.from_iterable", "itertools.chain",
                   "itertools.chain.from_iterable", "itertools.islice", "islice", "itertools.cycle", "cycle", "itertools.product", "product",
                   "itertools.zip_longest", "zip_longest", "itertools.starmap", "starmap", "itertools.accumulate", "accumulate",
                   "itertools.takewhile", "takewhile", "itertools.dropwhile", "dropwhile", "itertools.compress", "compress",
                   "itertools.filterfalse", "filterfalse", "itertools.count", "count", "itertools.repeat", "repeat"}
    n5 = 0
    for mod in prog.modules.values():
        scopes = [("%s" % mod.short, mod.tree.body)] + [("%s.%s" % (mod.short, c.name), c.node.body) for c in prog.classes.values() if c.module is mod]
        for label, body in scopes:
            for st in body:
                if not isinstance(st, (ast.Assign, ast.AnnAssign)) or st.value is None:
                    continue
                v = st.value
                one_shot = isinstance(v, ast.GeneratorExp) or (isinstance(v, ast.Call) and norm(v.func) in ITER_MAKERS
                                                                and not (isinstance(v.func, ast.Name) and (prog.lookup(mod, v.func.id) or ("",))[0] in ("func", "class")))
                n5 += 1
                if not one_shot:
                    continue
                names = [t.id for t in (st.targets if isinstance(st, ast.Assign) else [st.target]) if isinstance(t, ast.Name)]
                for nm in names:
                    readers = [f for f in prog.functions if nm not in _locals(f) and any(
                        (isinstance(n, ast.Name) and n.id == nm and isinstance(n.ctx, ast.Load)) or (isinstance(n, ast.Attribute) and n.attr == nm)
                        for n in ast.walk(f.node))]
                    rep.check(not readers, "C20.R5", "one-shot:%s.%s" % (label, nm), "%s:%d" % (mod.relpath, st.lineno),
                              "%s.%s is an iterator nobody reads from a function" % (label, nm),
                              bad="%s.%s is bound once, at import, to the iterator %s and read by %s: whoever consumes it first changes what every later caller - any other inverter object included - finds in it" % (
                                  label, nm, norm(v)[:60], ", ".join(f.short for f in readers[:4])))
    rep.ok("C20.R5", "one-shot:scan", "goodwe/", "%d module- and class-level bindings inspected: none is an exhaustible iterator read by a function" % n5)
    # ---- R4
    base = prog.cls("ProtocolCommand")
    n4 = 0
    for ci in prog.all_subclasses(base):
        for m in ci.methods.values():
            if m.name == "__init__":
                continue
            stores = sorted({a for x in ast.walk(m.node) if isinstance(x, ast.stmt) for a, _, _ in self_store(x)})
            if not stores:
                continue
            n4 += 1
            bad = [s.name for s in prog.all_subclasses(ci) if s.name in shared]
            rep.check(not bad, "C20.R4", "command-mutation:%s.%s" % (ci.name, m.name), m.loc(),
                      "%s.%s rewrites self.%s; %s and its subclasses are created per inverter only" % (ci.name, m.name, ", self.".join(stores), ci.name),
                      bad="%s.%s rewrites self.%s but %s is instantiated at %s and shared by every inverter" % (ci.name, m.name, ", self.".join(stores), bad, [shared[b] for b in bad]))
    if n4 == 0:
        rep.ok("C20.R4", "command-mutation:none", base.module.relpath, "no command class mutates itself after construction")


def _locals(fn: FuncInfo) -> Set[str]:
    out = set(fn.params)
    for n in ast.walk(fn.node):
        if isinstance(n, ast.Name) and isinstance(n.ctx, ast.Store):
            out.add(n.id)
    for n in ast.walk(fn.node):
        if isinstance(n, ast.Global):
            out -= set(n.names)
    return out
