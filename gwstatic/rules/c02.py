"""C02 - every conforming response frame is accepted."""
from __future__ import annotations

import ast
from typing import Dict, List, Optional, Tuple

from .. import AnalysisError
from ..astutil import returned_values, call_chain, const_true, walk_no_lambda
from ..calls import arg_for
from ..core import Ctx, Report
from ..framing import families, Family
from ..model import NotConst, norm, node_src
from ..reference import conforming_modbus, conforming_aa55
from ..symx import Sym, Lin, Fact, contradicts, joint_contradiction, term_str
from .c01 import validator_paths, vparam_term, data_param, accepting

PID = "C02"
LEVEL = "other"
EXPLANATION = (
    "Static completeness argument by path refutation: for each framing and command kind the facts a protocol-conforming "
    "answer satisfies (reference.py, byte roles derived from the trim slices) are assumed, and every refusing path of the "
    "validator (return False / Partial / Rejected) must contain a tested fact those assumptions contradict - so a conforming "
    "frame can only reach an accepting path, whatever its payload bytes. Covers AA55 checksum width/signedness (R1), response "
    "type comparison (R2), validator/trimmer/offset-map layout agreement (R3), RTU trailing bytes (R4) and the signedness of "
    "the echoed value against the provenance of written values (R5). Does not decide CRC arithmetic on concrete frames."
    ' R5 also requires every single-register write command to hand the validator exactly the value expression it puts on the wire (wire-value).'
    ' (R6, shared with C07.R4) every path of the receive callbacks hands the received bytes to the validator: no ad-hoc test of the bytes filters frames or continuation fragments out beforehand.'
    ' (R7, shared with C18.R1) the command factories hand their arguments on unchanged, so the echo of a write is compared with the value the caller passed.'
    ' (R8) execute() returns ProtocolResponse(<result of the future>, self) exactly when that result is not None and fails the request otherwise; (R5 wire-count) a multi-register write expects the echo of the register count it announces, for every payload length 2..246.'
    ' (R9, shared with C05.R3) _ensure_lock closes the transport of the previous event loop: a conforming answer is delivered to a protocol object whose transport belongs to the running loop.'
)


def assumptions(fam: Family, kind: str, data: str) -> List[Fact]:
    if fam.kind == "aa55":
        rt = vparam_term(fam, "response_type")
        below = bool(fam.response_types) and all(isinstance(x, str) and _hexval(x) is not None and _hexval(x) < 0x8000 for x in fam.response_types)
        return conforming_aa55(data, fam.lb, fam.overhead, rt, below)
    return conforming_modbus(kind, data, fam.fc, fam.lb, fam.overhead, fam.tail, fam.fc - 1,
                             vparam_term(fam, "cmd"), vparam_term(fam, "offset"), vparam_term(fam, "value"), fam.has_checksum)


def _hexval(s: str) -> Optional[int]:
    try:
        return int(s, 16)
    except ValueError:
        return None


def execute_delivers(ctx: Ctx, rep: Report, rule: str):
    """ProtocolCommand.execute: the bytes set_result() put on the future (the validated frame, C01.R1) are what the caller
    gets - wrapped as ProtocolResponse(<those bytes>, <this command>) - on the path where they are not None; the other
    outcome of that test is a RequestFailedException.  (Paths without exceptions; the handlers are C09's business.)"""
    from ..paths import enumerate_paths, no_raise
    from ..replay import Replay
    prog = ctx.prog
    ex = prog.cls("ProtocolCommand").methods.get("execute")
    if ex is None:
        raise AnalysisError("ProtocolCommand.execute not found")
    rfe = prog.cls("RequestFailedException")
    nret = nraise = 0
    for p in enumerate_paths(prog, ex, no_raise):
        rp = Replay(prog, ex, p)
        rcalls = [(i, ev.node) for i, ev in enumerate(p.events) if ev.kind == "call" and isinstance(ev.node.func, ast.Attribute) and ev.node.func.attr == "result" and not ev.node.args]
        if len(rcalls) != 1:
            rep.violation(rule, "execute:result-calls:%s" % p.describe(4), ex.loc(), "ProtocolCommand.execute reads the future's result %d times on one path [path %s]" % (len(rcalls), p.describe(6)))
            continue
        ri, rnode = rcalls[0]
        rterm = rp.sym_at(ri + 1).lin(rnode)
        isnone = None
        for i, ev in enumerate(p.events):
            if ev.kind == "test" and isinstance(ev.node, ast.Compare) and len(ev.node.ops) == 1 and isinstance(ev.node.ops[0], (ast.Is, ast.IsNot, ast.Eq, ast.NotEq)) \
                    and isinstance(ev.node.comparators[0], ast.Constant) and ev.node.comparators[0].value is None and rp.sym_at(i).lin(ev.node.left) == rterm:
                isnone = bool(ev.data) if isinstance(ev.node.ops[0], (ast.Is, ast.Eq)) else not bool(ev.data)
        if p.end == "return":
            nret += 1
            v = p.end_node.value
            ok = isinstance(v, ast.Call) and norm(v.func) == "ProtocolResponse" and len(v.args) == 2 and rp.sym.lin(v.args[0]) == rterm and norm(v.args[1]) == "self" and isnone is False
            rep.check(ok, rule, "execute:return:%s" % p.describe(4), ex.loc(p.end_node), "execute returns ProtocolResponse(<result of the future>, self) when that result is not None",
                      bad="ProtocolCommand.execute returns %s %s: the caller does not get the frame the validator accepted [path %s]" % (
                          norm(v) if v is not None else "nothing", "without having found the result not None" if isnone is not False else "", p.describe(6)))
        elif p.end == "raise":
            nraise += 1
            ok = p.end_data is rfe and isnone is True
            rep.check(ok, rule, "execute:fail:%s" % p.describe(4), ex.loc(p.end_node), "execute fails the request with RequestFailedException when the future's result is None",
                      bad="ProtocolCommand.execute raises %s %s: a request whose future was completed with an accepted frame fails [path %s]" % (
                          prog.exc_name(p.end_data), "although the result was found to be not None" if isnone is False else "without testing the result against None", p.describe(6)))
    if nret == 0 and not rep.violations():
        raise AnalysisError("ProtocolCommand.execute has no returning path")


def check(ctx: Ctx, rep: Report):
    prog, res = ctx.prog, ctx.res
    fams = ctx.memo("families", lambda: families(prog, res))
    rep.rule("C02.R1", "AA55: no refusing path is feasible for a frame with correct length, type and 16-bit unsigned additive checksum", 4)
    rep.rule("C02.R6", "every received byte string reaches the validator (no ad-hoc filtering in the receive callbacks)", 2)
    from .proto import every_datagram_validated as _shared_C02_R6, proto_classes as _pcs
    for _ci in _pcs(ctx):
        _shared_C02_R6(ctx, rep, "C02.R6", _ci)
    rep.rule("C02.R2", "AA55 response-type comparison is exact for every response type the package uses", 10)
    rep.rule("C02.R3", "layout agreement: validator length/role bytes, trim_response slice, get_offset map and first_address flow", 12)
    rep.rule("C02.R4", "Modbus: no refusing path is feasible for a conforming read / write answer (RTU: trailing bytes allowed)", 20)
    rep.rule("C02.R7", "the value a write answer is compared with is the value the caller passed: the command factories hand their arguments on unchanged (shared with C18.R1 factory:*)", 8)
    from .c18 import factories as _factories, Wire as _Wire
    from ..core import Report as _Report
    _sub = _Report("C18", rep.tier)
    _factories(ctx, _sub, ctx.memo("wire", lambda: _Wire(ctx)))
    for o in _sub.obligations:
        rep.obligations.append(type(o)("C02.R7", o.key, o.where, o.what, o.status, o.detail))
    rep.rule("C02.R8", "an accepted frame is the result of the request: execute() returns ProtocolResponse(<what the future was completed with>, self) exactly when that is not None, and fails the request otherwise", 2)
    execute_delivers(ctx, rep, "C02.R8")
    rep.rule("C02.R9", "the answer can reach the validator at all: a request from a new event loop never goes out on the transport of the previous loop (shared with C05.R3)", 1)
    from .c05 import r3 as _c05_r3
    from ..core import Report as _R9
    _s9 = _R9("C05", rep.tier)
    _c05_r3(ctx, _s9)
    for o in _s9.obligations:
        if o.rule == "C05.R3":
            rep.obligations.append(type(o)("C02.R9", o.key, o.where, o.what, o.status, o.detail))
    rep.rule("C02.R5", "echoed write value is compared in two's complement and every written value is in the signed 16-bit domain", 6)
    for fam in fams.values():
        rep.analysed_add("functions", fam.validator.qualname)
        data = data_param(fam)
        kinds = ["aa55"] if fam.kind == "aa55" else ["read", "write"]
        for kind in kinds:
            A = assumptions(fam, kind, data)
            rule = "C02.R1" if fam.kind == "aa55" else "C02.R4"
            naccept = 0
            seen = set()
            for p, r in validator_paths(ctx, fam):
                if accepting(p):
                    naccept += 1
                    continue
                fkey = (p.end, tuple(sorted(repr(f) for f in r.facts)))
                if fkey in seen:
                    continue
                seen.add(fkey)
                hit = joint_contradiction(A, r.facts)
                what = "return False" if p.end == "return" else "raise %s" % prog.exc_name(p.end_data)
                key = "%s:%s:%s:%s" % (fam.validator.short, kind, what, "|".join(repr(f) for f in r.facts)[-140:])
                if hit is not None:
                    rep.ok(rule, key, fam.validator.loc(p.end_node), "refusing path (%s) infeasible for a conforming %s answer: it needs %r" % (what, kind, hit))
                else:
                    # which tested fact is the likely culprit: the last one
                    last = r.facts[-1] if r.facts else None
                    rule2 = rule
                    msg = "%s can refuse a conforming %s answer: path [%s] is not excluded by conformance (last test: %r)" % (
                        fam.validator.short, kind, p.describe(), last)
                    if fam.kind != "aa55" and kind == "write" and last is not None and "int(" in repr(last) and ",u)" in repr(last) and "value" in repr(last):
                        rule2 = "C02.R5"
                    rep.violation(rule2, key, fam.validator.loc(p.end_node), msg)
            if naccept == 0:
                dead = [p for p in ctx._cache.get("vpaths-infeasible:" + fam.name, []) if accepting(p)]
                if not dead:
                    raise AnalysisError("validator %s has no accepting path" % fam.validator.short)
                rep.violation(rule, "%s:%s:no-accepting-path" % (fam.validator.short, kind), fam.validator.loc(dead[0].end_node),
                              "%s: every path that ends in acceptance is infeasible (it needs a comparison to come out both ways: [%s]) - no answer at all can be accepted" % (
                                  fam.validator.short, dead[0].describe(8)))
    r2(ctx, rep, fams)
    r3(ctx, rep, fams)
    r5(ctx, rep, fams)


# ----------------------------------------------------------------------- R2
def r2(ctx: Ctx, rep: Report, fams):
    fam = next(f for f in fams.values() if f.kind == "aa55")
    fn = fam.validator
    # how is the response type read: signedness of the big-endian word over data[lb-2:lb] (int.from_bytes or struct, symbolic)
    signed = None
    sym0 = Sym.for_function(ctx.prog, fn)
    want_slice = ("slice", ("var", data_param(fam)), Lin.of_const(fam.lb - 2), Lin.of_const(fam.lb))
    for n in ast.walk(fn.node):
        if not isinstance(n, ast.Call):
            continue
        try:
            from ..astutil import inline_pure_calls
            t = sym0.lin(inline_pure_calls(ctx.res, fn, n)).single_term()       # (the word may be read by a small helper)
        except Exception:
            t = None
        cands = []
        if t is not None and t[0] == "tuple":
            cands = [x.single_term() if isinstance(x, Lin) else x for x in t[1]]
        elif t is not None:
            cands = [t]
        for c in cands:
            if c is not None and c[0] == "int" and c[1] == want_slice and c[2] == "big":
                signed = bool(c[3])
    if signed is None:
        raise AnalysisError("response type read data[%d:%d] not found in %s" % (fam.lb - 2, fam.lb, fn.short))
    if len(fam.response_types) < 3:
        raise AnalysisError("fewer AA55 response types found than expected")
    from ..framing import aa55_construction_sites
    sites = aa55_construction_sites(ctx.prog, ctx.res)
    init = fam.cls.methods["__init__"]
    n = 0
    for sfn, call in sites:
        a = arg_for(call, init, "response_type")
        if a is None:
            continue
        try:
            v = ctx.prog.consteval(a, sfn.module)
        except NotConst:
            rep.violation("C02.R2", "rt-nonconst:%s" % sfn.short, sfn.loc(call), "response type %s is not a constant" % norm(a))
            continue
        hv = _hexval(v) if isinstance(v, str) else None
        n += 1
        ok = hv is not None and 0 <= hv <= 0xFFFF and (not signed or hv < 0x8000)
        rep.check(ok, "C02.R2", "rt:%s:%s" % (sfn.short, v), sfn.loc(call),
                  "response type %s compares exactly with the %s 16-bit reading" % (v, "signed" if signed else "unsigned"),
                  bad="response type %r of %s can never equal the %s reading of data[%d:%d]" % (v, sfn.short, "signed" if signed else "unsigned", fam.lb - 2, fam.lb))
    if n < 10:
        raise AnalysisError("only %d AA55 construction sites found" % n)


# ----------------------------------------------------------------------- R3
def r3(ctx: Ctx, rep: Report, fams: Dict[str, Family]):
    prog, res = ctx.prog, ctx.res
    for fam in fams.values():
        init = fam.cls.methods["__init__"]
        want_scale, want_first = (1, False) if fam.kind == "aa55" else (2, True)
        go = prog.find_method(fam.cls, "get_offset")
        rep.check((fam.offset_scale, fam.offset_uses_first) == (want_scale, want_first), "C02.R3", "get_offset:%s" % fam.name, go.loc(),
                  "get_offset of %s is %s" % (fam.name, "the plain byte offset" if fam.kind == "aa55" else "2 x (address - first_address)"),
                  bad="get_offset of %s is not %s" % (fam.name, "identity" if fam.kind == "aa55" else "2*(address - first_address)"))
        # first_address = the offset parameter, the same that the validator gets
        fa = None
        for n in ast.walk(init.node):
            if isinstance(n, (ast.Assign, ast.AnnAssign)):
                t = n.targets[0] if isinstance(n, ast.Assign) else n.target
                if isinstance(t, ast.Attribute) and t.attr == "first_address":
                    fa = n.value
        voff = fam.validator_args.get("offset")
        ok = isinstance(fa, ast.Name) and fa.id in init.params
        if fam.kind != "aa55":
            ok = ok and isinstance(voff, ast.Name) and voff.id == fa.id
        rep.check(ok, "C02.R3", "first_address:%s" % fam.name, init.loc(),
                  "first_address of %s is the offset parameter%s" % (fam.name, "" if fam.kind == "aa55" else " that the validator checks"),
                  bad="first_address of %s is not the constructor's offset parameter" % fam.name)
        # constructor parameters reach the validator parameters of the same role
        roles = ("response_type",) if fam.kind == "aa55" else ("cmd", "offset", "value")
        for role in roles:
            if role in fam.validator.params and role in init.params:
                a = fam.validator_args.get(role)
                rep.check(isinstance(a, ast.Name) and a.id == role, "C02.R3", "validator-arg:%s:%s" % (fam.name, role), fam.validator_lambda.loc(),
                          "%s passes its %s to the validator's %s" % (fam.name, role, role),
                          bad="%s hands %s to the validator's parameter '%s'" % (fam.name, norm(a) if a is not None else "nothing", role))
            else:
                rep.note("C02.R3: role %s of %s not matched by name (renamed parameter): flow not checked" % (role, fam.name))
        # the length byte the validator reads sits right before the payload (head - 1): shown by the refutation rules
        # concrete subclasses: the register put on the wire is the one handed to the family constructor
        for sub in prog.all_subclasses(fam.cls, include_self=False):
            sinit = sub.methods.get("__init__")
            if sinit is None:
                continue
            sup = [n for n in ast.walk(sinit.node) if isinstance(n, ast.Call) and isinstance(n.func, ast.Attribute) and n.func.attr == "__init__"]
            if len(sup) != 1:
                raise AnalysisError("%s.__init__: expected one super().__init__ call" % sub.name)
            off_arg = arg_for(sup[0], init, fa.id if isinstance(fa, ast.Name) else "offset")
            req = arg_for(sup[0], init, "request") or arg_for(sup[0], init, "payload")
            ok = isinstance(off_arg, ast.Name) and off_arg.id in sinit.params
            wire = None
            if ok and isinstance(req, ast.Call):
                ct = res.resolve_call(req, sinit)
                if ct.funcs:
                    wire = arg_for(req, ct.funcs[0], "offset")
                    ok = isinstance(wire, ast.Name) and wire.id == off_arg.id
            elif ok and isinstance(req, ast.JoinedStr):
                names = [v.value.id for v in req.values if isinstance(v, ast.FormattedValue) and isinstance(v.value, ast.Name)]
                ok = off_arg.id in names
            # single-register writes: the value the validator will compare the echo with is the value put on the wire
            if fam.kind != "aa55" and isinstance(req, ast.Call) and "value" in init.params:
                ctv = res.resolve_call(req, sinit)
                if ctv.funcs and "value" in ctv.funcs[0].params:
                    sent, expected = arg_for(req, ctv.funcs[0], "value"), arg_for(sup[0], init, "value")
                    okv = sent is not None and expected is not None and norm(sent) == norm(expected)
                    rep.check(okv, "C02.R5", "wire-value:%s" % sub.name, sinit.loc(sup[0]),
                              "%s expects the echo of exactly the value it sends (%s)" % (sub.name, norm(sent) if sent is not None else "?"),
                              bad="%s sends %s but tells the validator to expect %s: for values where the two differ (negative numbers as two's complement) the inverter's correct echo is refused" % (
                                  sub.name, norm(sent) if sent is not None else "?", norm(expected) if expected is not None else "?"))
            # multi-register writes: the answer echoes the register count the builder announces (bytes / 2); the value the
            # validator compares it with must be that count for every payload length of the domain (2..246 bytes, even)
            if fam.kind != "aa55" and isinstance(req, ast.Call) and "value" in init.params:
                ctm = res.resolve_call(req, sinit)
                if ctm.funcs and "values" in ctm.funcs[0].params and "value" not in ctm.funcs[0].params:
                    sent, expected = arg_for(req, ctm.funcs[0], "values"), arg_for(sup[0], init, "value")
                    okm, why_m = isinstance(sent, ast.Name) and expected is not None, "the payload is not a parameter"
                    if okm:
                        for k in range(2, 248, 2):
                            try:
                                got = prog.consteval(expected, sinit.module, {sent.id: bytes(k)})
                            except NotConst:
                                okm, why_m = False, "%s is not a function of the payload alone" % norm(expected)
                                break
                            if got != k // 2:
                                okm, why_m = False, "for a payload of %d bytes it expects %r registers, the frame announces %d" % (k, got, k // 2)
                                break
                    rep.check(okm, "C02.R5", "wire-count:%s" % sub.name, sinit.loc(sup[0]), "%s expects the echo of the register count it announces (len(%s) // 2)" % (sub.name, norm(sent) if sent is not None else "?"),
                              bad="%s tells the validator to expect the register count %s: %s - the inverter's correct echo is refused" % (sub.name, norm(expected) if expected is not None else "?", why_m))
            rep.check(ok, "C02.R3", "wire-register:%s" % sub.name, sinit.loc(sup[0]),
                      "%s puts the same register on the wire that it records as first_address / expects echoed" % sub.name,
                      bad="%s: register sent (%s) and register recorded (%s) differ" % (sub.name, norm(wire) if wire is not None else "?", norm(off_arg) if off_arg is not None else "?"))
    # ProtocolResponse: response_data trims through the command; seek maps through get_offset
    pr = prog.cls("ProtocolResponse")
    rd, sk = pr.methods.get("response_data"), pr.methods.get("seek")
    if rd is None or sk is None:
        raise AnalysisError("ProtocolResponse.response_data/seek missing")
    ok_rd = any(isinstance(v, ast.Call) and (call_chain(v) or ())[-1:] == ("trim_response",)
                and len(v.args) == 1 and norm(v.args[0]) == "self.raw_data" for v in returned_values(rd.node))
    rep.check(ok_rd, "C02.R3", "response_data", rd.loc(), "response_data() is command.trim_response(raw_data)",
              bad="ProtocolResponse.response_data no longer returns command.trim_response(self.raw_data)")
    from ..astutil import seeks_through_get_offset
    ok_sk = seeks_through_get_offset(sk)
    rep.check(ok_sk, "C02.R3", "seek", sk.loc(), "seek(address) positions at command.get_offset(address)",
              bad="ProtocolResponse.seek no longer seeks to command.get_offset(address)")


# ----------------------------------------------------------------------- R5
def r5(ctx: Ctx, rep: Report, fams):
    prog, res = ctx.prog, ctx.res
    inv = prog.cls("Inverter")
    wc = inv.methods.get("_write_command")
    if wc is None:
        raise AnalysisError("Inverter._write_command missing")
    targets = [wc] + prog.method_overrides(prog.cls("InverterProtocol"), "write_command")
    n = 0
    for fn in res.all_funcs():
        if fn in targets or (fn.cls is not None and fn.name == "write_command"):
            continue
        for ct in res.calls_of(fn):
            if not any(t in ct.funcs for t in targets):
                continue
            callee = [t for t in ct.funcs if t in targets][0]
            a = arg_for(ct.node, callee, "value")
            if a is None:
                continue
            n += 1
            verdict, why = classify_written_value(ctx, fn, a)
            if verdict == "bad":
                verdict, why = _signed16_on_paths(ctx, fn, ct.node, a, why)
            key = "write-value:%s:%s" % (fn.short, norm(a))
            if verdict == "assumed":
                rep.note("C02.R5: %s passes the caller-supplied %s to a single-register write (modbus-N escape hatch): assumed within the signed 16-bit domain" % (fn.short, norm(a)))
                rep.ok("C02.R5", key, fn.loc(ct.node), "written value %s is the documented escape hatch (assumed in range)" % norm(a))
            else:
                rep.check(verdict == "ok", "C02.R5", key, fn.loc(ct.node), "written value %s is in the signed 16-bit domain (%s)" % (norm(a), why),
                          bad="%s writes %s whose range is not within the signed 16-bit domain the echo check decodes (%s)" % (fn.short, norm(a), why))
    if n < 5:
        raise AnalysisError("only %d single-register write sites found" % n)


def classify_written_value(ctx: Ctx, fn, a: ast.expr) -> Tuple[str, str]:
    prog = ctx.prog
    try:
        v = prog.consteval(a, fn.module)
        if isinstance(v, int) and not isinstance(v, bool):
            return ("ok", "constant %d" % v) if -32768 <= v <= 32767 else ("bad", "constant %d" % v)
    except NotConst:
        pass
    if isinstance(a, ast.Name):
        # last assignments to the name in the function
        vals = [n.value for n in ast.walk(fn.node) if isinstance(n, ast.Assign) and any(isinstance(t, ast.Name) and t.id == a.id for t in n.targets)]
        if vals and all(_is_signed16_from_bytes(ctx, fn, v) for v in vals):
            return "ok", "int.from_bytes(<=2 bytes, signed=True)"
        if not vals and a.id in fn.params:
            return "bad", "unchecked parameter"
        return "bad", "assigned from %s" % ", ".join(norm(v) for v in vals)
    if isinstance(a, ast.Call) and norm(a.func) == "int" and len(a.args) == 1 and isinstance(a.args[0], ast.Name) and a.args[0].id in fn.params:
        return "assumed", "int(user value)"
    return "bad", "expression of unknown range"


def _signed16_on_paths(ctx: Ctx, fn, call: ast.Call, a: ast.expr, why: str) -> Tuple[str, str]:
    """Path version: on every path reaching the write, the value is int.from_bytes(X, 'big', signed=True) of a byte
    string whose length is known to be at most 2 there (whichever way the length test and the branches are written)."""
    from ..paths import enumerate_paths, no_raise
    from ..replay import Replay
    from ..symx import Lin, entails_ge
    if fn.is_lambda:
        return "bad", why
    n = 0
    for p in enumerate_paths(ctx.prog, fn, no_raise):
        idx = [i for i, ev in enumerate(p.events) if ev.kind == "call" and ev.node is call]
        if not idx:
            continue
        n += 1
        rp = Replay(ctx.prog, fn, p)
        t = rp.sym_at(idx[0]).lin(a).single_term()
        if not (t is not None and t[0] == "int" and t[2] == "big" and t[3] is True):
            return "bad", why
        if not entails_ge(rp.facts_before(idx[0]), Lin.of_const(2) - Lin.of_term(("len", t[1]))):
            return "bad", "int.from_bytes(..., signed=True) of a byte string not known to be at most 2 bytes long"
    return ("ok", "int.from_bytes(<=2 bytes, signed=True) on all %d paths" % n) if n else ("bad", why)


def _is_signed16_from_bytes(ctx: Ctx, fn, v: ast.expr) -> bool:
    if not (isinstance(v, ast.Call) and norm(v.func) == "int.from_bytes" and v.args):
        return False
    signed = False
    for k in v.keywords:
        if k.arg == "signed":
            try:
                signed = bool(ctx.prog.consteval(k.value, fn.module))
            except NotConst:
                return False
    if not signed:
        return False
    # the bytes object is at most 2 bytes long: the assignment is guarded by len(x) <= 2
    src = v.args[0]
    for n in ast.walk(fn.node):
        if isinstance(n, ast.If) and any(v is x for x in ast.walk(n)):
            t = n.test
            if isinstance(t, ast.Compare) and len(t.ops) == 1 and isinstance(t.left, ast.Call) and norm(t.left.func) == "len" \
                    and norm(t.left.args[0]) == norm(src):
                try:
                    c = ctx.prog.consteval(t.comparators[0], fn.module)
                except NotConst:
                    continue
                in_body = any(v is x for b in n.body for x in ast.walk(b))
                if in_body and ((isinstance(t.ops[0], ast.LtE) and c <= 2) or (isinstance(t.ops[0], ast.Lt) and c <= 3) or (isinstance(t.ops[0], ast.Eq) and c <= 2)):
                    return True
                if not in_body and ((isinstance(t.ops[0], ast.Gt) and c <= 2) or (isinstance(t.ops[0], ast.GtE) and c <= 3)):
                    return True
    return False
