"""C17 - a written setting reads back as written and touches only its own registers."""
from __future__ import annotations

import ast
from fractions import Fraction
from typing import Dict, List, Optional, Tuple

from .. import AnalysisError
from ..astutil import call_chain, chain
from ..core import Ctx, Report
from ..decoders import lin_of, tree_of
from ..model import ClassInfo, FuncInfo, NotConst, norm
from ..paths import enumerate_paths, no_raise
from ..replay import Replay, make_inliner
from ..symx import Sym, Lin, entails_ge
from .c12 import _only_raises
from .c14 import tables_ctx, decoders_ctx
from .c18 import Wire
from .proto import feasible

PID = "C17"
LEVEL = "other"
EXPLANATION = (
    "(R1) encoder / decoder agreement per setting type: for every class with an encode_value the encoder summary (bytes, byte order, "
    "signedness, multiplier - extracted in linear normal form through the helper functions) must match the decoder summary of the same "
    "class (same width and signedness, multiplier x divisor = 1, encoded length = 2 x ceil(size_/2)); ByteH / ByteL replace exactly the "
    "half of the register word their read_value reads and pass the other half through; the Timestamp field order equals "
    "read_datetime's; the eco / schedule encoders validate through their own read_value. (R2) in the three _write_setting methods "
    "(siblings, cross-checked) every path builds exactly one write command, addressed to setting.offset, single-register iff "
    "len(raw) <= 2 with the value decoded signed (agreement with the echo check), multi-register carrying raw unchanged, and a "
    "one-byte setting is read-modify-written from one register at setting.offset. (R3) unknown ids never write (C18.R3). Float "
    "rounding of scaled values (int(float(v) * scale)) is a value-level question and is deliberately not decided."
    " (R4) write_setting hands the looked-up setting and the caller's value to _write_setting exactly once; write_setting('modbus-N', v) sends int(v) to register int(id[7:]) and read_setting('modbus-N') decodes it signed."
    ' read_setting(id) for a known id returns the awaited read of exactly that setting.'
    ' (R5, shared with C16.R1) the single read behind read_setting requests ceil(size_/2) registers at the setting and decodes the answer from its first byte.'
    ' (R6) ES._read_setting / _write_setting build Modbus commands exactly on the paths where _is_modbus_setting(setting) is true and AA55 commands on the others.'
    ' (R7) no path of write_setting / _write_setting on which a request of the write raised (refused, unanswered) ends in a normal return.'
)


def encoder_summary(ctx: Ctx, ci: ClassInfo, scale=None) -> Optional[Dict]:
    """{'n', 'order', 'signed', 'mult'} of an encode_value built on int.to_bytes; None when another idiom is used."""
    prog = ctx.prog
    enc = prog.find_method(ci, "encode_value")
    if enc is None or _only_raises(enc):
        return None
    rets = [n for n in ast.walk(enc.node) if isinstance(n, ast.Return) and n.value is not None]
    if len(rets) != 1:
        return None
    sym = Sym.for_function(prog, enc)
    sym.inline = make_inliner(prog, enc)
    if scale is not None:
        sym.bind("self.scale", Lin.of_const(scale))
    t = sym.lin(rets[0].value).single_term()
    if t is None or t[0] != "tobytes":
        return None
    operand = t[1][1] if t[1][0] == "lin" else Lin.of_term(t[1])
    value_t = ("var", enc.params[1])
    # the helper's own parameter name after inlining
    if len(operand.terms) != 1 or operand.const != 0:
        return {"n": t[2], "order": t[3], "signed": bool(t[4]), "mult": None, "operand": repr(operand)}
    (term, coef), = operand.terms.items()
    if term != value_t:
        return {"n": t[2], "order": t[3], "signed": bool(t[4]), "mult": None, "operand": repr(operand)}
    return {"n": t[2], "order": t[3], "signed": bool(t[4]), "mult": coef, "operand": repr(operand)}


def check(ctx: Ctx, rep: Report):
    rep.rule("C17.R1", "encoder and decoder of every setting type agree (width, byte order, signedness, scale, register half, field order)", 10)
    rep.rule("C17.R2", "_write_setting builds exactly one write to setting.offset carrying the encoding; one-byte settings are read-modify-written", 12)
    rep.rule("C17.R3", "unknown setting ids never write", 3)
    r7_failures_surface(ctx, rep)
    prog = ctx.prog
    tabs, dec = tables_ctx(ctx), decoders_ctx(ctx)
    sensor = prog.cls("Sensor")
    # representative settings row per (class, scale)
    reps: Dict[Tuple[str, object], object] = {}
    for (fam, attr), rows in tabs.tables.items():
        if not tabs.is_settings_table(attr):
            continue
        for r in rows:
            reps.setdefault((r.cls.name, r.attrs.get("scale")), r)
    classes_with_encoder = [ci for ci in prog.all_subclasses(sensor, include_self=False) if "encode_value" in ci.methods and not _only_raises(ci.methods["encode_value"])]
    rep.analysed_add("encoders", ", ".join(sorted(c.name for c in classes_with_encoder)))
    for ci in classes_with_encoder:
        row = next((r for (cn, sc), r in reps.items() if cn == ci.name), None)
        if row is None:
            # not used as a setting itself: a row of this class or of a subclass inheriting this encoder
            row = next((r for r in tabs.all_rows() if r.cls is ci), None) or \
                next((r for r in tabs.all_rows() if prog.is_subclass(r.cls, ci) and prog.find_method(r.cls, "encode_value") is ci.methods["encode_value"]), None)
        key = "codec:%s" % ci.name
        where = "%s:%d" % (ci.module.relpath, ci.methods["encode_value"].node.lineno)
        if ci.name in ("ByteH", "ByteL"):
            _byte_half(ctx, rep, dec, ci, row, key, where)
            continue
        if ci.name == "Timestamp":
            _timestamp(ctx, rep, ci, key, where)
            continue
        if prog.is_subclass(ci, prog.cls("EcoModeV1")) or prog.is_subclass(ci, prog.cls("Schedule")):
            _group_codec(ctx, rep, ci, row, key, where)
            continue
        if row is None:
            rep.note("C17.R1: %s has an encoder but is used by no table" % ci.name)
            summary = encoder_summary(ctx, ci, scale=100 if "scale" in [a.arg for a in ci.methods["__init__"].node.args.args] else None)
            dsum = None
        es = encoder_summary(ctx, ci, scale=row.attrs.get("scale") if row is not None else None)
        if es is None:
            rep.violation("C17.R1", key, where, "%s.encode_value uses an idiom the encoder analysis does not understand" % ci.name)
            continue
        # decoder: single read, linear
        if row is None:
            continue
        cases = dec.row_cases(row, "read_value")
        default = [c for c in cases if c.outcome == "return" and c.value is not None and c.value[0] == "num" and not any(x[0] == "Eq" for x in c.conds)]
        if not default:
            rep.violation("C17.R1", key, where, "%s: decoder has no linear default case to compare with" % ci.name)
            continue
        l = lin_of(default[0].value[1])
        if l is None:
            rep.violation("C17.R1", key, where, "%s: decoder is not linear in its register" % ci.name)
            continue
        leaf, coef, add = l
        _, base, delta, n, signed, kind = leaf
        want_len = 2 * ((row.size_ + row.size_ % 2) // 2)
        problems = []
        if es["n"] != n:
            problems.append("encodes %s byte(s) but decodes %d" % (es["n"], n))
        if es["n"] != want_len:
            problems.append("encodes %s byte(s) for a setting of %d register(s)" % (es["n"], want_len // 2))
        if es["order"] != "big" or not kind == "int":
            problems.append("byte order: encoder %s, decoder %s" % (es["order"], kind))
        if es["signed"] != signed:
            problems.append("encoder is %s, decoder %s" % ("signed" if es["signed"] else "unsigned", "signed" if signed else "unsigned"))
        if es["mult"] is None:
            problems.append("encoded value is %s, not a multiple of the argument" % es["operand"])
        elif es["mult"] * coef != 1 or add != 0:
            problems.append("encoder multiplies by %s, decoder by %s" % (es["mult"], coef))
        rep.check(not problems, "C17.R1", key, where,
                  "%s: %d %s byte(s), x%s when encoding, x%s when decoding" % (ci.name, n, "signed" if signed else "unsigned", es["mult"], coef),
                  bad="%s encode/decode disagree (setting '%s'): %s" % (ci.name, row.id_, "; ".join(problems)))
    r2(ctx, rep)
    # ---- R3 shared with C18
    from .c18 import r3 as c18_r3
    wire = ctx.memo("wire", lambda: Wire(ctx))
    sub = Report("C18", rep.tier)
    c18_r3(ctx, sub, wire)
    for o in sub.obligations:
        rep.obligations.append(type(o)("C17.R3", o.key, o.where, o.what, o.status, o.detail))
    r4_known_ids(ctx, rep)


def known_id_read(ctx: Ctx, rep: Report, rule: str, fam: str, mname: str, lookup_src: str, readers):
    """<fam>.<mname>(id): on every path on which the id was found (the looked-up object tested truthy) the method
    returns the awaited result of reading exactly that object - it does not fall through to the 'modbus' escape, the
    'unknown' error or another object."""
    from ..replay import Replay
    prog = ctx.prog
    fn = prog.cls(fam).methods.get(mname)
    if fn is None:
        raise AnalysisError("%s.%s not found" % (fam, mname))
    idp = fn.params[1]
    lookup = Sym.for_function(prog, fn).lin(ast.parse(lookup_src % idp, mode="eval").body)
    bad, nknown = None, 0
    for p in enumerate_paths(prog, fn, no_raise):
        rp = None
        found = None
        for i, ev in enumerate(p.events):
            if ev.kind != "test":
                continue
            node, val = ev.node, bool(ev.data)
            while isinstance(node, ast.UnaryOp) and isinstance(node.op, ast.Not):
                node, val = node.operand, not val
            if isinstance(node, ast.Compare) and len(node.ops) == 1 and isinstance(node.comparators[0], ast.Constant) and node.comparators[0].value is None:
                val = (not val) if isinstance(node.ops[0], (ast.Is, ast.Eq)) else val
                node = node.left
            if isinstance(node, ast.NamedExpr):
                node = node.value if not isinstance(node.target, ast.Name) else node.target
            rp = rp or Replay(prog, fn, p)
            if rp.sym_at(i + 1).lin(node) == lookup or (isinstance(node, ast.NamedExpr) and rp.sym_at(i + 1).lin(node.value) == lookup):
                found = val
        if not found:
            continue
        nknown += 1
        ok = p.end == "return" and p.end_node.value is not None
        if ok:
            v = p.end_node.value
            v = v.value if isinstance(v, ast.Await) else None
            symv = rp.sym
            for _ in range(4):          # returned by a helper that was spliced into the path: what the helper returns
                via = p.inlined_return(v) if isinstance(v, ast.Call) else None
                if via is None:
                    break
                symv = rp.sym_at(via[0])
                v = via[1].value if isinstance(via[1], ast.Await) else via[1]
            if isinstance(v, ast.Call) and call_chain(v) and call_chain(v)[0] == "self" and call_chain(v)[-1] in readers and len(v.args) == 1 and symv.lin(v.args[0]) == lookup:
                continue
            if isinstance(v, ast.Name) or v is None:
                # returned through a local: find the awaited reader call on the path
                calls = [ev.node for ev in p.events if ev.kind == "call" and (call_chain(ev.node) or ("", ""))[0] == "self" and (call_chain(ev.node) or ("",))[-1] in readers]
                v = calls[-1] if len(calls) == 1 and rp.sym.lin(p.end_node.value) == rp.sym.lin(calls[-1]) else None
            ok = isinstance(v, ast.Call) and call_chain(v) is not None and call_chain(v)[0] == "self" and call_chain(v)[-1] in readers and len(v.args) == 1 \
                and rp.sym.lin(v.args[0]) == lookup
        if not ok and bad is None:
            bad = p
    if nknown == 0:
        raise AnalysisError("%s.%s: no path for a known id found" % (fam, mname))
    rep.check(bad is None, rule, "known-id-read:%s.%s" % (fam, mname), fn.loc(), "%s.%s(known id) returns the awaited read of exactly that definition (%d paths)" % (fam, mname, nknown),
              bad="%s.%s: for an id that was found the call does not return the awaited %s(<that definition>) [path %s]: a listed id is answered as 'unknown', by another register, or not at all" % (
                  fam, mname, " / ".join(readers), bad.describe(8) if bad else ""))


def r4_known_ids(ctx: Ctx, rep: Report):
    """write_setting(id, value) for an id found in self._settings hands exactly that setting object and the caller's
    value to _write_setting, once, on every path (R2 then decides what _write_setting sends); the 'modbus-N' escape
    hatch writes register N with int(value) and reads it back signed."""
    from .c18 import _lookup_truth
    from ..replay import Replay
    prog = ctx.prog
    rep.rule("C17.R6", "ES addresses a setting through the protocol its register belongs to, the same way when reading and when writing (Modbus iff _is_modbus_setting)", 2)
    protocol_routing(ctx, rep, "C17.R6")
    rep.rule("C17.R5", "the read-back asks for exactly the setting's registers and decodes the answer from its first byte (shared with C16.R1)", 3)
    from .c16 import single_read_form
    single_read_form(ctx, rep, "C17.R5")
    rep.rule("C17.R4", "write_setting hands the looked-up setting and the caller's value to _write_setting exactly once; the modbus-N escape reads back signed what it wrote", 4)
    for fam in ("ET", "DT", "ES"):
        fn = prog.cls(fam).methods.get("write_setting")
        if fn is None:
            raise AnalysisError("%s.write_setting not found" % fam)
        idp, vp = fn.params[1], fn.params[2]
        bad, nknown = None, 0
        for p in enumerate_paths(prog, fn, no_raise):
            if not any(_lookup_truth(p.fn_at(i_, fn), ev) is True for i_, ev in enumerate(p.events) if ev.kind == "test"):
                continue
            nknown += 1
            rp = Replay(prog, fn, p)
            calls = [(i, ev.node) for i, ev in enumerate(p.events) if ev.kind == "call" and call_chain(ev.node) == ("self", "_write_setting")]
            lookup = Sym.for_function(prog, fn).lin(ast.parse("self._settings.get(%s)" % idp, mode="eval").body)
            ok = len(calls) == 1 and p.end != "raise"
            if ok:
                i, c = calls[0]
                sy = rp.sym_at(i)
                a0 = sy.lin(c.args[0]) if c.args else None
                ok = len(c.args) == 2 and sy.lin(c.args[1]) == Lin.of_term(("var", vp)) and a0 is not None and \
                    (a0 == lookup or "_settings" in repr(a0))
                awaited = any(ev.kind == "await" and isinstance(ev.node, ast.Await) and ev.node.value is c for ev in p.events[i:])
                ok = ok and awaited
            if not ok and bad is None:
                bad = p
        if nknown == 0:
            raise AnalysisError("%s.write_setting: no path for a known setting id found" % fam)
        rep.check(bad is None, "C17.R4", "known-id:%s" % fam, fn.loc(), "%s.write_setting(known id, v) awaits _write_setting(<that setting>, v) exactly once (%d paths)" % (fam, nknown),
                  bad="%s.write_setting: for an id found in self._settings the call does not end in exactly one awaited self._write_setting(<that setting>, %s) [path %s]: nothing (or something else) is written" % (
                      fam, vp, bad.describe(8) if bad else ""))
    # read_setting(id) for a known id returns what reading exactly that setting gives
    for fam in ("ET", "DT"):
        known_id_read(ctx, rep, "C17.R4", fam, "read_setting", "self._settings.get(%s)", ("_read_sensor", "_read_setting"))
    # modbus-N write: register = int(<id>[7:]), value = int(<value>), one write
    for fam in ("ET", "DT", "ES"):
        fn = prog.cls(fam).methods["write_setting"]
        idp, vp = fn.params[1], fn.params[2]
        bad, nmod = None, 0
        for p in enumerate_paths(prog, fn, no_raise):
            if not any(ev.kind == "test" and ev.data is True and isinstance(ev.node, ast.Call) and (call_chain(ev.node) or ("",))[-1] == "startswith"
                       and ev.node.args and isinstance(ev.node.args[0], ast.Constant) and str(ev.node.args[0].value).startswith("modbus") for ev in p.events):
                continue
            nmod += 1
            rp = Replay(prog, fn, p)
            wr = [(i, ev.node) for i, ev in enumerate(p.events) if ev.kind == "call" and (call_chain(ev.node) or ("",))[-1] == "_write_command" and len(ev.node.args) == 2]
            ok = len(wr) == 1
            if ok:
                i, c = wr[0]
                sy = rp.sym_at(i)
                a = sy.lin(c.args[0]).single_term()
                ok = a is not None and a[0] == "slice" and a[1] == ("var", idp) and a[2] is not None and a[2].is_const() and a[2].const == len("modbus-") and a[3] is None \
                    and sy.lin(c.args[1]) == Lin.of_term(("var", vp))
            if not ok and bad is None:
                bad = p
        if nmod:
            rep.check(bad is None, "C17.R4", "modbus-write:%s" % fam, fn.loc(), "%s.write_setting('modbus-N', v) writes int(v) to register N" % fam,
                      bad="%s.write_setting('modbus-N', v) does not send exactly one _write_command(int(%s[7:]), int(%s)) [path %s]" % (fam, idp, vp, bad.describe(6) if bad else ""))
    # modbus-N: the read side decodes the register as a signed 16-bit number (the write side sends int(value) in two's complement, C03.R2)
    for fam in ("ET", "DT", "ES"):
        for mname in ("read_setting",):
            fn = prog.cls(fam).methods.get(mname)
            if fn is None:
                continue
            convs = [n for n in ast.walk(fn.node) if isinstance(n, ast.Call) and norm(n.func) == "int.from_bytes"]
            if not convs:
                continue
            sym = Sym.for_function(prog, fn)
            oks = []
            for c in convs:
                t = sym.lin(c).single_term()
                oks.append(t is not None and t[0] == "int" and t[2] == "big" and t[3] is True)
            rep.check(all(oks), "C17.R4", "modbus-readback:%s" % fam, fn.loc(convs[0]), "%s.%s('modbus-N') decodes the register big-endian and signed" % (fam, mname),
                      bad="%s.%s('modbus-N') does not decode the register as a signed big-endian number: a negative value written through write_setting('modbus-N', v) reads back as v + 65536" % (fam, mname))


def _byte_half(ctx, rep, dec, ci, row, key, where):
    prog = ctx.prog
    enc = ci.methods["encode_value"]
    idx = None
    src_ok = width_ok = ret_ok = False
    word = None
    from ..astutil import inlined_body
    for st in inlined_body(ctx.res, enc):
        if isinstance(st, ast.Assign) and isinstance(st.value, ast.Call) and norm(st.value.func) == "bytearray" and st.value.args \
                and norm(st.value.args[0]) == enc.params[2]:
            word = st.targets[0].id if isinstance(st.targets[0], ast.Name) else None
            src_ok = True
        if isinstance(st, ast.Assign) and isinstance(st.targets[0], ast.Subscript) and isinstance(st.targets[0].value, ast.Name) and st.targets[0].value.id == word:
            try:
                idx = prog.consteval(st.targets[0].slice, enc.module)
            except NotConst:
                idx = None
            v = st.value
            if isinstance(v, ast.Subscript) and isinstance(v.value, ast.Call):
                sym = Sym.for_function(prog, enc)
                t = sym.lin(v.value).single_term()
                if t is not None and t[0] == "tobytes" and t[2] == 1 and bool(t[4]) is True and norm(v.slice) == "0":
                    width_ok = True
        if isinstance(st, ast.Return) and isinstance(st.value, ast.Call) and norm(st.value.func) == "bytes" and norm(st.value.args[0]) == word:
            ret_ok = True
    want = 0 if ci.name == "ByteH" else 1
    # which byte does read_value deliver?
    read_idx = None
    if row is not None:
        for c in dec.row_cases(row, "read_value"):
            if c.value is not None and c.value[0] == "num" and c.value[1][0] == "read":
                read_idx = c.value[1][2]
    ok = src_ok and width_ok and ret_ok and idx == want and (read_idx is None or read_idx == idx)
    rep.check(ok, "C17.R1", key, where, "%s replaces byte %s of the register word it reads and keeps the other half" % (ci.name, idx),
              bad="%s.encode_value: %s" % (ci.name, "writes byte %s but read_value reads byte %s" % (idx, read_idx) if idx != read_idx and read_idx is not None else
                  "does not build the word from register_value with one signed byte replaced (index %s, expected %d)" % (idx, want)))


def _timestamp(ctx, rep, ci, key, where):
    prog = ctx.prog
    rd = prog.func("sensor.read_datetime")
    en = prog.func("sensor.encode_datetime")
    # decode side, from the decoder summary: datetime(field_j = byte[d_j] + off_j)
    from ..decoders import lin_of, Decoders
    dec = ctx.memo("decoders", lambda: Decoders(ctx.prog, ctx.res))
    fields = ("year", "month", "day", "hour", "minute", "second")
    by_byte: Dict[int, Tuple[str, int]] = {}
    signed_fields: List[str] = []
    for c in dec.helper_cases(rd):
        v = c.value
        if c.outcome != "return" or v is None or v[0] != "obj" or v[1:3] != ("call", "datetime") or len(v[3]) != 6:
            continue
        for f, k in zip(fields, v[3]):
            l = lin_of(k[1]) if k[0] == "num" else None
            if l is not None and l[0][0] == "read" and l[0][3] == 1 and l[1] == 1:
                by_byte[l[0][2]] = (f, int(l[2]))
                if len(l[0]) > 4 and l[0][4]:
                    signed_fields.append(f)
    order = [by_byte[i][0] for i in sorted(by_byte)] if sorted(by_byte) == list(range(len(by_byte))) else []
    year_off = next((o for f, o in by_byte.values() if f == "year"), None)
    if any(o != 0 for f, o in by_byte.values() if f != "year"):
        year_off = None
    lst = None
    for n in ast.walk(en.node):
        if isinstance(n, ast.Call) and norm(n.func) == "bytes" and n.args and isinstance(n.args[0], ast.List):
            lst = n.args[0]
    enc_order, enc_off = [], None
    if lst is not None:
        for e in lst.elts:
            if isinstance(e, ast.BinOp) and isinstance(e.op, ast.Sub) and isinstance(e.left, ast.Attribute):
                enc_order.append(e.left.attr)
                try:
                    enc_off = prog.consteval(e.right, en.module)
                except NotConst:
                    pass
            elif isinstance(e, ast.Attribute):
                enc_order.append(e.attr)
    ok = order == enc_order and len(order) == 6 and year_off == enc_off and year_off is not None
    rep.check(ok, "C17.R1", key, where, "Timestamp encodes %s (year - %s) in read_datetime's order" % (enc_order, enc_off),
              bad="Timestamp: encode_datetime writes %s (year offset %s) but read_datetime reads %s (year offset %s)" % (enc_order, enc_off, order, year_off))
    # bytes([...]) writes each field as an unsigned byte (0..255): the decoder has to read them unsigned as well
    rep.check(not signed_fields, "C17.R1", key + ":unsigned", where, "read_datetime reads the six bytes unsigned, as bytes([...]) writes them",
              bad="Timestamp: read_datetime reads %s as signed byte(s) while encode_datetime writes unsigned bytes: a year of 2128 or later (byte >= 0x80) reads back 256 years early" % ", ".join(sorted(set(signed_fields))))


def _group_codec(ctx, rep, ci, row, key, where):
    """Every path of the eco / schedule encode_value that returns hands back the caller's bytes unchanged after
    isinstance(value, bytes), len(value) == size and a truthy self.read_value(ProtocolResponse(value, None));
    every other path raises ValueError."""
    from ..symx import entails_eq
    prog = ctx.prog
    enc = prog.find_method(ci, "encode_value")
    size = row.size_ if row is not None else None
    vname = enc.params[1]
    ok_len = ok_validate = ok_reject = True
    nret = 0
    for p in enumerate_paths(prog, enc, no_raise):
        if p.end == "raise":
            if prog.exc_name(p.end_data) != "ValueError":
                ok_reject = False
            continue
        if p.end != "return" or p.end_node.value is None:
            ok_reject = False      # falls off the end: encodes None instead of refusing
            continue
        nret += 1
        rp = Replay(prog, enc, p)
        if norm(p.end_node.value) != vname:
            ok_validate = False
        if size is None or not entails_eq(rp.facts, Lin.of_term(("len", ("var", vname))) - Lin.of_const(size)):
            ok_len = False
        validated = isbytes = False
        for k, ev in enumerate(p.events):
            if ev.kind != "test" or ev.data is not True:
                continue
            node = ev.node
            if isinstance(node, ast.Name):
                # a local holding the result of the call: the last assignment to it on this path
                for prev in reversed(p.events[:k]):
                    if prev.kind == "stmt" and isinstance(prev.node, ast.Assign) and any(isinstance(t, ast.Name) and t.id == node.id for t in prev.node.targets):
                        node = prev.node.value
                        break
            if not isinstance(node, ast.Call):
                continue
            c = call_chain(node) or ()
            if c == ("self", "read_value") and len(node.args) == 1 and isinstance(node.args[0], ast.Call) \
                    and norm(node.args[0].func) == "ProtocolResponse" and node.args[0].args and norm(node.args[0].args[0]) == vname:
                validated = True
            if c == ("isinstance",) and len(node.args) == 2 and norm(node.args[0]) == vname and norm(node.args[1]) == "bytes":
                isbytes = True
        if not validated:
            ok_validate = False
        if not isbytes:
            ok_len = False
    if nret == 0:
        ok_validate = False
    rep.check(ok_len and ok_validate and ok_reject, "C17.R1", key, where, "%s accepts exactly %s raw bytes that its own read_value decodes, else ValueError" % (ci.name, size),
              bad="%s.encode_value no longer validates %s raw bytes through its own read_value (length check %s, validation %s, ValueError %s)" % (ci.name, size, ok_len, ok_validate, ok_reject))


def _cv(prog, fn, e):
    try:
        return prog.consteval(e, fn.module)
    except NotConst:
        return None


def _offset_never_reassigned(ctx: Ctx) -> bool:
    def build():
        for f in ctx.prog.functions:
            if f.is_lambda or f.name == "__init__":
                continue
            for n in ast.walk(f.node):
                if isinstance(n, (ast.Assign, ast.AugAssign, ast.AnnAssign)):
                    for t in (n.targets if isinstance(n, ast.Assign) else [n.target]):
                        if isinstance(t, ast.Attribute) and t.attr == "offset":
                            return False
        return True
    return ctx.memo("offset-immutable", build)


def _routing_consistent(ctx: Ctx, fn: FuncInfo, p) -> bool:
    """self._is_modbus_setting(x) is a pure function of x.offset, and no code outside __init__ assigns .offset:
    the same call cannot give two different answers on one path."""
    if not _offset_never_reassigned(ctx):
        return True
    seen = {}
    for ev in p.events:
        if ev.kind == "test" and isinstance(ev.node, ast.Call) and (call_chain(ev.node) or ("",))[-1] == "_is_modbus_setting":
            target = ctx.prog.find_method(fn.cls, "_is_modbus_setting")
            body = [s_ for s_ in target.node.body if not (isinstance(s_, ast.Expr) and isinstance(s_.value, ast.Constant))] if target is not None else []
            pure = len(body) == 1 and isinstance(body[0], ast.Return) and not any(isinstance(x, ast.Call) for x in ast.walk(body[0]))
            if not pure:
                return True
            k = norm(ev.node)
            if k in seen and seen[k] != ev.data:
                return False
            seen[k] = ev.data
    return True


def protocol_routing(ctx: Ctx, rep: Report, rule: str):
    """ES holds settings of two kinds: AA55 registers and Modbus registers (offset above 30000), told apart by
    self._is_modbus_setting(setting).  On every path of ES._read_setting and ES._write_setting the commands built after
    that test came out True are the Modbus factories (_read_command / _write_command / _write_multi_command) and after
    False the Aa55* commands - the same way on the read and on the write side, so a setting is read back through the
    protocol it was written through."""
    prog = ctx.prog
    es = prog.cls("ES")
    if prog.find_method(es, "_is_modbus_setting") is None:
        raise AnalysisError("ES._is_modbus_setting not found (anchor of the protocol routing rule)")
    wire = ctx.memo("wire", lambda: Wire(ctx))
    fam_of = lambda nm: "aa55" if nm.startswith("Aa55") else "modbus"
    for mname in ("_read_setting", "_write_setting"):
        fn = es.methods.get(mname)
        if fn is None:
            raise AnalysisError("ES.%s not found" % mname)
        bad, n = None, 0
        for p in enumerate_paths(prog, fn, no_raise):
            if not (feasible(p) and _routing_consistent(ctx, fn, p)):
                continue
            pol = None
            for i, ev in enumerate(p.events):
                if ev.kind == "test" and isinstance(ev.node, ast.Call) and (call_chain(ev.node) or ("",))[-1] == "_is_modbus_setting":
                    pol = ev.data
                if ev.kind != "call":
                    continue
                k = wire.site_kind(p.fn_at(i, fn), ev.node)
                if k is None:
                    continue
                n += 1
                got = fam_of(k[1])
                if pol is None:
                    if bad is None:
                        bad = (p, ev.node, "builds %s before asking self._is_modbus_setting" % norm(ev.node.func))
                elif got != ("modbus" if pol else "aa55") and bad is None:
                    bad = (p, ev.node, "builds the %s command %s for a setting that _is_modbus_setting reports as %s" % (got, norm(ev.node.func), "a Modbus register" if pol else "an AA55 register"))
        if n == 0:
            raise AnalysisError("ES.%s builds no command" % mname)
        rep.check(bad is None, rule, "routing:ES.%s" % mname, fn.loc(bad[1]) if bad else fn.loc(),
                  "ES.%s: Modbus commands exactly for the settings _is_modbus_setting reports as Modbus registers, AA55 commands for the others (%d construction sites on paths)" % (mname, n),
                  bad="ES.%s %s: the register is addressed through the wrong protocol, what is read back is not what was written [path %s]" % (mname, bad[2] if bad else "", bad[0].describe(6) if bad else ""))


# ----------------------------------------------------------------------- R2
def _known(g, prog) -> bool:
    from ..inventory import is_known
    return is_known(g, prog)


def r2(ctx: Ctx, rep: Report):
    prog, res = ctx.prog, ctx.res
    wire = ctx.memo("wire", lambda: Wire(ctx))
    for famname in ("ET", "DT", "ES"):
        fn = prog.cls(famname).methods.get("_write_setting")
        if fn is None:
            raise AnalysisError("%s._write_setting not found" % famname)
        sp = fn.params[1]
        paths = [p for p in enumerate_paths(prog, fn, no_raise) if feasible(p) and _routing_consistent(ctx, fn, p)]
        verdict = {"ok": True, "why": ""}
        n = 0
        for p in paths:
            r = Replay(prog, fn, p)
            writes, reads = [], []
            for i, ev in enumerate(p.events):
                if ev.kind != "call":
                    continue
                k = wire.site_kind(p.fn_at(i, fn), ev.node)
                if k is None:
                    continue
                (writes if k[0] != "read" else reads).append((i, ev.node, k))
            n += 1
            # is the encoded value known to be at most / more than 2 bytes long on this path (whichever way the test is written)
            small = None
            for f in r.facts:
                if f.kind == "ge" and f.lin is not None:
                    lens = [t for t in f.lin.terms if t[0] == "len"]
                    if len(lens) == 1 and len(f.lin.terms) == 1:
                        ln = Lin.of_term(lens[0])
                        if entails_ge(r.facts, Lin.of_const(2) - ln):
                            small = True
                        elif entails_ge(r.facts, ln - Lin.of_const(3)):
                            small = False
            size1 = next((ev.data for ev in p.events if ev.kind == "test" and norm(ev.node) == "%s.size_ == 1" % sp), None)
            if size1 is None:       # the same decision written the other way round
                size1 = next((not ev.data for ev in p.events if ev.kind == "test" and norm(ev.node) in ("%s.size_ != 1" % sp, "not %s.size_ == 1" % sp)), None)
            why = None
            if len(writes) != 1:
                why = "%d write commands on one path" % len(writes)
            else:
                i, call, kind = writes[0]
                addr = call.args[0] if call.args else None
                own_addr = Sym.for_function(prog, fn).lin(ast.parse("%s.offset" % sp, mode="eval").body)
                if addr is None or r.sym_at(i).lin(addr) != own_addr:
                    why = "write addressed to %s, not %s.offset" % (norm(addr) if addr is not None else "?", sp)
                else:
                    name = (call_chain(call) or ("",))[-1]
                    multi = "multi" in name.lower() or "Multi" in name
                    val = call.args[1] if len(call.args) > 1 else None
                    sym = r.sym_at(i)
                    if small is None:
                        why = "no test of len(raw) <= 2 decides between single and multi register write"
                    elif small and multi:
                        why = "a value of at most 2 bytes is sent as a multi-register write"
                    elif not small and not multi:
                        why = "a value longer than 2 bytes is sent as a single-register write"
                    elif multi:
                        vt = sym.lin(val).single_term() if val is not None else None
                        if vt is None or vt[0] != "call" or "encode_value" not in vt[1]:
                            why = "multi-register write does not carry the encoder's bytes unchanged (%s)" % (norm(val) if val is not None else "?")
                    else:
                        vt = sym.lin(val).single_term() if val is not None else None
                        okv = vt is not None and vt[0] == "int" and vt[2] == "big" and vt[3] is True and vt[1][0] == "call" and "encode_value" in vt[1][1]
                        if not okv:
                            why = "single-register value is not int.from_bytes(<encoded>, 'big', signed=True) (%s)" % (repr(sym.lin(val)) if val is not None else "?")
                # the read and the write of one call speak the same protocol
                if why is None and reads:
                    fam_of = lambda nm: "aa55" if nm.startswith("Aa55") else "modbus"
                    rf = {fam_of(k[1]) for _, _, k in reads}
                    wf = {fam_of(k[1]) for _, _, k in writes}
                    if rf != wf:
                        why = "the register is read through %s but written through %s" % (sorted(rf), sorted(wf))
                # read-modify-write for one-byte settings
                if why is None:
                    if size1 is True:
                        ok_rmw = len(reads) == 1 and len(reads[0][1].args) >= 2 and r.sym_at(reads[0][0]).lin(reads[0][1].args[0]) == own_addr \
                            and r.sym_at(reads[0][0]).lin(reads[0][1].args[1]) == Lin.of_const(1) and reads[0][0] < writes[0][0]
                        enc_calls = [ev.node for ev in p.events if ev.kind == "call" and (call_chain(ev.node) or ("",))[-1] == "encode_value"]
                        ok_arg = False
                        if enc_calls and len(enc_calls[0].args) == 2:
                            a1 = enc_calls[0].args[1]     # <response>.response_data()[0:2] (any spelling of the slice)
                            if isinstance(a1, ast.Subscript) and isinstance(a1.slice, ast.Slice) and a1.slice.step is None \
                                    and (a1.slice.lower is None or _cv(prog, fn, a1.slice.lower) == 0) and a1.slice.upper is not None and _cv(prog, fn, a1.slice.upper) == 2 \
                                    and isinstance(a1.value, ast.Call) and (call_chain(a1.value) or ("",))[-1] == "response_data":
                                ok_arg = True
                        if not ok_rmw:
                            why = "a one-byte setting is not preceded by a read of exactly one register at %s.offset" % sp
                        elif not ok_arg:
                            why = "the register word read back is not handed to the encoder (other half would be lost)"
                    elif size1 is False and reads:
                        why = "an extra read request for a full-register setting"
                    elif size1 is None:
                        why = "no test of %s.size_ == 1" % sp
            if why and verdict["ok"]:
                verdict = {"ok": False, "why": "%s [path %s]" % (why, p.describe(8))}
        if n == 0:
            raise AnalysisError("%s._write_setting has no feasible path" % famname)
        rep.check(verdict["ok"], "C17.R2", "write:%s" % famname, fn.loc(), "%s._write_setting: %d paths, each exactly one write to the setting's own address" % (famname, n),
                  bad="%s._write_setting: %s" % (famname, verdict["why"]))
        # ES: the read and the write of one call use the same routing predicate
        if famname == "ES":
            preds = {norm(ev.node) for p in paths for ev in p.events if ev.kind == "test" and "_is_modbus_setting" in norm(ev.node)}
            rep.check(preds == {"self._is_modbus_setting(%s)" % sp}, "C17.R2", "es-routing", fn.loc(), "ES routes the read and the write of one call by the same predicate",
                      bad="ES._write_setting routes by %s" % sorted(preds))
    # per path obligations are summarised above; add one obligation per (family, branch) for the evidence
    for famname in ("ET", "DT", "ES"):
        fn = prog.cls(famname).methods["_write_setting"]
        from ..astutil import calls_through_helpers
        seen_fns = [fn] + [g for g in res.reachable([fn]) if g is not fn and g.cls is not None and prog.is_subclass(fn.cls, g.cls) and not _known(g, prog)]
        for f2 in seen_fns:
            for call in [n for n in ast.walk(f2.node) if isinstance(n, ast.Call) and wire.site_kind(f2, n) is not None and wire.site_kind(f2, n)[0] != "read"]:
                rep.ok("C17.R2", "site:%s:%s" % (famname, norm(call)[:50]), f2.loc(call), "write site addressed to %s" % norm(call.args[0]))


def r7_failures_surface(ctx: Ctx, rep: Report):
    """'After write_setting succeeds ...': a write the inverter refused, or that never got an answer, must not look
    like a success.  On every path of write_setting / _write_setting on which an awaited request of the write
    (the preliminary read of a one-byte setting, the write itself, the nested _write_setting) raised, the function
    ends by raising - no handler turns the failure into a normal return."""
    from ..paths import enumerate_paths
    prog = ctx.prog
    rejected, failed = prog.cls("RequestRejectedException"), prog.cls("RequestFailedException")
    rep.rule("C17.R7", "a refused or unanswered write never looks like a success: no path of write_setting / _write_setting on which a request of the write raised ends in a normal return", 6)

    def oracle(node, fn):
        if isinstance(node, ast.Await) and isinstance(node.value, ast.Call):
            c = call_chain(node.value) or ()
            if c and c[0] == "self" and c[-1] in ("_write_setting", "_read_from_socket", "write_setting"):
                return [rejected, failed]
        return []

    n = 0
    for fam in ("ET", "DT", "ES"):
        ci = prog.cls(fam)
        for mname in ("write_setting", "_write_setting"):
            m = ci.methods.get(mname)
            if m is None:
                continue
            n += 1
            rep.analysed_add("functions", m.qualname)
            bad = None
            npaths = 0
            for p in enumerate_paths(prog, m, oracle):
                raised = [ev for ev in p.events if ev.kind == "raise" and isinstance(ev.node, ast.Await)]
                if not raised:
                    continue
                npaths += 1
                if p.end != "raise" and bad is None:
                    bad = (p, raised[0])
            rep.check(bad is None and npaths > 0, "C17.R7", "failure-surfaces:%s.%s" % (fam, mname), m.loc(),
                      "%s.%s: every path on which a request of the write failed ends by raising (%d paths)" % (fam, mname, npaths),
                      bad=("%s.%s: %s failed (%s) and the function still returns normally: the caller sees a successful write although nothing - or nothing confirmed - was "
                           "written [path %s]" % (fam, mname, norm(bad[1].node)[:50], getattr(bad[1].data, "name", bad[1].data), bad[0].describe(8))) if bad else
                          "%s.%s: no awaited request found to judge" % (fam, mname))
    if n < 6:
        raise AnalysisError("only %d write functions found (write_setting / _write_setting of ET, DT, ES)" % n)
