"""C14 - sensors are decoded only from registers that were actually fetched."""
from __future__ import annotations

from typing import Dict, List, Tuple

from .. import AnalysisError
from ..core import Ctx, Report
from ..decoders import Decoders, consumed_ranges
from ..famstate import Family, Config
from ..tables import Tables

PID = "C14"
LEVEL = "other"
EXPLANATION = (
    "Finite statement decided by extraction and enumeration: the read commands (first address, count), the sensor tables, the table "
    "filters and the fallback structure of read_device_info / read_runtime_data are extracted from the source; for every realisable "
    "model configuration (serial-number tags of model.py incl. combined sub-string tags, rated-power classes) and every refusal "
    "pattern of the register blocks the methods are abstractly executed, and for every sensor offered on a path the byte range its "
    "decoder *consumes* (from the decoder summaries, not the declared size; every (helper, address) read of a getter; both words of "
    "a two-word bitmap) must lie inside [first, first+count) of the command whose answer it is decoded from. The quick tier "
    "collapses configurations with equal predicate vectors; the thorough tier enumerates every tag. Exhaustive over the extracted "
    "space; that real firmware answers full-length blocks is assumed."
    ' (R0) the window argument is about the fetched block: trim_response must cut header and checksum by constants, a bound computed from unchecked response bytes is a violation.'
    ' (R2) the modbus-N reads ask for register int(id[7:]), exactly one register, and decode its 2 bytes big-endian and signed; (R3) every constant block request asks for 1..125 registers inside the 16-bit address space. R2 also holds the branch itself: the raw-register read is reached exactly for ids that start with modbus.'
)


def tables_ctx(ctx: Ctx) -> Tables:
    return ctx.memo("tables", lambda: Tables(ctx.prog, ctx.res))


def decoders_ctx(ctx: Ctx) -> Decoders:
    return ctx.memo("decoders", lambda: Decoders(ctx.prog, ctx.res))


def family_ctx(ctx: Ctx, name: str) -> Family:
    return ctx.memo("family:" + name, lambda: Family(ctx.prog, ctx.res, tables_ctx(ctx), ctx.prog.cls(name)))


def explore(ctx: Ctx, fam: Family, thorough: bool):
    """Yield (config, state, runtime outcome) over the whole reachable space: the states after read_device_info and,
    transitively, every state a (successful or failed) read_runtime_data call leaves behind."""
    from .c15 import project
    seen = set()
    for cfg in fam.configurations(thorough):
        work = []
        for st0 in fam.initial_states():
            for oc in fam.replay("read_device_info", st0, cfg):
                if oc.end != "raise":
                    work.append(oc.state)
        while work:
            st = work.pop()
            pk = project(fam, st) if not thorough else (cfg.label, cfg.rated_power, project(fam, st))
            if pk in seen:
                continue        # read_runtime_data depends on the flags and tables only
            seen.add(pk)
            for oc in fam.replay("read_runtime_data", st, cfg):
                yield cfg, st, oc
                work.append(oc.state)      # also after a failed call: the next poll starts from there


def check(ctx: Ctx, rep: Report, thorough: bool = False):
    rep.rule("C14.R1", "window containment: every sensor offered for a block consumes only bytes inside the window of the request it is decoded from", 300)
    rep.rule("C14.R2", "single-register reads (modbus-N escape hatch) decode exactly the one register they fetch", 4)
    # the window argument below is about the block the request fetched; what the sensors are handed is that block
    # only if trim_response cuts header and checksum by constant amounts (framing model; C14.R0 when it does not)
    from ..framing import families
    ctx.memo("families", lambda: families(ctx.prog, ctx.res))
    # the blocks themselves are requests a Modbus inverter can answer: 1..125 registers inside the 16-bit address space
    # (a count above 125 needs a byte count above 255: no answer can ever match it)
    rep.rule("C14.R3", "every constant block request asks for 1..125 registers inside the 16-bit address space", 10)
    from ..tables import read_commands
    for famname in ("ET", "DT"):
        for attr, (first, count, node) in sorted(read_commands(ctx.prog, ctx.res, ctx.prog.cls(famname)).items()):
            ok = isinstance(first, int) and isinstance(count, int) and 1 <= count <= 125 and 0 <= first and first + count <= 0x10000
            rep.check(ok, "C14.R3", "block:%s.%s" % (famname, attr), ctx.prog.cls(famname).methods["__init__"].loc(node),
                      "%s.%s reads [%s, %s)" % (famname, attr, first, first + count if isinstance(first, int) and isinstance(count, int) else "?"),
                      bad="%s.%s asks for %s registers from %s: not a request a Modbus inverter can answer (1..125 registers, addresses 0..65535) - every sensor of the block is lost or made of missing bytes" % (famname, attr, count, first))
    dec = decoders_ctx(ctx)
    nconf = nout = 0
    verdicts: Dict[Tuple[str, str, str], Dict] = {}
    for famname in ("ET", "DT"):
        fam = family_ctx(ctx, famname)
        confs = set()
        for cfg, st, oc in explore(ctx, fam, thorough):
            confs.add(cfg.label + str(cfg.rated_power))
            nout += 1
            for m in oc.mapped:
                if m.cmd is None:
                    raise AnalysisError("%s: response passed to _map_response does not come from a known read command (%s)" % (famname, m.table_attr))
                if m.cmd in fam.commands:
                    first, count, _ = fam.commands[m.cmd]
                elif ":" in m.cmd and m.cmd.split(":")[0].isdigit():
                    first, count = (int(x) for x in m.cmd.split(":"))
                else:
                    raise AnalysisError("%s: unknown command %s" % (famname, m.cmd))
                for row in m.rows:
                    k = (famname, m.cmd, row.id_ + "@%s" % row.offset)
                    v = verdicts.get(k)
                    if v is not None and (v["ok"] is False or v["first"] == first):
                        v["n"] += 1
                        continue
                    rng = consumed_ranges(dec.row_cases(row, "read"))
                    bad = []
                    for base, lo, hi in rng:
                        if not isinstance(base, int):
                            bad.append("reads at a non-constant address %r" % (base,))
                            continue
                        p0, p1 = 2 * (base - first) + lo, 2 * (base - first) + hi
                        if p0 < 0 or p1 > 2 * count:
                            bad.append("consumes registers [%d, %d) " % (base + lo // 2, base + (hi + 1) // 2))
                    verdicts[k] = {"ok": not bad, "bad": bad, "first": first, "count": count, "row": row, "cfg": cfg, "n": 1, "table": m.table_attr}
        nconf += len(confs)
    for (famname, cmd, rid), v in sorted(verdicts.items()):
        row = v["row"]
        key = "window:%s:%s:%s" % (famname, cmd, row.id_)
        rep.check(v["ok"], "C14.R1", key, row.where(),
                  "%s.%s %s lies inside [%d, %d) fetched by %s (%d paths)" % (famname, v["table"], row.id_, v["first"], v["first"] + v["count"], cmd, v["n"]),
                  bad="%s: sensor '%s' (%s at %s) %s but %s fetches only [%d, %d): the value is fabricated from bytes the request never asked for (e.g. %r)" % (
                      famname, row.id_, row.cls.name, row.offset, "; ".join(v["bad"]), cmd, v["first"], v["first"] + v["count"], v["cfg"]))
    rep.extra["configurations"] = nconf
    rep.extra["runtime_outcomes_replayed"] = nout
    rep.extra["exhaustive"] = True
    rep.analysed_add("space", "%d configurations x device-info states x runtime paths = %d outcomes replayed (%s tier)" % (nconf, nout, "thorough" if thorough else "quick"))
    rep.note("scope: states reachable after read_device_info(); a bare ET(host, port) used before identification reads the unfiltered meter table with the 45-register command (outside the statement)")
    r2(ctx, rep)


def r2(ctx: Ctx, rep: Report):
    """read_sensor('modbus-N') / read_setting('modbus-N'): one register requested, two bytes decoded."""
    import ast
    from ..astutil import call_chain
    from ..model import norm
    prog = ctx.prog
    from ..paths import enumerate_paths, no_raise
    n = 0
    for famname in ("ET", "DT", "ES"):
        ci = prog.cls(famname)
        for mname in ("read_sensor", "read_setting"):
            m = ci.methods.get(mname)
            if m is None:
                continue
            seen = set()
            mentions = any(isinstance(x, ast.Call) and isinstance(x.func, ast.Attribute) and x.func.attr == "startswith" and x.args
                           and isinstance(x.args[0], ast.Constant) and str(x.args[0].value).startswith("modbus") for x in ast.walk(m.node))
            n_before = n
            wrong_branch = None
            for p in enumerate_paths(prog, m, no_raise):
                if mentions and wrong_branch is None and any(
                        ev.kind == "test" and ev.data is False and isinstance(ev.node, ast.Call) and (call_chain(ev.node) or ("",))[-1] == "startswith"
                        and ev.node.args and isinstance(ev.node.args[0], ast.Constant) and str(ev.node.args[0].value).startswith("modbus") for ev in p.events):
                    idp_ = m.params[1]
                    for ev in p.events:
                        if ev.kind == "call" and (call_chain(ev.node) or ("",))[-1] == "_read_command" and ev.node.args and any(
                                isinstance(x, ast.Subscript) and isinstance(x.value, ast.Name) and x.value.id == idp_ for x in ast.walk(ev.node.args[0])):
                            wrong_branch = (p, ev.node)
                # the raw-register branch: <id>.startswith('modbus') tested True (helpers the branch calls are inlined)
                if not any(ev.kind == "test" and ev.data is True and isinstance(ev.node, ast.Call) and (call_chain(ev.node) or ("",))[-1] == "startswith"
                           and ev.node.args and isinstance(ev.node.args[0], ast.Constant) and str(ev.node.args[0].value).startswith("modbus") for ev in p.events):
                    continue
                reqs = [ev.node for ev in p.events if ev.kind == "call" and (call_chain(ev.node) or ("",))[-1] == "_read_command" and len(ev.node.args) == 2]
                decs = [ev.node for ev in p.events if ev.kind == "call" and norm(ev.node.func) == "int.from_bytes" and ev.node.args
                        and isinstance(ev.node.args[0], ast.Call) and (call_chain(ev.node.args[0]) or ("",))[-1] == "read"]
                if not reqs or not decs:
                    continue
                key = (id(reqs[0]), id(decs[0]))
                if key in seen:
                    continue
                seen.add(key)
                fn_of = p.fn_at(next(i for i, ev in enumerate(p.events) if ev.node is decs[0]), m)
                from ..model import NotConst
                try:
                    nbytes = prog.consteval(decs[0].args[0].args[0], fn_of.module)
                    cnt = prog.consteval(reqs[0].args[1], fn_of.module)
                except NotConst:
                    n += 1
                    rep.violation("C14.R2", "modbus-n:%s.%s" % (famname, mname), fn_of.loc(reqs[0]),
                                  "%s.%s('modbus-N') requests %s register(s) and decodes %s byte(s): not the constants 1 and 2" % (famname, mname, norm(reqs[0].args[1]), norm(decs[0].args[0].args[0])))
                    continue
                n += 1
                # the register asked for is the N of the id: int(<id>[len('modbus-'):]); exactly that one register is
                # fetched and its two bytes are decoded big-endian, signed (the write side of the escape hatch sends
                # int(value) in two's complement)
                from ..symx import Sym
                from ..replay import Replay
                rp = Replay(prog, m, p)
                ri = next(i for i, ev in enumerate(p.events) if ev.node is reqs[0])
                addr = rp.sym_at(ri).lin(reqs[0].args[0]).single_term()
                idp = m.params[1]
                ok_addr = addr is not None and addr[0] == "slice" and addr[1] == ("var", idp) and addr[2] is not None and addr[2].is_const() \
                    and addr[2].const == len("modbus-") and addr[3] is None
                di = next(i for i, ev in enumerate(p.events) if ev.node is decs[0])
                dt = rp.sym_at(di).lin(decs[0]).single_term()
                ok_dec = dt is not None and dt[0] == "int" and dt[2] == "big" and dt[3] is True
                why = []
                if not (len(reqs) == 1 and len(decs) == 1 and nbytes == 2 and cnt == 1):
                    why.append("decodes %d byte(s) of a %d-register answer (one register = 2 bytes)" % (nbytes, cnt))
                if not ok_addr:
                    why.append("asks for register %s, not int(%s[7:]) - the N of 'modbus-N'" % (norm(reqs[0].args[0]), idp))
                if not ok_dec:
                    why.append("does not decode the register big-endian and signed")
                rep.check(not why, "C14.R2", "modbus-n:%s.%s" % (famname, mname), fn_of.loc(decs[0]),
                          "%s.%s('modbus-N') fetches register N and decodes its 2 bytes big-endian, signed" % (famname, mname),
                          bad="%s.%s('modbus-N') %s" % (famname, mname, "; ".join(why)))
            if mentions:
                rep.check(wrong_branch is None and n > n_before, "C14.R2", "modbus-n-branch:%s.%s" % (famname, mname), m.loc(),
                          "%s.%s takes the raw-register branch exactly for ids that start with 'modbus'" % (famname, mname),
                          bad="%s.%s: %s" % (famname, mname,
                                             "the register number is cut out of an id that does NOT start with 'modbus' (%s) [path %s]" % (
                                                 m.loc(wrong_branch[1]), wrong_branch[0].describe(6)) if wrong_branch else
                                             "no path on which the id starts with 'modbus' reaches the one-register read: 'modbus-N' ids are not served"))
    if n < 4:
        raise AnalysisError("only %d modbus-N read sites found" % n)


def check_thorough(ctx: Ctx, rep: Report):
    # re-run the enumeration over every serial-number tag and the finer power classes
    rep.obligations = [o for o in rep.obligations if o.rule not in ("C14.R1", "C14.R2", "C14.R3")]
    check(ctx, rep, thorough=True)
