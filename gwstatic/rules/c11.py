"""C11 - decoding is total: every sensor is reported, undecodable values become None."""
from __future__ import annotations

import ast
from typing import Dict, List, Optional, Set, Tuple

from .. import AnalysisError
from ..astutil import call_chain, chain, walk_no_lambda
from ..core import Ctx, Report
from ..decoders import Decoders, Case
from ..model import FuncInfo, ClassInfo, NotConst, norm
from .c14 import tables_ctx, decoders_ctx

PID = "C11"
LEVEL = "other"
EXPLANATION = (
    "(R1) Only ValueError can leave a decoder: every table row is abstractly evaluated on the bulk path (and every settings row on the "
    "single path) - an explicit raise of another class or arithmetic / comparison on a value that may be None (the undef default of the "
    "read helpers) is a violation; every call and operator in the functions reachable from the decoders is classified against a table "
    "of total / ValueError-only primitives, struct.unpack needs the matching length test, one-argument round() of an unpacked float is "
    "refused, divisors must be non-zero constants, and loops that pop from / index a fixed-size list must be bounded by interval "
    "analysis of the loop's iteration count over the ranges the register reads can produce (bin() of a signed byte / word). An "
    "unclassified primitive is an ANALYSIS-ERROR. (R2) per-sensor isolation: _map_response and ET.read_settings_data assign the result "
    "on both the normal and the ValueError path inside the loop body, and sensor.read is called nowhere else."
    ' R2 is a path rule per loop iteration (a failing item stores None and the loop goes on) and forbids eager package-defined conversions (f-string / str() of a sensor object) inside the isolating handler.'
    ' len() applied to a label-table lookup requires every value of every table the dict expression may denote to be sized (R1 len-of-label); R2 accepts a path on which a test established that the id is already present.'
    ' (R1 index-loop) a range()-driven subscript of a constant sequence stays inside it for every register value the call sites can pass.'
    ' R2 also judges every item-by-item decoding loop of ET / ES read_settings_data.'
)

# calls that cannot raise on the values decoders pass them
TOTAL = {"int.from_bytes", "float", "int", "abs", "len", "bin", "list", "str", "max", "min", "isinstance", "bool", "tuple", "range", "zip", "enumerate", "reversed"}
TOTAL_METHODS = {"bit_length", "read", "seek", "get", "append", "join", "format", "hex", "keys", "values", "items", "startswith", "endswith", "rstrip", "strip", "is_integer"}
VALUEERROR_ONLY = {"datetime"}


def decode_roots(ctx: Ctx) -> List[FuncInfo]:
    prog, res = ctx.prog, ctx.res
    sensor = prog.cls("Sensor")
    roots: List[FuncInfo] = []
    for ci in prog.all_subclasses(sensor):
        if ci not in res.instantiated():
            continue
        for name in ("read", "read_value"):
            m = prog.find_method(ci, name)
            if m is not None and m not in roots:
                roots.append(m)
    for lst in res.stored_callables().items():
        (cls, attr), funcs = lst
        if attr == "_getter":
            for f in funcs:
                if f not in roots:
                    roots.append(f)
    return roots


def check(ctx: Ctx, rep: Report):
    rep.rule("C11.R1", "only ValueError can leave a decoder (explicit raises, None-flow, classified primitives, bounded pop loops)", 500)
    rep.rule("C11.R2", "one undecodable value never prevents the others: result assigned on the normal and the ValueError path inside the loop", 4)
    prog, res = ctx.prog, ctx.res
    tabs, dec = tables_ctx(ctx), decoders_ctx(ctx)
    # ---- R1a: every row evaluated
    for row in tabs.all_rows():
        vias = ["read"]
        if tabs.is_settings_table(row.table) and row.owner.name in ("ET", "DT"):
            vias.append("read_value")
        for via in vias:
            m = prog.find_method(row.cls, via)
            if via == "read_value" and m is not None and _stub(m):
                continue
            cases = dec.row_cases(row, via)
            bad = []
            for c in cases:
                if c.outcome == "raise" and c.value != "ValueError":
                    bad.append("raises %s%s" % (c.value, "".join(" (%s)" % n[11:] for n in c.notes if n.startswith("TypeError: "))))
                if c.value is not None and isinstance(c.value, tuple) and c.value and c.value[0] == "typeerror":
                    bad.append("TypeError: %s" % c.value[1])
                if c.value is not None and isinstance(c.value, tuple) and c.value and c.value[0] == "raised" and c.value[1] != "ValueError":
                    bad.append("raises %s" % c.value[1])
                for n in c.notes:
                    if n.startswith("unmodelled"):
                        bad.append(n)
            bad = sorted(set(bad))
            rep.check(not bad, "C11.R1", "row:%s.%s:%s:%s" % (row.owner.name, row.table, row.id_, via), row.where(),
                      "'%s' (%s.%s) can only return or raise ValueError (%d cases)" % (row.id_, row.cls.name, via, len(cases)),
                      bad="%s.%s '%s' (%s.%s): %s" % (row.owner.name, row.table, row.id_, row.cls.name, via, "; ".join(bad)[:300]))
    # ---- R1b: primitives of the reachable functions
    roots = decode_roots(ctx)
    reach = res.reachable(roots)
    rep.analysed_add("decode_reachable_functions", "%d functions from %d roots" % (len(reach), len(roots)))
    for fn in reach:
        if fn.name.startswith("encode") or fn.name in ("__init__",):
            continue
        classify_function(ctx, rep, fn, tabs)
    # ---- R2
    r2(ctx, rep)


def _stub(fn: FuncInfo) -> bool:
    body = [s for s in fn.node.body if not (isinstance(s, ast.Expr) and isinstance(s.value, ast.Constant))]
    return len(body) == 1 and isinstance(body[0], ast.Raise)


def classify_function(ctx: Ctx, rep: Report, fn: FuncInfo, tabs):
    prog, res = ctx.prog, ctx.res
    valerr = prog.ext_class("builtins.ValueError")
    for n in walk_no_lambda(fn.node if not fn.is_lambda else fn.node.body):
        where = fn.loc(n) if hasattr(n, "lineno") else fn.loc()
        if isinstance(n, ast.Raise):
            if _stub(fn):
                continue    # unreachable stubs are excluded by the row evaluation above
            e = n.exc.func if isinstance(n.exc, ast.Call) else n.exc
            if e is None:
                continue
            try:
                classes = prog.resolve_exc_expr(fn.module, e)
            except AnalysisError:
                classes = []
            ok = classes and all(prog.is_subclass(c, valerr) for c in classes)
            rep.check(ok, "C11.R1", "raise:%s:%s" % (fn.short, norm(e)), where, "%s raises %s (a ValueError)" % (fn.short, norm(e)),
                      bad="decoder function %s raises %s, which _map_response does not turn into None" % (fn.short, norm(e)))
        elif isinstance(n, ast.Call):
            if any(n is x.exc for x in ast.walk(fn.node) if isinstance(x, ast.Raise)):
                continue
            ct = res.resolve_call(n, fn)
            name = norm(n.func)
            last = name.split(".")[-1]
            if ct.funcs or ct.ctor is not None:
                continue      # package callee: analysed on its own
            if name == "int" and n.args and _mentions_float_read(fn, n.args[0]):
                # int(nan) raises ValueError, int(+-inf) raises OverflowError: 0x7F800000 / 0xFF800000 are register contents like any other
                rep.violation("C11.R1", "int-of-float:%s" % fn.short, where, "%s: int() of an unpacked float raises OverflowError for the register contents +inf / -inf (0x7F800000, 0xFF800000): not a ValueError, the whole bulk read fails" % fn.short)
                continue
            if name == "len" and len(n.args) == 1:
                bad_vals = _unsized_label_values(ctx, fn, n.args[0], tabs)
                if bad_vals is not None:
                    rep.check(not bad_vals, "C11.R1", "len-of-label:%s:%s" % (fn.short, norm(n.args[0])), where,
                              "%s: len() is applied to values of label tables, all of which are strings" % fn.short,
                              bad="%s: len(%s) raises TypeError for the label table value(s) %s: not a ValueError, the whole bulk read fails when the register selects such an entry" % (
                                  fn.short, norm(n.args[0]), ", ".join(bad_vals[:4])))
            if name in TOTAL or last in TOTAL_METHODS or name.startswith("logger."):
                continue
            if isinstance(n.func, ast.Name) and isinstance(getattr(__import__("builtins"), name, None), type) and issubclass(getattr(__import__("builtins"), name), BaseException):
                continue      # building an exception object (returned by a helper, raised by its caller - judged at that raise)
            if last in VALUEERROR_ONLY or name in VALUEERROR_ONLY:
                continue
            if name in ("unpack", "struct.unpack"):
                ok = _unpack_guarded(fn, n, prog)
                rep.check(ok, "C11.R1", "unpack:%s" % fn.short, where, "struct.unpack is guarded by the matching length test",
                          bad="%s: struct.unpack on data that may be short raises struct.error" % fn.short)
                continue
            if name == "round":
                if len(n.args) == 1 and _mentions_float_read(fn, n.args[0]):
                    rep.violation("C11.R1", "round1:%s" % fn.short, where, "%s: one-argument round() of an unpacked float raises OverflowError/ValueError for inf/nan" % fn.short)
                continue
            if last == "pop":
                continue      # handled with its loop below
            raise AnalysisError("unclassified primitive %s in decoder function %s (%s)" % (name, fn.short, where))
        elif isinstance(n, ast.BinOp) and isinstance(n.op, (ast.Div, ast.FloorDiv, ast.Mod)):
            ok, why = _divisor_ok(ctx, fn, n.right, tabs)
            rep.check(ok, "C11.R1", "div:%s:%s" % (fn.short, norm(n.right)), where, "divisor %s is a non-zero constant (%s)" % (norm(n.right), why),
                      bad="%s divides by %s which may be zero (%s): ZeroDivisionError" % (fn.short, norm(n.right), why))
    if not fn.is_lambda:
        pop_loops(ctx, rep, fn)
        index_loops(ctx, rep, fn)


def _label_tables(ctx: Ctx, fn: FuncInfo, recv: ast.expr, tabs, depth: int = 0) -> Optional[List[Tuple[str, dict]]]:
    """The constant label tables a dict-valued expression of a decoder function may denote: self._labels (the rows of
    fn's class and its subclasses), a module constant, or a parameter (followed to the arguments of every call site)."""
    prog = ctx.prog
    if isinstance(recv, ast.Attribute) and isinstance(recv.value, ast.Name) and recv.value.id == "self" and fn.cls is not None:
        out = [("%s '%s'" % (r.table, r.id_), r.attrs[recv.attr]) for r in tabs.all_rows()
               if recv.attr in r.attrs and isinstance(r.attrs[recv.attr], dict) and prog.is_subclass(r.cls, fn.cls)]
        return out or None
    if isinstance(recv, ast.Name) and recv.id in fn.params and depth < 3 and not any(
            isinstance(x, ast.Name) and x.id == recv.id and isinstance(x.ctx, ast.Store) for x in ast.walk(fn.node)):
        from ..calls import arg_for
        out = []
        for ct in ctx.res.callers_of(fn):
            a = arg_for(ct.node, fn, recv.id)
            if a is None:
                return None
            sub = _label_tables(ctx, ct.caller, a, tabs, depth + 1)
            if sub is None:
                return None
            out.extend(sub)
        return out or None
    try:
        v = prog.consteval(recv, fn.module)
    except NotConst:
        return None
    return [(norm(recv), v)] if isinstance(v, dict) else None


def _unsized_label_values(ctx: Ctx, fn: FuncInfo, arg: ast.expr, tabs) -> Optional[List[str]]:
    """For len(<lookup in a label table>): the table values (and the lookup's default) that have no length; None when
    the argument is not such a lookup."""
    from ..astutil import expand_locals
    e = expand_locals(arg, fn.node) if not fn.is_lambda else arg
    default_missing = False
    default = None
    if isinstance(e, ast.Call) and isinstance(e.func, ast.Attribute) and e.func.attr == "get" and e.args:
        recv = e.func.value
        if len(e.args) > 1:
            default = e.args[1]
        else:
            default_missing = True
    elif isinstance(e, ast.Subscript) and not isinstance(e.slice, ast.Slice):
        recv = e.value
    else:
        return None
    tables = _label_tables(ctx, fn, recv, tabs)
    if tables is None:
        return None
    bad = []
    for label, t in tables:
        for k, v in t.items():
            if not isinstance(v, (str, bytes, tuple, list, dict, set, frozenset)):
                bad.append("%s[%r] = %r" % (label, k, v))
    if default_missing or (isinstance(default, ast.Constant) and not isinstance(default.value, (str, bytes))):
        bad.append("the lookup's default %s" % (norm(default) if default is not None else "None"))
    return bad


def _unpack_guarded(fn: FuncInfo, call: ast.Call, prog=None) -> bool:
    """On every path that reaches struct.unpack(fmt, data) the facts entail len(data) == calcsize(fmt)
    (whichever way the length test and the branches are written)."""
    if len(call.args) != 2 or not isinstance(call.args[0], ast.Constant):
        return False
    import struct as _struct
    try:
        size = _struct.calcsize(call.args[0].value)
    except Exception:
        return False
    if prog is None:
        return False
    from ..paths import enumerate_paths, no_raise
    from ..replay import Replay
    from ..symx import Lin, entails_eq
    n = 0
    for p in enumerate_paths(prog, fn, no_raise):
        idx = [i for i, ev in enumerate(p.events) if ev.kind == "call" and ev.node is call]
        if not idx:
            continue
        n += 1
        rp = Replay(prog, fn, p)
        sym = rp.sym_at(idx[0])
        ln = Lin.of_term(("len", sym.term(call.args[1])))
        if not entails_eq(rp.facts_before(idx[0]), ln - Lin.of_const(size)):
            return False
    return n > 0


def _mentions_float_read(fn: FuncInfo, e: ast.expr) -> bool:
    return any(isinstance(x, ast.Call) and norm(x.func) in ("read_float4", "unpack") for x in ast.walk(e))


def _divisor_ok(ctx: Ctx, fn: FuncInfo, e: ast.expr, tabs, _depth: int = 0) -> Tuple[bool, str]:
    prog = ctx.prog
    try:
        v = prog.consteval(e, fn.module)
        return (v != 0, "constant %r" % (v,))
    except NotConst:
        pass
    # self.scale / scale parameter: every table row using a class with a scale attribute has a non-zero scale
    if norm(e) in ("self.scale", "scale"):
        scales = [r.attrs["scale"] for r in tabs.all_rows() if "scale" in r.attrs]
        if scales and all(isinstance(s, int) and s != 0 for s in scales):
            return True, "all %d rows with a scale use a non-zero constant" % len(scales)
        return False, "a table row passes scale 0 or a non-constant"
    # a parameter that is never rebound: every call site of the function must pass a non-zero divisor
    if isinstance(e, ast.Name) and e.id in fn.params and not any(
            isinstance(n, ast.Name) and n.id == e.id and isinstance(n.ctx, ast.Store) for n in ast.walk(fn.node)) and _depth < 3:
        from ..calls import arg_for
        sites = ctx.res.callers_of(fn)
        if not sites:
            return False, "parameter %s of a function nobody calls" % e.id
        for ct in sites:
            a = arg_for(ct.node, fn, e.id)
            if a is None:
                return False, "a call site (%s) does not pass %s" % (ct.caller.short, e.id)
            ok, why = _divisor_ok(ctx, ct.caller, a, tabs, _depth + 1)
            if not ok:
                return False, "call site in %s passes %s: %s" % (ct.caller.short, norm(a), why)
        return True, "all %d call sites pass a non-zero divisor" % len(sites)
    return False, "not a constant"


# ------------------------------------------------------- bounded pop loops
def read_interval(ctx: Ctx, helper: str) -> Optional[Tuple[int, int]]:
    """Value range of a read_* helper from its decoder summary (n bytes, signedness; no sentinel mapping to a wider value)."""
    dec = decoders_ctx(ctx)
    fn = ctx.prog.func("sensor." + helper) if ctx.prog.has_func("sensor." + helper) else None
    if fn is None:
        return None
    lo = hi = None
    for c in dec.helper_cases(fn):
        if c.value is None or c.value[0] != "num" or c.value[1][0] != "read":
            return None
        _, base, delta, n, signed, kind = c.value[1]
        a, b = (-(1 << (8 * n - 1)), (1 << (8 * n - 1)) - 1) if signed else (0, (1 << (8 * n)) - 1)
        lo = a if lo is None else min(lo, a)
        hi = b if hi is None else max(hi, b)
    return (lo, hi) if lo is not None else None


def arg_interval(ctx: Ctx, caller: FuncInfo, arg: ast.expr) -> Optional[Tuple[int, int]]:
    """Interval of an argument expression: self.<attr> / name last assigned from a read_* helper call in the caller."""
    key = norm(arg)
    best = None
    scopes = [caller.node]
    if key.startswith("self.") and caller.cls is not None:
        # an attribute: every assignment in the class (and its bases) may have produced it
        scopes = [m.node for c in ctx.prog.mro(caller.cls) if hasattr(c, "methods") for m in c.methods.values()]
    for n in [x for sc in scopes for x in ast.walk(sc)]:
        if isinstance(n, ast.Assign) and any(norm(t) == key for t in n.targets) and isinstance(n.value, ast.Call) and isinstance(n.value.func, ast.Name):
            iv = read_interval(ctx, n.value.func.id)
            if iv is None:
                return None
            best = iv if best is None else (min(best[0], iv[0]), max(best[1], iv[1]))
        elif isinstance(n, (ast.Assign, ast.AnnAssign)) and any(norm(t) == key for t in (n.targets if isinstance(n, ast.Assign) else [n.target])) \
                and not (isinstance(n.value, ast.Constant) and n.value.value is None) and n.value is not None:
            return None
    return best


def bin_len(v: int) -> int:
    """len(bin(v)[2:])"""
    return len(bin(v)[2:])


def pop_loops(ctx: Ctx, rep: Report, fn: FuncInfo):
    prog, res = ctx.prog, ctx.res
    for loop in [n for n in ast.walk(fn.node) if isinstance(n, ast.For)]:
        pops = [x for x in ast.walk(loop) if isinstance(x, ast.Call) and isinstance(x.func, ast.Attribute) and x.func.attr == "pop" and isinstance(x.func.value, ast.Name)]
        if not pops:
            continue
        lst = pops[0].func.value.id
        key = "poploop:%s:%s" % (fn.short, lst)
        # list length: <lst> = list(CONST)
        size = None
        for n in ast.walk(fn.node):
            if isinstance(n, ast.Assign) and any(isinstance(t, ast.Name) and t.id == lst for t in n.targets) and isinstance(n.value, ast.Call) \
                    and norm(n.value.func) == "list" and n.value.args:
                try:
                    size = len(prog.consteval(n.value.args[0], fn.module))
                except (NotConst, TypeError):
                    size = None
        npops_per_iter = sum(1 for x in loop.body if any(p is y for p in pops for y in ast.walk(x)) and not isinstance(x, ast.If))
        # iteration source: <var>[::-1] / <var> with <var> = bin(<param>)[2:]
        it = loop.iter
        if isinstance(it, ast.Subscript) and isinstance(it.slice, ast.Slice):
            it = it.value
        src_param = None
        if isinstance(it, ast.Name):
            for n in ast.walk(fn.node):
                if isinstance(n, ast.Assign) and any(isinstance(t, ast.Name) and t.id == it.id for t in n.targets):
                    v = n.value
                    if isinstance(v, ast.Subscript) and isinstance(v.slice, ast.Slice) and isinstance(v.value, ast.Call) and norm(v.value.func) == "bin" \
                            and isinstance(v.value.args[0], ast.Name) and v.value.args[0].id in fn.params and norm(v.slice.lower) == "2" and v.slice.upper is None:
                        src_param = v.value.args[0].id
        if size is None or src_param is None or npops_per_iter != 1:
            raise AnalysisError("loop popping from '%s' in %s has a shape the bound analysis does not understand (%s)" % (lst, fn.short, fn.loc(loop)))
        # values excluded by early returns on the parameter before the loop
        excluded_pts: Set[int] = set()
        upper_excl = None     # values <= upper_excl return early
        for st in fn.node.body:
            if st is loop or any(st is x for x in ast.walk(loop)):
                break
            if isinstance(st, ast.If) and st.body and isinstance(st.body[-1], ast.Return):
                for atom in (st.test.values if isinstance(st.test, ast.BoolOp) and isinstance(st.test.op, ast.Or) else [st.test]):
                    if isinstance(atom, ast.Compare) and len(atom.ops) == 1 and isinstance(atom.left, ast.Name) and atom.left.id == src_param:
                        try:
                            c = prog.consteval(atom.comparators[0], fn.module)
                        except NotConst:
                            continue
                        if isinstance(atom.ops[0], ast.Eq):
                            excluded_pts.add(c)
                        elif isinstance(atom.ops[0], ast.LtE):
                            upper_excl = c if upper_excl is None else max(upper_excl, c)
                        elif isinstance(atom.ops[0], ast.Lt):
                            upper_excl = c - 1 if upper_excl is None else max(upper_excl, c - 1)
        # callers and their argument ranges
        callers = res.callers_of(fn)
        if not callers:
            raise AnalysisError("%s has no caller: cannot bound its argument" % fn.short)
        worst = None
        for ct in callers:
            a = ct.node.args[0] if ct.node.args else None
            iv = arg_interval(ctx, ct.caller, a) if a is not None else None
            if iv is None:
                raise AnalysisError("cannot bound the argument %s of %s in %s" % (norm(a) if a is not None else "?", fn.short, ct.caller.short))
            lo, hi = iv
            if upper_excl is not None:
                lo = max(lo, upper_excl + 1)
            # the iteration count is monotone in |v| on each side of zero: check the endpoints and the neighbours of excluded points
            cands = {lo, hi}
            for v in (lo, hi):
                k = v
                while k in excluded_pts and lo <= k <= hi:
                    k += 1 if v == lo else -1
                cands.add(k)
            for v in sorted(c for c in cands if lo <= c <= hi and c not in excluded_pts):
                n = bin_len(v)
                if n > size and (worst is None or n > worst[0]):
                    worst = (n, v, ct.caller.short, iv)
        rep.check(worst is None, "C11.R1", key, fn.loc(loop),
                  "%s pops at most %d times from a list of %d" % (fn.short, size, size),
                  bad="%s pops one element per character of bin(%s)[2:] from a %d-element list: for %s = %d (reachable from %s, register range %s) the loop runs %d times -> IndexError, which aborts the whole read instead of yielding None" % (
                      fn.short, src_param, size or 0, src_param, worst[1] if worst else 0, worst[2] if worst else "", worst[3] if worst else "", worst[0] if worst else 0))


def _param_values(ctx: Ctx, fn: FuncInfo, param: str, before: ast.AST):
    """Candidate extreme values of an integer parameter at *before*: the register ranges the call sites can pass, minus
    what early returns on the parameter exclude.  [(value, caller, interval)]; raises AnalysisError when unknown."""
    prog, res = ctx.prog, ctx.res
    excluded_pts: Set[int] = set()
    upper_excl = None
    for st in fn.node.body:
        if st is before or any(st is x for x in ast.walk(before)) or any(before is x for x in ast.walk(st)):
            break
        if isinstance(st, ast.If) and st.body and isinstance(st.body[-1], ast.Return):
            for atom in (st.test.values if isinstance(st.test, ast.BoolOp) and isinstance(st.test.op, ast.Or) else [st.test]):
                if isinstance(atom, ast.Compare) and len(atom.ops) == 1 and isinstance(atom.left, ast.Name) and atom.left.id == param:
                    try:
                        c = prog.consteval(atom.comparators[0], fn.module)
                    except NotConst:
                        continue
                    if isinstance(atom.ops[0], ast.Eq):
                        excluded_pts.add(c)
                    elif isinstance(atom.ops[0], ast.LtE):
                        upper_excl = c if upper_excl is None else max(upper_excl, c)
                    elif isinstance(atom.ops[0], ast.Lt):
                        upper_excl = c - 1 if upper_excl is None else max(upper_excl, c - 1)
    callers = res.callers_of(fn)
    if not callers:
        raise AnalysisError("%s has no caller: cannot bound its argument" % fn.short)
    from ..calls import arg_for
    out = []
    for ct in callers:
        a = arg_for(ct.node, fn, param)
        iv = arg_interval(ctx, ct.caller, a) if a is not None else None
        if iv is None:
            raise AnalysisError("cannot bound the argument %s of %s in %s" % (norm(a) if a is not None else "?", fn.short, ct.caller.short))
        lo, hi = iv
        if upper_excl is not None:
            lo = max(lo, upper_excl + 1)
        cands = {lo, hi}
        for v in (lo, hi):
            k = v
            while k in excluded_pts and lo <= k <= hi:
                k += 1 if v == lo else -1
            cands.add(k)
        for v in sorted(c for c in cands if lo <= c <= hi and c not in excluded_pts):
            out.append((v, ct.caller.short, iv))
    return out


def index_loops(ctx: Ctx, rep: Report, fn: FuncInfo):
    """NAMES[i] with i from range(...): the largest index the loop can produce, over the register ranges the call sites
    pass, must lie inside the constant sequence (an IndexError is not a ValueError: the whole bulk read fails)."""
    prog = ctx.prog
    # loop / comprehension variables bound by range(...)
    binders = []
    for n in ast.walk(fn.node):
        if isinstance(n, ast.For) and isinstance(n.target, ast.Name):
            binders.append((n.target.id, n.iter, n, n))
        elif isinstance(n, (ast.ListComp, ast.GeneratorExp, ast.SetComp, ast.DictComp)):
            for g in n.generators:
                if isinstance(g.target, ast.Name):
                    binders.append((g.target.id, g.iter, n, n))
    for sub in [x for x in ast.walk(fn.node) if isinstance(x, ast.Subscript) and not isinstance(x.slice, ast.Slice) and isinstance(x.slice, ast.Name)]:
        try:
            seq = prog.consteval(sub.value, fn.module)
        except NotConst:
            continue
        if not isinstance(seq, (list, tuple, str, bytes)) or (isinstance(sub.value, ast.Name) and sub.value.id in _locals_of(fn)):
            continue
        b = next((b for b in binders if b[0] == sub.slice.id and any(x is sub for x in ast.walk(b[2]))), None)
        if b is None or not (isinstance(b[1], ast.Call) and norm(b[1].func) == "range" and len(b[1].args) == 1):
            continue          # not a range-driven index (zip / enumerate pairs cannot run past the shorter sequence)
        key = "index-loop:%s:%s" % (fn.short, norm(sub))
        worst = _max_of(ctx, fn, b[1].args[0], b[3])
        if worst is None:
            raise AnalysisError("the bound of range(%s) indexing %s in %s is not understood (%s)" % (norm(b[1].args[0]), norm(sub.value), fn.short, fn.loc(sub)))
        n, witness = worst
        rep.check(n <= len(seq), "C11.R1", key, fn.loc(sub), "%s indexes %s (%d entries) with at most %d" % (fn.short, norm(sub.value), len(seq), n - 1),
                  bad="%s indexes %s (%d entries) with i from range(%s), which reaches %d%s -> IndexError, which aborts the whole read instead of yielding None" % (
                      fn.short, norm(sub.value), len(seq), norm(b[1].args[0]), n - 1, witness))


def _locals_of(fn: FuncInfo) -> Set[str]:
    return set(fn.params) | {n.id for n in ast.walk(fn.node) if isinstance(n, ast.Name) and isinstance(n.ctx, ast.Store)}


def _max_of(ctx: Ctx, fn: FuncInfo, e: ast.expr, before: ast.AST):
    """Largest value of a range() bound: constant, <param>.bit_length(), len(<constant>), min(...) of those."""
    prog = ctx.prog
    try:
        v = prog.consteval(e, fn.module)
        if isinstance(v, int):
            return v, ""
    except NotConst:
        pass
    if isinstance(e, ast.Call) and isinstance(e.func, ast.Attribute) and e.func.attr == "bit_length" and not e.args \
            and isinstance(e.func.value, ast.Name) and e.func.value.id in fn.params:
        best = None
        for v, caller, iv in _param_values(ctx, fn, e.func.value.id, before):
            n = int(v).bit_length()
            if best is None or n > best[0]:
                best = (n, " for %s = %d (reachable from %s, register range %s)" % (e.func.value.id, v, caller, iv))
        return best
    if isinstance(e, ast.Call) and norm(e.func) == "min" and e.args:
        parts = []
        for a in e.args:
            try:
                parts.append(_max_of(ctx, fn, a, before))
            except AnalysisError:
                parts.append(None)
        known = [p_ for p_ in parts if p_ is not None]
        return min(known, key=lambda t: t[0]) if known else None
    return None


# ----------------------------------------------------------------------- R2
def r2(ctx: Ctx, rep: Report):
    prog, res = ctx.prog, ctx.res
    inv = prog.cls("Inverter")
    mr = inv.methods.get("_map_response")
    if mr is None:
        raise AnalysisError("Inverter._map_response not found")
    ok, why = _isolating_loop(prog, mr, "read", ("ValueError",), res)
    rep.check(ok, "C11.R2", "map_response", mr.loc(), "_map_response isolates each sensor (try/except ValueError -> None inside the loop)",
              bad="Inverter._map_response: %s" % why)
    et = prog.cls("ET")
    rs = et.methods.get("read_settings_data")
    ok, why = _isolating_loop(prog, rs, "read_setting", ("ValueError", "RequestFailedException"), res)
    rep.check(ok, "C11.R2", "et-read-settings-data", rs.loc() if rs else et.module.relpath, "ET.read_settings_data isolates each setting",
              bad="ET.read_settings_data: %s" % why)
    # the bulk settings reads the property names (ET, ES): any further loop in them that decodes item by item isolates too
    for famname in ("ET", "ES"):
        fn = prog.cls(famname).methods.get("read_settings_data")
        if fn is None:
            raise AnalysisError("%s.read_settings_data not found" % famname)
        for lp in [x for x in ast.walk(fn.node) if isinstance(x, (ast.For, ast.AsyncFor))]:
            for cname in ("_read_setting", "read_setting", "_read_sensor", "read_value", "read"):
                if famname == "ET" and cname == "read_setting":
                    continue          # judged above
                if any(isinstance(x, ast.Call) and isinstance(x.func, ast.Attribute) and x.func.attr == cname for x in ast.walk(lp)):
                    ok2, why2 = _isolating_loop(prog, fn, cname, ("ValueError",), res)
                    rep.check(ok2, "C11.R2", "%s-read-settings-data:%s" % (famname.lower(), cname), fn.loc(lp), "%s.read_settings_data isolates each setting it decodes through %s()" % (famname, cname),
                              bad="%s.read_settings_data: %s: one setting whose registers cannot be decoded makes the whole bulk read fail" % (famname, why2))
    # who-may-call: sensor.read(...) only inside _map_response; every bulk decode goes through it
    sensor = prog.cls("Sensor")
    reads = set(prog.method_overrides(sensor, "read"))
    for fn in res.all_funcs():
        for ct in res.calls_of(fn):
            if any(f in reads for f in ct.funcs) and isinstance(ct.node.func, ast.Attribute) and ct.node.func.attr == "read":
                if ct.unresolved and any(f not in reads for f in ct.funcs) and len(ct.node.args) == 1 \
                        and isinstance(ct.node.args[0], ast.Constant) and isinstance(ct.node.args[0].value, int):
                    continue      # untyped receiver, name-based candidates: read(<number of bytes>) is the buffer's read, not a sensor's
                recv = ct.node.func.value
                inside_sensor = fn.cls is not None and prog.is_subclass(fn.cls, sensor)
                # a function that decodes the one sensor it was handed (single reads: _read_sensor / _read_setting) is
                # no bulk read: there is no other value its ValueError could take down
                single = isinstance(recv, ast.Name) and recv.id in fn.params and not any(
                    isinstance(lp, (ast.For, ast.AsyncFor, ast.While, ast.ListComp, ast.DictComp, ast.SetComp, ast.GeneratorExp)) and any(x is ct.node for x in ast.walk(lp))
                    for lp in ast.walk(fn.node))
                ok = fn is mr or inside_sensor or single
                rep.check(ok, "C11.R2", "read-caller:%s" % fn.short, fn.loc(ct.node), "Sensor.read is invoked from _map_response",
                          bad="%s calls %s outside _map_response: a ValueError of one sensor aborts the whole read" % (fn.short, norm(ct.node)[:60]))
    for famname in ("ET", "DT", "ES"):
        ci = prog.cls(famname)
        for mname in ("read_runtime_data",) + (("read_settings_data",) if famname == "ES" else ()):
            m = ci.methods.get(mname)
            uses = m is not None and any(isinstance(n, ast.Call) and (call_chain(n) or ("",))[-1] == "_map_response" for n in ast.walk(m.node))
            rep.check(uses, "C11.R2", "via-map:%s.%s" % (famname, mname), m.loc() if m else ci.module.relpath, "%s.%s decodes through _map_response" % (famname, mname),
                      bad="%s.%s no longer decodes through _map_response" % (famname, mname))


def _key_known_present(window, containers=None) -> bool:
    """A test on this stretch of the path established that the result already holds an entry for the item
    (``result.get(k) is None`` false, ``k in result`` true): not storing again leaves the id reported."""
    for ev in window:
        if ev.kind != "test":
            continue
        node, val = ev.node, bool(ev.data)
        while isinstance(node, ast.UnaryOp) and isinstance(node.op, ast.Not):
            node, val = node.operand, not val
        if isinstance(node, ast.Compare) and len(node.ops) == 1:
            op, l, r = node.ops[0], node.left, node.comparators[0]
            is_get = isinstance(l, ast.Call) and isinstance(l.func, ast.Attribute) and l.func.attr == "get" and len(l.args) == 1 \
                and (containers is None or norm(l.func.value) in containers)
            if is_get and isinstance(r, ast.Constant) and r.value is None and \
                    ((isinstance(op, (ast.Is, ast.Eq)) and not val) or (isinstance(op, (ast.IsNot, ast.NotEq)) and val)):
                return True
            # ... membership in the result itself (not in some other collection, e.g. a set of ids already logged)
            if ((isinstance(op, ast.In) and val) or (isinstance(op, ast.NotIn) and not val)) and (containers is None or norm(r) in containers):
                return True
    return False


def _isolating_loop(prog, fn, call_name: str, must_catch, res=None, last_wins: bool = False) -> Tuple[bool, str]:
    """Path rule over the loop around <item>.<call_name>(...): in every iteration in which the call raises one of the
    *must_catch* classes the exception is caught, None is stored for the item and the loop goes on; in every other
    iteration the value is stored.  (Where the store sits relative to the try block does not matter.)"""
    from ..paths import enumerate_paths
    from ..replay import Replay
    if fn is None:
        return False, "method missing"
    classes = []
    for name in must_catch:
        classes.append(prog.cls(name) if prog.has_cls(name) else prog.ext_class("builtins." + name))

    def is_call(n):
        return isinstance(n, ast.Call) and isinstance(n.func, ast.Attribute) and n.func.attr == call_name

    loops = [lp for lp in ast.walk(fn.node) if isinstance(lp, (ast.For, ast.AsyncFor)) and any(is_call(x) for x in ast.walk(lp))]
    if not loops:
        return False, "no loop around %s() found" % call_name
    lp = loops[-1]     # innermost

    def oracle(node, f):
        return classes if is_call(node) else []
    # the handler that isolates one item must not run conversions written in the package (an eager f-string / str() of a
    # setting object calls its __str__, which may raise on a half-decoded object) - lazy logger arguments are fine
    if res is not None:
        for t in [x for x in ast.walk(lp) if isinstance(x, ast.Try)]:
            for h in t.handlers:
                for n in [x for b in h.body for x in ast.walk(b)]:
                    exprs = []
                    if isinstance(n, ast.FormattedValue):
                        exprs = [n.value]
                    elif isinstance(n, ast.Call) and isinstance(n.func, ast.Name) and n.func.id in ("str", "repr", "format") and n.args:
                        exprs = [n.args[0]]
                    elif isinstance(n, ast.BinOp) and isinstance(n.op, ast.Mod) and isinstance(n.left, ast.Constant) and isinstance(n.left.value, str):
                        exprs = list(n.right.elts) if isinstance(n.right, ast.Tuple) else [n.right]
                    for x in exprs:
                        for ty in res.expr_types(x, fn):
                            if ty[0] != "inst":
                                continue
                            owners = [c.name for c in prog.all_subclasses(ty[1]) for mname in ("__str__", "__repr__", "__format__")
                                      if mname in c.methods]
                            if owners:
                                return False, "the handler converts %s to text eagerly (%s): this runs %s.__str__ of the item that just failed to decode, and an exception raised there leaves the loop" % (
                                    norm(x), norm(n)[:40], sorted(set(owners))[0])
    seen_fail = seen_ok = 0
    for p in enumerate_paths(prog, fn, oracle, unroll=1):
        rp = None
        iters = [i for i, ev in enumerate(p.events) if ev.kind == "iter" and ev.node is lp]
        for a, b in zip(iters, iters[1:] + [len(p.events)]):
            if isinstance(p.events[a].data, str):
                continue      # the exit marker
            window = p.events[a:b]
            called = [ev for ev in window if (ev.kind in ("call", "raise")) and is_call(ev.node)]
            if not called:
                continue
            failed = [ev for ev in window if ev.kind == "raise" and is_call(ev.node)]
            closed = b < len(p.events)        # the loop went on to the next item / finished normally
            stores = [(a + k, ev.node) for k, ev in enumerate(window) if ev.kind == "stmt" and isinstance(ev.node, ast.Assign)
                      and isinstance(ev.node.targets[0], ast.Subscript)]
            if rp is None:
                rp = Replay(prog, fn, p)
            is_none = [rp.sym_at(i).lin(st.value).single_term() == ("const", "None") for i, st in stores]
            containers = {norm(n.targets[0].value) for n in ast.walk(fn.node) if isinstance(n, ast.Assign) and isinstance(n.targets[0], ast.Subscript)} | \
                {norm(n.value) for n in ast.walk(fn.node) if isinstance(n, ast.Return) and isinstance(n.value, ast.Name)}
            present = not last_wins and not stores and _key_known_present(window, containers)
            if failed:
                seen_fail += 1
                exc = prog.exc_name(failed[0].data)
                if not closed:
                    return False, "%s raised by %s() for one item ends the whole loop (%s)" % (exc, call_name, p.describe(6))
                if last_wins:
                    continue
                if not present and (not stores or not is_none[-1]):
                    return False, "after %s in %s() the item is not stored as None (%s)" % (exc, call_name, p.describe(6))
            else:
                seen_ok += 1
                if closed and not present and (not stores or is_none[-1]):
                    return False, "the decoded value is not stored into the result (%s)" % p.describe(6)
                if closed and last_wins:
                    i, st = stores[-1]
                    cnode = next(ev.node for ev in window if ev.kind == "call" and is_call(ev.node))
                    if rp.sym_at(i).lin(st.value) != rp.sym_at(i).lin(cnode):
                        return False, "the value stored for the item is %s, not what %s() just returned (%s)" % (norm(st.value), call_name, p.describe(6))
    if not seen_fail or not seen_ok:
        return False, "no iteration of the loop around %s() could be followed" % call_name
    return True, ""
