"""C07 - a response split into two fragments is reassembled exactly."""
from __future__ import annotations

import ast
from typing import List

from .. import AnalysisError
from ..astutil import call_chain, chain, self_store, name_stores
from ..core import Ctx, Report
from ..framing import families
from ..model import norm
from ..paths import enumerate_paths, no_raise
from ..replay import Replay
from ..symx import Sym, Lin, entails_ge, entails_eq
from .c01 import validator_paths, data_param, byte_t
from .proto import only_reached_from, proto_classes, method, protocol_paths, tags, callback_is, loop_callbacks

PID = "C07"
LEVEL = "other"
EXPLANATION = (
    "Fragment handling decided on every path: (R1) both _send_request methods clear _partial_data/_partial_missing before the "
    "transport write; (R2) in the receive callbacks the held fragment is concatenated only under "
    "'_partial_missing == len(data)', the joined bytes are what the validator then checks (C01.R1) and the buffer is cleared on "
    "that path, and the fragment fields are read nowhere else; (R3) the PartialResponseException handler stores the received "
    "bytes, sets _partial_missing to expected - length (linear normal form) and re-arms the timer with self.timeout, while each "
    "validator raises it as (len(data), announced total) only when len(data) is below the announced total and the header up to the "
    "length byte is present. Split points x delays x contents end-to-end are not decided."
    ' (R4, shared with C02.R6) every path of the receive callbacks reaches the reassembly test and the validator.'
    ' (R5, shared with C05.R4) no timer of an earlier request is armed when a request ends, so the wait for the second fragment lasts the configured timeout.'
    ' (R3 first-fragment) the shortest first fragment the property names (5 bytes RTU, 9 bytes TCP / AA55) of a conforming read answer can only end in PartialResponseException; a handler that stores fragments but never joins one violates R2.'
    ' (R6, shared with C06.R6) at most one live timeout per protocol object: no handle is overwritten or forgotten while armed.'
)


def check(ctx: Ctx, rep: Report):
    rep.rule("C07.R1", "no fragment survives a transmission: the partial buffer is cleared before every transport write", 4)
    rep.rule("C07.R4", "every received datagram reaches the reassembly test and the validator (no ad-hoc filtering before it)", 2)
    from .proto import every_datagram_validated as _shared_C07_R4, proto_classes as _pcs
    for _ci in _pcs(ctx):
        _shared_C07_R4(ctx, rep, "C07.R4", _ci)
    rep.rule("C07.R2", "fragments are joined only on exact remaining length, then validated as a whole; buffer cleared; no other reader", 4)
    rep.rule("C07.R3", "stored remainder = expected - length of the caught exception, timer re-armed; raise sites announce (len(data), length byte + overhead) with the header present", 7)
    rep.rule("C07.R5", "the wait for the second fragment lasts the configured timeout: no timer of an earlier request is still armed when a request ends (shared with C05.R4)", 6)
    from .c05 import r4 as _c05_r4
    from ..core import Report as _Report
    sub = _Report("C05", rep.tier)
    _c05_r4(ctx, sub)
    for o in sub.obligations:
        rep.obligations.append(type(o)("C07.R5", o.key, o.where, o.what, o.status, o.detail))
    prog = ctx.prog
    fams = ctx.memo("families", lambda: families(prog, ctx.res))
    for ci in proto_classes(ctx):
        r1(ctx, rep, ci)
        r2(ctx, rep, ci)
        r3_handler(ctx, rep, ci)
    r3_raise_sites(ctx, rep, fams)
    rep.rule("C07.R6", "no timeout handle is orphaned: a stale timer of an earlier transmission would cancel the request while its second fragment is awaited (shared with C06.R6)", 6)
    from .c06 import r6 as _c06_r6
    from ..core import Report as _R6
    _s6 = _R6("C06", rep.tier)
    for _ci in proto_classes(ctx):
        _c06_r6(ctx, _s6, _ci)
    for o in _s6.obligations:
        rep.obligations.append(type(o)("C07.R6", o.key, o.where, o.what, o.status, o.detail))


def r1(ctx, rep, ci):
    fn = method(ctx, ci, "_send_request")
    for p in enumerate_paths(ctx.prog, fn, no_raise):
        sends = [i for i, ev in enumerate(p.events) if ev.kind == "call" and "send" in tags(ev)]
        if not sends:
            continue
        before = p.events[:sends[0]]
        d = any(ev.kind == "stmt" and "store:_partial_data=None" in tags(ev) for ev in before)
        m = any(ev.kind == "stmt" and "store:_partial_missing=0" in tags(ev) for ev in before)
        rep.check(d and m, "C07.R1", "clear-before-send:%s:%s" % (fn.short, p.describe()), fn.loc(p.events[sends[0]].node),
                  "partial buffer cleared before the transmission",
                  bad="%s transmits without clearing %s first: a fragment of the previous transmission could be combined with the next answer [path %s]" % (
                      fn.short, "_partial_data" if not d else "_partial_missing", p.describe()))


def r2(ctx, rep, ci):
    prog = ctx.prog
    cbs = [f for f in loop_callbacks(ctx, ci) if f.name in ("datagram_received", "data_received")]
    for cb in cbs:
        njoin = 0
        seen = set()
        from ..replay import Replay
        from ..symx import Lin, entails_eq
        dparam = cb.params[1]
        for p in protocol_paths(ctx, cb):
            rp = None
            for i, ev in enumerate(p.events):
                if ev.kind != "stmt" or not isinstance(ev.node, ast.Assign):
                    continue
                v = ev.node.value
                if isinstance(v, (ast.Attribute, ast.Name)) and isinstance(ev.node.targets[0], ast.Name):
                    continue          # a local alias of the stored fragment: a read, not the join
                if rp is None:
                    rp = Replay(prog, cb, p)
                sym = rp.sym_at(i)
                pd0 = sym.lin(ast.parse("self._partial_data", mode="eval").body)
                uses_partial = any(isinstance(x, ast.Attribute) and x.attr == "_partial_data" and isinstance(x.ctx, ast.Load) for x in ast.walk(v)) \
                    or any(isinstance(x, ast.Name) and isinstance(x.ctx, ast.Load) and sym.lin(x) == pd0 and not pd0.is_const() for x in ast.walk(v))
                if not uses_partial:
                    continue
                njoin += 1
                # value: <stored fragment> + <the bytes just received>, in this order (symbolic values, so the join may sit in a helper)
                tgt = ev.node.targets[0]
                received = Lin.of_term(("var", dparam))
                pd = sym.lin(ast.parse("self._partial_data", mode="eval").body)
                ok_shape = isinstance(v, ast.BinOp) and isinstance(v.op, ast.Add) and sym.lin(v.left) == pd and sym.lin(v.right) == received
                joined = sym.lin(v)
                missing = sym.lin(ast.parse("self._partial_missing", mode="eval").body)
                guard = ok_shape and entails_eq(rp.facts_before(i), missing - Lin.of_term(("len", ("var", dparam))))
                cleared = any(e3.kind == "stmt" and "store:_partial_data=None" in tags(e3) for e3 in p.events[i + 1:])
                validated = False
                if ok_shape:
                    for k in range(i + 1, len(p.events)):
                        e3 = p.events[k]
                        if e3.kind in ("call", "raise") and isinstance(e3.node, ast.Call) and (call_chain(e3.node) or ("",))[-1] == "validator" \
                                and len(e3.node.args) == 1:
                            validated = rp.sym_at(k).lin(e3.node.args[0]) == joined
                            break
                ok = ok_shape and guard and cleared and validated
                key = "join:%s:%s" % (cb.short, norm(ev.node))
                why = "unexpected shape" if not ok_shape else ("not guarded by '_partial_missing == len(%s)'" % dparam if not guard else (
                    "buffer not cleared afterwards" if not cleared else "joined bytes are not passed to the validator"))
                if ok and key in seen:
                    continue
                seen.add(key)
                rep.check(ok, "C07.R2", key + ("" if ok else ":" + p.describe(6)), cb.loc(ev.node), "fragment joined only on exact remaining length, then validated, buffer cleared",
                          bad="%s: '%s' %s [path %s]" % (cb.short, norm(ev.node), why, p.describe(8)))
        if njoin == 0:
            # the handler still stores fragments (R3) but nothing ever prepends one to what arrives next
            stores = any(isinstance(x, ast.Attribute) and x.attr == "_partial_data" and isinstance(x.ctx, ast.Store) for x in ast.walk(cb.node))
            if not stores:
                raise AnalysisError("%s never joins a fragment" % cb.short)
            rep.violation("C07.R2", "join:%s:none" % cb.short, cb.loc(),
                          "%s keeps a first fragment (self._partial_data) but never joins it with the bytes received next: a response split in two is never reassembled" % cb.short)
    # the fragment fields are read only in the receive callbacks (of either transport: a shared helper serves both)
    all_cbs = [f for f in loop_callbacks(ctx) if f.name in ("datagram_received", "data_received")]
    for c in [x for x in prog.mro(ci) if hasattr(x, "methods")]:
        for m in c.methods.values():
            if only_reached_from(ctx, m, all_cbs):
                continue
            reads = [n for n in ast.walk(m.node) if isinstance(n, ast.Attribute) and n.attr in ("_partial_data", "_partial_missing") and isinstance(n.ctx, ast.Load)]
            rep.check(not reads, "C07.R2", "reader:%s.%s" % (ci.name, m.name), m.loc(), "%s does not read the fragment buffer" % m.short,
                      bad="%s reads the fragment buffer outside the receive callback" % m.short) if reads or m.name in ("_send_request",) else None


def r3_handler(ctx, rep, ci):
    prog = ctx.prog
    partial = prog.cls("PartialResponseException")
    cbs = [f for f in loop_callbacks(ctx, ci) if f.name in ("datagram_received", "data_received")]
    for cb in cbs:
        n = 0
        done = False
        for p in protocol_paths(ctx, cb):
            ci_idx = [i for i, ev in enumerate(p.events) if ev.kind == "catch" and ev.data is partial]
            if not ci_idx or done:
                continue
            n += 1
            i = ci_idx[0]
            h = p.events[i].node
            exname = h.name
            r = Replay(prog, cb, p)
            after = p.events[i + 1:]
            # which variable was validated
            validated = None
            for e2 in p.events[:i]:
                if e2.kind == "raise" and isinstance(e2.node, ast.Call) and (call_chain(e2.node) or ("",))[-1] == "validator" and e2.node.args:
                    validated = norm(e2.node.args[0])
            stores_data = [ev for ev in after if ev.kind == "stmt" and "store:_partial_data" in tags(ev)]
            ok_data = len(stores_data) == 1 and validated is not None and norm(stores_data[0].node.value) == validated
            s = r.sym
            want = Lin.of_term(("attr", ("exc", "PartialResponseException", exname), "expected")) - Lin.of_term(("attr", ("exc", "PartialResponseException", exname), "length"))
            got = s.env.get("self._partial_missing")
            ok_missing = isinstance(got, Lin) and got == want
            from ..astutil import expand_locals as _xl
            rearm = any(ev.kind == "call" and "call_later" in tags(ev) and callback_is(ev.node, "_timeout_mechanism") and ev.node.args
                        and norm(_xl(ev.node.args[0], p.fn_at(p.events.index(ev), cb).node)) == "self.timeout" for ev in after)
            kept = any(ev.kind == "stmt" and "store:_timer" in tags(ev) for ev in after)
            rep.check(ok_data, "C07.R3", "store-fragment:%s" % cb.short, cb.loc(h), "the received bytes are held as the fragment",
                      bad="%s: the partial-response handler does not keep the received bytes (%s) as the fragment" % (cb.short, validated))
            rep.check(ok_missing, "C07.R3", "missing:%s" % cb.short, cb.loc(h), "_partial_missing = expected - length",
                      bad="%s: _partial_missing is %r, not expected - length of the caught PartialResponseException" % (cb.short, got))
            rep.check(rearm and kept, "C07.R3", "rearm:%s" % cb.short, cb.loc(h), "timer re-armed with self.timeout while waiting for the rest",
                      bad="%s: the partial-response handler does not re-arm the timeout with self.timeout" % cb.short)
            done = True
        if n == 0:
            raise AnalysisError("%s has no PartialResponseException handler path" % cb.short)
    # the exception keeps (length, expected) in that order
    init = partial.methods.get("__init__")
    ok = init is not None and init.params[1:3] == ["length", "expected"] and all(
        any(isinstance(nn, (ast.Assign, ast.AnnAssign)) and norm(nn.targets[0] if isinstance(nn, ast.Assign) else nn.target) == "self." + a
            and isinstance(nn.value, ast.Name) and nn.value.id == a for nn in ast.walk(init.node)) for a in ("length", "expected"))
    rep.check(ok, "C07.R3", "exception-fields", partial.module.relpath, "PartialResponseException keeps (length, expected)",
              bad="PartialResponseException.__init__ no longer stores length and expected from its arguments of those names")


def r3_raise_sites(ctx, rep, fams):
    prog = ctx.prog
    partial = prog.cls("PartialResponseException")
    nsites = 0
    for fam in fams.values():
        data = data_param(fam)
        dv = ("var", data)
        ln = Lin.of_term(("len", dv))
        lbb = Lin.of_term(byte_t(data, fam.lb))
        seen = set()
        for p, r in validator_paths(ctx, fam):
            if not (p.end == "raise" and p.end_data is partial and isinstance(p.end_node, ast.Raise)):
                continue
            call = p.end_node.exc
            if id(call) in seen:
                continue
            seen.add(id(call))
            nsites += 1
            ok_args = isinstance(call, ast.Call) and len(call.args) == 2
            why = []
            if ok_args:
                s = r.sym
                a0, a1 = s.lin(call.args[0]), s.lin(call.args[1])
                announced = lbb + Lin.of_const(fam.overhead)
                if a0 != ln:
                    why.append("first argument is %r, not len(%s)" % (a0, data))
                if a1 != announced:
                    why.append("announced total is %r, not %r (length byte + header/trailer)" % (a1, announced))
                if not entails_ge(r.facts, announced - ln - Lin.of_const(1)):
                    why.append("raised without len(%s) < announced total" % data)
                if not entails_ge(r.facts, ln - Lin.of_const(fam.lb + 1)):
                    why.append("raised although the length byte %s[%d] may be absent" % (data, fam.lb))
            else:
                why.append("unexpected constructor arguments")
            rep.check(not why, "C07.R3", "raise-site:%s" % fam.validator.short, fam.validator.loc(p.end_node),
                      "%s raises Partial(len, length byte + %d) only for a short frame with its header present" % (fam.validator.short, fam.overhead),
                      bad="%s: %s" % (fam.validator.short, "; ".join(why)))
    if nsites < 3:
        raise AnalysisError("expected a PartialResponseException raise site in each of the three validators, found %d" % nsites)
    # ... and the shortest first fragment the property names (header up to the length field: 5 bytes Modbus/RTU, 9 bytes
    # Modbus/TCP and AA55) does reach that raise: every other outcome is refuted for such a prefix of a conforming answer
    from ..symx import Fact, joint_contradiction
    from .c01 import vparam_term
    MODBUS_READ = 3
    for fam in fams.values():
        data = data_param(fam)
        ln = Lin.of_term(("len", ("var", data)))
        k = 5 if fam.kind == "rtu" else 9
        A = [Fact("ge", ln - Lin.of_const(k)), Fact("ge", Lin.of_const(k) - ln)]
        lbb = Lin.of_term(byte_t(data, fam.lb))
        if fam.kind == "aa55":
            A.append(Fact("ge", lbb - Lin.of_const(1)))
        else:
            fcb = Lin.of_term(byte_t(data, fam.fc))
            A.append(Fact("eq", fcb - Lin.of_term(vparam_term(fam, "cmd"))))
            A.append(Fact("eq", fcb - Lin.of_const(MODBUS_READ)))
            val = Lin.of_term(vparam_term(fam, "value"))
            A.append(Fact("eq", lbb - val.scale(2)))
            A.append(Fact("ge", val - Lin.of_const(1)))
            A.append(Fact("ge", lbb - Lin.of_const(2)))          # (implied: byte count = 2 x registers >= 2)
        bad = None
        reached = False
        for p, r in validator_paths(ctx, fam):
            is_partial = p.end == "raise" and p.end_data is partial
            if joint_contradiction(A, r.facts) is not None:
                continue
            if is_partial:
                reached = True
            elif bad is None:
                bad = p
        ok = reached and bad is None
        rep.check(ok, "C07.R3", "first-fragment:%s" % fam.validator.short, fam.validator.loc(),
                  "%s: a %d-byte prefix of a conforming read answer (header up to the length field) can only end in PartialResponseException" % (fam.validator.short, k),
                  bad="%s: a first fragment of %d bytes - the header up to the length field of a conforming read answer - %s, so the second fragment is never waited for [path %s]" % (
                      fam.validator.short, k, "is not announced as partial on any path" if not reached else "can end in '%s' instead of PartialResponseException" % (bad.end if bad else ""), bad.describe(6) if bad else ""))
