"""C16 - reading a single sensor gives the same value as the bulk read."""
from __future__ import annotations

import ast
from typing import Dict, List, Set

from .. import AnalysisError
from ..astutil import call_chain, chain, self_store
from ..core import Ctx, Report
from ..decoders import canon_cases, consumed_ranges
from ..model import norm, NotConst
from ..paths import enumerate_paths, no_raise
from ..symx import Sym, Lin
from .c14 import tables_ctx, decoders_ctx, family_ctx
from .c12 import _only_raises

PID = "C16"
LEVEL = "other"
EXPLANATION = (
    "Static rules over the extracted tables and decoder summaries: (R1) for every sensor / setting type of ET and DT (and the ES "
    "settings read singly) the bytes its decoder consumes fit into the ceil(size_/2) registers that _read_sensor requests, and that "
    "request count has the form (size_ + size_ % 2) // 2; (R2) no id listed in a sensors table of ET/DT resolves to a read_value that "
    "only raises NotImplementedError; (R3) cache coherence: every method other than __init__ that writes a field sensors() depends "
    "on resets the id cache _sensors_map on every path after the write (or the cache is rebuilt on every lookup); (R4) the single "
    "path (read command at sensor.offset + read_value) and the bulk path (seek + read_value) decode with the same summary. Numerical "
    "equality against a register file is not decided."
    ' (R5) an id listed twice by sensors() must resolve to the last definition in _get_sensor, as the bulk dictionary does.'
    " (R5 bulk-last-wins) _map_response stores what each row's read() returned unconditionally, so for an id listed twice the bulk value is the one of the definition _get_sensor resolves."
    ' (R5) _get_sensor must resolve ids over the current sensors() (understood lookup) in every family; (R6, shared with C14.R1) bulk values are decoded from fetched registers.'
    ' (R7) read_sensor(id) for an id that _get_sensor finds returns the awaited _read_sensor(<that sensor>).'
)


def check(ctx: Ctx, rep: Report):
    rep.rule("C16.R1", "declared size_ covers the bytes the decoder consumes; _read_sensor requests ceil(size_/2) registers", 30)
    rep.rule("C16.R2", "every id listed by sensors() of ET/DT can be decoded by read_value (no NotImplementedError)", 250)
    rep.rule("C16.R3", "the id cache follows the capability set: writers of sensors()' dependencies invalidate _sensors_map", 4)
    rep.rule("C16.R4", "single and bulk paths use the same decoder summary", 250)
    rep.rule("C16.R5", "an id listed twice by sensors() resolves to the same definition on both paths (bulk: last one stored; single lookup must be last-wins too)", 2)
    rep.rule("C16.R6", "the bulk value of every listed sensor is decoded from registers the bulk request fetched (shared with C14.R1): a value made of missing bytes cannot equal what the single read gets from the register itself", 1)
    from .c14 import check as _c14_check
    _sub = Report("C14", rep.tier)
    _c14_check(ctx, _sub)
    _nv = 0
    for o in _sub.obligations:
        if o.rule == "C14.R1" and o.status != "OK":
            _nv += 1
            rep.obligations.append(type(o)("C16.R6", o.key, o.where, o.what, o.status, o.detail))
    rep.ok("C16.R6", "window:summary", "goodwe/", "%d window obligations of C14.R1 evaluated, %d not satisfied" % (sum(1 for o in _sub.obligations if o.rule == "C14.R1"), _nv))
    rep.rule("C16.R7", "read_sensor(id) for an id _get_sensor finds returns the awaited _read_sensor(<that sensor>)", 2)
    from .c17 import known_id_read
    for _fam in ("ET", "DT"):
        known_id_read(ctx, rep, "C16.R7", _fam, "read_sensor", "self._get_sensor(%s)", ("_read_sensor",))
    prog = ctx.prog
    tabs, dec = tables_ctx(ctx), decoders_ctx(ctx)
    # ---- count expression of _read_sensor / _read_setting
    single_read_form(ctx, rep, "C16.R1")
    # ---- R1 per class used in a singly-readable table
    seen = set()
    for (famname, attr), rows in tabs.tables.items():
        singly = famname in ("ET", "DT") or (famname == "ES" and tabs.is_settings_table(attr))
        if not singly:
            continue
        for row in rows:
            k = (row.cls.name, row.size_)
            if k in seen:
                continue
            seen.add(k)
            rv = prog.find_method(row.cls, "read_value")
            if _only_raises(rv):
                continue   # R2's business
            cases = dec.row_cases(row, "read_value")
            rng = consumed_ranges(cases)
            consumed = max((hi for _, lo, hi in rng), default=0)
            fetched = 2 * ((row.size_ + (row.size_ % 2)) // 2)
            rep.check(consumed <= fetched, "C16.R1", "size:%s:%d" % (row.cls.name, row.size_), "%s:%d" % (row.cls.module.relpath, row.cls.node.lineno),
                      "%s: size_=%d -> %d bytes fetched, %d consumed" % (row.cls.name, row.size_, fetched, consumed),
                      bad="%s declares size_=%d, so a single read fetches %d byte(s), but its decoder consumes %d: read_sensor('%s') decodes from a too short answer (bulk read decodes %d real bytes)" % (
                          row.cls.name, row.size_, fetched, consumed, row.id_, consumed))
    # ---- R2 / R4 per row of the ET / DT sensor tables (and settings)
    for (famname, attr), rows in tabs.tables.items():
        if famname not in ("ET", "DT"):
            continue
        is_sensor_table = not tabs.is_settings_table(attr)
        for row in rows:
            rv = prog.find_method(row.cls, "read_value")
            key = "%s.%s:%s" % (famname, attr, row.id_)
            if _only_raises(rv):
                if is_sensor_table:
                    rep.violation("C16.R2", "single:%s:%s" % (famname, row.id_), row.where(),
                                  "%s lists '%s' (%s) in sensors(), but read_sensor('%s') requests %d register(s) at offset %d and then read_value raises NotImplementedError" % (
                                      famname, row.id_, row.cls.name, row.id_, (row.size_ + row.size_ % 2) // 2, row.offset))
                continue
            if is_sensor_table:
                rep.ok("C16.R2", "single:%s:%s" % (famname, row.id_), row.where(), "'%s' is decodable alone" % row.id_)
            bulk = canon_cases(dec.row_cases(row, "read"))
            single = canon_cases(dec.row_cases(row, "read_value"))
            rep.check(bulk == single, "C16.R4", "same:" + key, row.where(), "'%s': bulk and single decoding agree" % row.id_,
                      bad="%s '%s' (%s): the bulk path decodes %s but the single path decodes %s" % (famname, row.id_, row.cls.name, bulk, single))
    # ES.read_sensor goes through read_runtime_data
    es = prog.cls("ES")
    rs = es.methods.get("read_sensor")
    ok = rs is not None and any(isinstance(n, ast.Call) and call_chain(n) == ("self", "read_runtime_data") for n in ast.walk(rs.node))
    rep.check(ok, "C16.R4", "es-read-sensor", rs.loc() if rs else es.module.relpath, "ES.read_sensor returns the bulk value",
              bad="ES.read_sensor no longer returns the value of read_runtime_data()")
    r3(ctx, rep)
    r5(ctx, rep, tabs)


def lookup_semantics(ctx: Ctx, gs) -> str:
    """'last' when _get_sensor answers from a dict built by a comprehension over self.sensors() keyed by id_ (later
    definitions replace earlier ones - the same as _map_response storing results in table order), 'first' for a
    first-match search, 'unknown' otherwise."""
    from ..astutil import returned_values, single_assignments
    local = single_assignments(gs.node)
    attr_vals = {}
    for n in ast.walk(gs.node):
        if isinstance(n, ast.Assign):
            for a, v, _ in self_store(n):
                attr_vals.setdefault(a, []).append(v)
    if any(isinstance(n, (ast.For, ast.AsyncFor)) and any(isinstance(x, ast.Return) for x in ast.walk(n)) for n in ast.walk(gs.node)):
        return "first"
    kinds = set()
    for v in returned_values(gs.node):
        if isinstance(v, ast.Call) and isinstance(v.func, ast.Name) and v.func.id == "next" and v.args and isinstance(v.args[0], ast.GeneratorExp):
            kinds.add("first")
            continue
        if isinstance(v, ast.Call) and isinstance(v.func, ast.Attribute) and v.func.attr == "get":
            recv = v.func.value
            cands = []
            if isinstance(recv, ast.Name) and recv.id in local:
                cands = [local[recv.id]]
            elif isinstance(recv, ast.Attribute) and isinstance(recv.value, ast.Name) and recv.value.id == "self":
                cands = attr_vals.get(recv.attr, [])
            elif isinstance(recv, ast.DictComp):
                cands = [recv]
            ok = bool(cands) and all(isinstance(c, ast.DictComp) and len(c.generators) == 1 and isinstance(c.key, ast.Attribute) and c.key.attr == "id_"
                                      and norm(c.value) == norm(c.generators[0].target) and not c.generators[0].ifs
                                      and (call_chain(c.generators[0].iter) or ()) == ("self", "sensors") for c in cands)
            kinds.add("last" if ok else "unknown")
            continue
        kinds.add("unknown")
    return kinds.pop() if len(kinds) == 1 else "unknown"


def r5(ctx: Ctx, rep: Report, tabs):
    prog = ctx.prog
    # the bulk side of the agreement: _map_response stores, for every row in table order, what that row's read() just
    # returned - unconditionally, so a later row of the same id replaces an earlier one ('last definition wins')
    from .c11 import _isolating_loop
    mr = prog.find_method(prog.cls("Inverter"), "_map_response")
    ok, why = _isolating_loop(prog, mr, "read", ("ValueError",), ctx.res, last_wins=True)
    rep.check(ok, "C16.R5", "bulk-last-wins", mr.loc() if mr is not None else "goodwe/inverter.py",
              "_map_response stores each row's decoded value unconditionally under its id (last definition wins, as _get_sensor resolves it)",
              bad="_map_response: %s: for an id listed twice the bulk result is no longer the value of the definition that read_sensor() resolves" % why)
    for famname in ("ET", "DT"):
        ci = prog.cls(famname)
        gs = ci.methods.get("_get_sensor")
        seen = {}
        dups = []
        for (f, attr), rows in tabs.tables.items():
            if f != famname or tabs.is_settings_table(attr):
                continue
            for r in rows:
                if r.id_ in seen and (seen[r.id_].cls is not r.cls or seen[r.id_].offset != r.offset):
                    dups.append((seen[r.id_], r))
                seen[r.id_] = r
        sem = lookup_semantics(ctx, gs)
        if not dups:
            # no id is listed twice: any lookup over the current sensors() will do - but it has to be one
            rep.check(sem in ("last", "first"), "C16.R5", "dup-lookup:%s" % famname, gs.loc(), "%s lists no id twice; _get_sensor resolves ids over the current sensors() (%s match)" % (famname, sem),
                      bad="%s._get_sensor does not look the id up in (a map built from) the current sensors(): ids that sensors() lists are unknown to read_sensor(), or resolved from a stale map" % famname)
            continue
        a, b = dups[0]
        rep.check(sem == "last", "C16.R5", "dup-lookup:%s" % famname, gs.loc(),
                  "%s lists %d id(s) twice (e.g. '%s': %s@%s and %s@%s); bulk decoding keeps the last definition and so does _get_sensor" % (
                      famname, len(dups), b.id_, a.cls.name, a.offset, b.cls.name, b.offset),
                  bad="%s lists '%s' twice (%s@%s at %s and %s@%s at %s): read_runtime_data() stores the value of the last definition, but _get_sensor resolves the id by a %s lookup, so read_sensor('%s') decodes other registers than the bulk read" % (
                      famname, b.id_, a.cls.name, a.offset, a.where(), b.cls.name, b.offset, b.where(), "first-match" if sem == "first" else "not understood", b.id_))


def single_read_form(ctx: Ctx, rep: Report, rule: str, fams=("ET", "DT", "ES")):
    """The functions that read one sensor / setting on its own (also the read-back of a written setting, C17 / C19)."""
    prog = ctx.prog
    for famname, mname in (("ET", "_read_sensor"), ("DT", "_read_sensor"), ("ES", "_read_setting")):
        if famname not in fams:
            continue
        fn = prog.cls(famname).methods.get(mname)
        if fn is None:
            raise AnalysisError("%s.%s not found" % (famname, mname))
        ok, why = count_form(ctx, fn)
        rep.check(ok, rule, "count:%s.%s" % (famname, mname), fn.loc(), "%s.%s requests ceil(size_/2) registers at the sensor's offset and decodes the answer from its first byte" % (famname, mname),
                  bad="%s.%s: %s" % (famname, mname, why))


def count_form(ctx: Ctx, fn):
    """count = (size + size % 2) // 2 (any arithmetic equal to ceil(size/2)); request at <param>.offset; decode with read_value."""
    prog = ctx.prog
    param = fn.params[1]
    from ..astutil import calls_through_helpers
    reqs = calls_through_helpers(ctx.res, fn, lambda n: len(n.args) == 2 and ((call_chain(n) or ("",))[-1] in ("_read_command",)
                                                                               or (isinstance(n.func, ast.Name) and n.func.id == "Aa55ReadCommand")))
    if not reqs:
        return False, "no read request is built"
    assigns = {n.targets[0].id: n.value for n in ast.walk(fn.node) if isinstance(n, ast.Assign) and isinstance(n.targets[0], ast.Name)}
    for r in reqs:
        if norm(r.args[0]) != "%s.offset" % param:
            return False, "request address is %s, not %s.offset" % (norm(r.args[0]), param)
        from ..astutil import expand_locals
        from ..astutil import inline_pure_calls
        cnt = inline_pure_calls(ctx.res, fn, expand_locals(r.args[1], fn.node))
        # evaluate the count expression for sizes 0..16 with the constant evaluator
        for size in range(0, 17):
            class _S:   # attribute bag
                pass
            s = _S()
            s.size_ = size
            try:
                v = prog.consteval(cnt, fn.module, {param: s})
            except NotConst as e:
                return False, "count expression %s is not a function of size_ alone (%s)" % (norm(cnt), e)
            if v != (size + 1) // 2:
                return False, "count expression %s gives %s registers for size_=%d (needs %d)" % (norm(cnt), v, size, (size + 1) // 2)
    # the answer starts at the requested register: decoded in place (read_value), or after a seek that lands on byte 0
    # (<param>.read(response) seeks to command.get_offset(<param>.offset): 0 for the commands that count from their
    # first address, the address itself for the others - past the end of the answer)
    body = ast.Module(body=list(fn.node.body), type_ignores=[])
    dec = [n for n in ast.walk(body) if isinstance(n, ast.Call) and call_chain(n) == (param, "read_value")]
    via_seek = [n for n in ast.walk(body) if isinstance(n, ast.Call) and call_chain(n) == (param, "read")]
    if not dec and not via_seek:
        return False, "the answer is not decoded with %s.read_value" % param
    if via_seek:
        from ..framing import families
        from ..paths import enumerate_paths, no_raise
        fams = ctx.memo("families", lambda: families(prog, ctx.res))
        is_req = lambda n: isinstance(n, ast.Call) and any(n is r for r in reqs)
        for p in enumerate_paths(prog, fn, no_raise):
            calls = [ev.node for ev in p.events if ev.kind == "call"]
            if not any(call_chain(c) == (param, "read") for c in calls):
                continue
            on_path = [c for c in calls if is_req(c)] or list(reqs)      # (requests built in a helper: all of them)
            for r in on_path:
                kinds = ["aa55"] if isinstance(r.func, ast.Name) and r.func.id == "Aa55ReadCommand" else ["rtu", "tcp"]
                for fam in fams.values():
                    if fam.kind in kinds and not (fam.offset_uses_first and norm(r.args[0]) == "%s.offset" % param):
                        return False, "%s.read(response) seeks to get_offset(%s.offset), which for the %s command (%s) is %s, not the first byte of the answer to a read of exactly that register: the value is decoded from beyond the answer" % (
                            param, param, fam.kind, norm(r.func), "%d x the address" % fam.offset_scale)
    return True, ""


def r3(ctx: Ctx, rep: Report):
    prog = ctx.prog
    for famname in ("ET", "DT"):
        ci = prog.cls(famname)
        gs = ci.methods.get("_get_sensor")
        sens = ci.methods.get("sensors")
        if gs is None or sens is None:
            raise AnalysisError("%s._get_sensor / sensors not found" % famname)
        cache = "_sensors_map"
        deps: Set[str] = {n.attr for n in ast.walk(sens.node) if isinstance(n, ast.Attribute) and isinstance(n.value, ast.Name) and n.value.id == "self" and isinstance(n.ctx, ast.Load)}
        # is the cache rebuilt on every lookup?  (no 'is None' guard around the rebuild)
        guarded = any(isinstance(n, ast.If) and cache in norm(n.test) for n in ast.walk(gs.node))
        rep.analysed_add("cache_dependencies", "%s.sensors() reads %s" % (famname, sorted(deps)))
        nwriters = 0
        for m in ci.methods.values():
            if m.name == "__init__":
                continue
            writes = [n for n in ast.walk(m.node) if isinstance(n, ast.stmt) and any(a in deps for a, _, _ in self_store(n))]
            if not writes:
                continue
            nwriters += 1
            if not guarded:
                rep.ok("C16.R3", "cache:%s.%s" % (famname, m.name), m.loc(), "%s rebuilds the id map on every lookup" % famname)
                continue
            # every path: after the last write of a dependency there is a reset of the cache
            from ..famstate import Family
            fam = family_ctx(ctx, famname)
            paths = fam.paths(m.name) if m.name in ("read_device_info", "read_runtime_data") else enumerate_paths(prog, m, no_raise)
            bad = None
            for p in paths:
                last_w = max((i for i, ev in enumerate(p.events) if ev.kind == "stmt" and any(a in deps for a, _, _ in self_store(ev.node))), default=-1)
                if last_w < 0:
                    continue
                reset = any(ev.kind == "stmt" and any(a == cache and isinstance(v, ast.Constant) and v.value is None for a, v, _ in self_store(ev.node))
                            for ev in p.events[last_w + 1:])
                if not reset:
                    bad = (p, p.events[last_w].node)
                    break
            rep.check(bad is None, "C16.R3", "cache:%s.%s" % (famname, m.name), m.loc(),
                      "%s.%s resets %s after changing what sensors() returns" % (famname, m.name, cache),
                      bad="%s.%s changes %s (a dependency of sensors()) and does not invalidate %s: ids listed by sensors() afterwards are 'unknown' to read_sensor() if the map was built before [path %s]" % (
                          famname, m.name, norm(bad[1])[:60] if bad else "", cache, bad[0].describe(6) if bad else ""))
        if nwriters == 0:
            raise AnalysisError("%s: no writer of the dependencies of sensors() found" % famname)
