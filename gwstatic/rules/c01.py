"""C01 - only validated response frames are delivered as results."""
from __future__ import annotations

import ast
from typing import Dict, List, Optional, Tuple

from .. import AnalysisError
from ..astutil import chain, call_chain, is_call_to, name_stores, const_true, walk_no_lambda
from ..core import Ctx, Report
from ..framing import families, Family
from ..model import Program, FuncInfo, ClassInfo, NotConst, norm, node_src
from ..paths import enumerate_paths, Path, no_raise
from ..replay import Replay
from ..symx import Sym, Lin, Fact, entails_ge, entails_eq, term_str, domain_constraints

PID = "C01"
LEVEL = "other"
EXPLANATION = (
    "Static analysis of necessary structural conditions: (R1) in every event-loop callback each "
    "response_future.set_result(X) is dominated by the true outcome of command.validator(X) on the same binding of X, and "
    "set_result occurs nowhere else; (R2) every accepting path of the three response validators has tested function code, "
    "byte count, announced length, register/value echo and checksum, with the byte roles derived from the command classes' "
    "trim slices; (R3) a Modbus/RTU rejection is raised only after the CRC matched; (R4) every subscript of the validators is "
    "proven in range from the length facts of its path and nothing but Partial/Rejected can escape; (R5) the CRC routine has "
    "the CRC-16/MODBUS parameters. Decides these clauses for all paths; does not decide CRC arithmetic per byte string."
    ' R1 also includes the binding clause shared with C09.R4: _send_request binds self.command / self.response_future to its arguments before the transport write on every path, so the validator consulted at receive time is the one of the request in flight.'
    " (R1, foreign-writer) no code outside the protocol classes' own methods assigns command / response_future / the fragment buffer / the timer of a protocol object."
    " R1's who-may-call judges set_result on the response future only (other futures of the object are not deliveries)."
)


def validator_paths(ctx: Ctx, fam: Family) -> List[Tuple[Path, Replay]]:
    key = "vpaths:" + fam.name
    def build():
        out = []
        from ..symx import joint_contradiction
        for p in enumerate_paths(ctx.prog, fam.validator, no_raise):
            r = Replay(ctx.prog, fam.validator, p)
            if joint_contradiction(r.facts, r.facts) is not None:
                # the path takes the same comparison both ways (x == c ... x != c): infeasible
                ctx._cache.setdefault("vpaths-infeasible:" + fam.name, []).append(p)
                continue
            out.append((p, r))
        return out
    return ctx.memo(key, build)


def vparam_term(fam: Family, role: str) -> Optional[Tuple]:
    """Term of the validator parameter that receives the command's <role> (cmd / offset / value / response_type)."""
    for pname, expr in fam.validator_args.items():
        if isinstance(expr, ast.Name) and expr.id == role:
            return ("var", pname)
    return None


def data_param(fam: Family) -> str:
    for pname, expr in fam.validator_args.items():
        if isinstance(expr, ast.Name) and expr.id == fam.validator_lambda.params[0]:
            return pname
    raise AnalysisError("validator lambda of %s does not pass its argument on" % fam.name)


def byte_t(data: str, idx: int) -> Tuple:
    return ("byte", ("var", data), Lin.of_const(idx))


def has_eq(facts: List[Fact], lin: Lin) -> bool:
    return entails_eq(facts, lin)


def crc_fact(facts: List[Fact], res, fam: Family, data: str, frame_end: Lin) -> bool:
    """eq( crc(data[start:end-2]) - int(data[end-2:end], little, unsigned) ) with start = index of the address byte."""
    dv = ("var", data)
    lo = frame_end - Lin.of_const(2)
    want_slice = ("slice", dv, Lin.of_const(fam.fc - 1), lo)
    want_word = ("int", ("slice", dv, lo, frame_end), "little", False)
    for f in facts:
        if f.kind != "eq":
            continue
        terms = f.lin.terms
        if len(terms) != 2 or f.lin.const != 0:
            continue
        (t1, c1), (t2, c2) = terms.items()
        if c1 != -c2 or abs(c1) != 1:
            continue
        for a, b in ((t1, t2), (t2, t1)):
            if a[0] == "call" and a[1] == "_modbus_checksum" and len(a[2]) == 1 and a[2][0] == want_slice and b == want_word:
                return True
    return False


def check(ctx: Ctx, rep: Report):
    prog, res = ctx.prog, ctx.res
    fams = ctx.memo("families", lambda: families(prog, res))
    rep.rule("C01.R1", "delivery dominance: set_result(X) only after validator(X) returned True on the same X; no other set_result in the package", 2)
    rep.rule("C01.R2", "accept implies checked: every 'return True' path of a validator carries the framing's required facts", 5)
    rep.rule("C01.R3", "Modbus/RTU: RequestRejectedException is raised only after the CRC comparison passed", 1)
    rep.rule("C01.R4", "validators are total: subscripts proven in range, only Partial/Rejected may escape", 12)
    rep.rule("C01.R5", "CRC routine has the CRC-16/MODBUS parameters (poly 0xA001 reflected, init 0xFFFF, table index (crc^ch)&0xFF, shift 8)", 6)
    for m in prog.modules.values():
        rep.analysed_add("modules", m.relpath)
    r1(ctx, rep, fams)
    # the validator consulted at receive time is the one of the request in flight: _send_request binds self.command
    # (and the future) to its arguments before the write on every path (shared with C09.R4)
    from .c09 import r4 as c09_r4
    sub = Report("C09", rep.tier)
    c09_r4(ctx, sub)
    for o in sub.obligations:
        rep.obligations.append(type(o)("C01.R1", "bind:" + o.key, o.where, o.what, o.status, o.detail))
    # ... and nobody but the protocol's own locked helpers re-binds them afterwards (shared with C06.R1 foreign-writer:*)
    from .c06 import foreign_writers
    foreign_writers(ctx, rep, "C01.R1")
    r2(ctx, rep, fams)
    r3(ctx, rep, fams)
    r4(ctx, rep, fams)
    r5(ctx, rep)


# ----------------------------------------------------------------------- R1
def loop_callbacks(ctx: Ctx) -> List[FuncInfo]:
    """Methods asyncio invokes on the protocol objects (by base class)."""
    prog = ctx.prog
    base = prog.cls("InverterProtocol")
    names = {"asyncio.DatagramProtocol": ("connection_made", "connection_lost", "datagram_received", "error_received"),
             "asyncio.Protocol": ("connection_made", "connection_lost", "data_received", "eof_received")}
    out = []
    for ci in prog.all_subclasses(base, include_self=False):
        for b in prog.mro(ci):
            if isinstance(b, str) and b in names:
                for n in names[b]:
                    m = prog.find_method(ci, n)
                    if m is not None and m not in out:
                        out.append(m)
    return out


def receive_callbacks(ctx: Ctx) -> List[FuncInfo]:
    return [f for f in loop_callbacks(ctx) if f.name in ("datagram_received", "data_received")]


def validator_oracle(ctx: Ctx):
    """Path oracle for the receive callbacks: command.validator(x) may raise what the validators raise;
    Future.set_result / set_exception may raise InvalidStateError."""
    prog, res = ctx.prog, ctx.res
    partial, rejected = prog.cls("PartialResponseException"), prog.cls("RequestRejectedException")
    ise = prog.ext_class("asyncio.InvalidStateError")

    def oracle(node, fn):
        if isinstance(node, ast.Call):
            c = call_chain(node)
            if c and c[-1] == "validator":
                return [partial, rejected]
            if c and c[-1] in ("set_result", "set_exception"):
                return [ise]
        return []
    return oracle


def r1(ctx: Ctx, rep: Report, fams):
    prog, res = ctx.prog, ctx.res
    cbs = receive_callbacks(ctx)
    if len(cbs) < 2:
        raise AnalysisError("expected datagram_received and data_received callbacks, found %s" % [c.short for c in cbs])
    # who-may-call
    for fn in res.all_funcs():
        for n in res._own_nodes(fn):
            if isinstance(n, ast.Call) and isinstance(n.func, ast.Attribute) and n.func.attr == "set_result":
                rc = chain(n.func.value)
                if rc and len(rc) >= 2 and rc[0] == "self" and rc[-1] != "response_future" and not any(
                        isinstance(x, ast.Attribute) and x.attr == "response_future" for m_ in ([fn.cls] if fn.cls else []) for mm in m_.methods.values()
                        for st in ast.walk(mm.node) if isinstance(st, ast.Assign) and any(norm(t) == norm(n.func.value) for t in st.targets) for x in ast.walk(st.value)):
                    continue      # another future of the object (never bound to / from the response future): not a delivery
                inside = fn in cbs
                rep.check(inside, "C01.R1", "set_result-site:%s" % fn.short, fn.loc(n),
                          "set_result is called inside a receive callback (%s)" % fn.short,
                          bad="set_result called outside the validated receive callbacks: %s in %s" % (norm(n), fn.short))
    # the validator attribute resolves to the three validators
    stored = res.stored_callables().get((prog.cls("ProtocolCommand").qualname, "validator"), [])
    targets = set()
    for lam in stored:
        for callee in res.callees(lam):
            targets.add(callee.short)
    want = {f.validator.short for f in fams.values()}
    rep.check(want <= targets, "C01.R1", "validator-targets", "goodwe/protocol.py",
              "command.validator resolves to the framing validators %s" % sorted(want),
              bad="command.validator no longer reaches %s" % sorted(want - targets))
    # the validator of a command is bound once, in ProtocolCommand.__init__, from the constructor argument
    base_init = prog.cls("ProtocolCommand").methods.get("__init__")
    for fn in res.all_funcs():
        for n in res._own_nodes(fn):
            tgts = []
            if isinstance(n, ast.Assign):
                tgts = n.targets
            elif isinstance(n, (ast.AnnAssign, ast.AugAssign)):
                tgts = [n.target]
            for t in tgts:
                if isinstance(t, ast.Attribute) and t.attr == "validator":
                    ok = fn is base_init and isinstance(n.value, ast.Name) and n.value.id in base_init.params
                    rep.check(ok, "C01.R1", "validator-binding:%s" % fn.short, fn.loc(n), "validator bound from the constructor argument in ProtocolCommand.__init__",
                              bad="%s re-binds a command's validator (%s): responses to that command are no longer checked by the framing validator" % (fn.short, norm(n)[:70]))
    oracle = validator_oracle(ctx)
    for cb in cbs:
        rep.analysed_add("functions", cb.qualname)
        paths = enumerate_paths(prog, cb, oracle)
        ndeliver = 0
        for p in paths:
            for i, ev in enumerate(p.events):
                if ev.kind == "call" and isinstance(ev.node.func, ast.Attribute) and ev.node.func.attr == "set_result":
                    ndeliver += 1
                    arg = ev.node.args[0] if ev.node.args else None
                    ok, why = False, ""
                    if not isinstance(arg, ast.Name):
                        why = "delivered value %s is not a plain variable" % (norm(arg) if arg is not None else "<none>")
                    else:
                        # last test of validator(arg) before i
                        j = -1
                        for k in range(i - 1, -1, -1):
                            e2 = p.events[k]
                            if e2.kind != "test":
                                continue
                            tnode = _underlying(p, k)
                            if isinstance(tnode, ast.Call) and (call_chain(tnode) or ("",))[-1] == "validator" \
                                    and len(tnode.args) == 1 and isinstance(tnode.args[0], ast.Name) and tnode.args[0].id == arg.id \
                                    and (call_chain(tnode) or ())[:2] == ("self", "command"):
                                j = k
                                break
                        if j < 0:
                            why = "no test of self.command.validator(%s) precedes the delivery" % arg.id
                        elif p.events[j].data is not True:
                            why = "delivery follows the FALSE outcome of the validator"
                        else:
                            rebinding = [e3 for e3 in p.events[j + 1:i] if e3.kind == "stmt" and arg.id in name_stores(e3.node)]
                            if rebinding:
                                why = "%s is re-bound between validation and delivery (%s)" % (arg.id, norm(rebinding[0].node))
                            else:
                                ok = True
                    rep.check(ok, "C01.R1", "deliver:%s:%s" % (cb.short, p.describe()), cb.loc(ev.node),
                              "set_result(%s) dominated by validator(%s) is True" % (norm(arg) if arg is not None else "", norm(arg) if arg is not None else ""),
                              bad="%s: %s [path %s]" % (cb.short, why, p.describe()))
        if ndeliver == 0:
            raise AnalysisError("no delivering path found in %s" % cb.short)


def _underlying(p: Path, k: int) -> ast.AST:
    """The expression a test atom stands for: a plain variable is traced to its last assignment on the path."""
    node = p.events[k].node
    if isinstance(node, ast.Name):
        for e in reversed(p.events[:k]):
            if e.kind == "stmt" and isinstance(e.node, ast.Assign) and len(e.node.targets) == 1 \
                    and isinstance(e.node.targets[0], ast.Name) and e.node.targets[0].id == node.id:
                return e.node.value
            if e.kind == "stmt" and node.id in name_stores(e.node):
                break
    return node


# ----------------------------------------------------------------------- R2
def accepting(p: Path) -> bool:
    return p.end == "return" and const_true(p.end_node.value)


def r2(ctx: Ctx, rep: Report, fams: Dict[str, Family]):
    prog = ctx.prog
    for fam in fams.values():
        rep.analysed_add("functions", fam.validator.qualname)
        data = data_param(fam)
        dv = ("var", data)
        ln = Lin.of_term(("len", dv))
        vp = validator_paths(ctx, fam)
        acc = [(p, r) for p, r in vp if accepting(p)]
        if not acc:
            raise AnalysisError("validator %s has no accepting path" % fam.validator.short)
        seen_keys = set()
        for p, r in acc:
            facts = r.facts
            fkey = tuple(sorted(repr(f) for f in facts))
            if fkey in seen_keys:
                continue   # loop unrollings that establish the same facts
            seen_keys.add(fkey)
            where = fam.validator.loc(p.end_node)
            pk = "%s:%s" % (fam.validator.short, "|".join(sorted(repr(f) for f in facts))[:200])
            if fam.kind == "aa55":
                _r2_aa55(ctx, rep, fam, p, r, data, where)
                continue
            fc_t = byte_t(data, fam.fc)
            lb_t = byte_t(data, fam.lb)
            cmd_t = vparam_term(fam, "cmd")
            off_t = vparam_term(fam, "offset")
            val_t = vparam_term(fam, "value")
            if None in (cmd_t, off_t, val_t):
                raise AnalysisError("validator lambda of %s does not pass cmd/offset/value" % fam.name)
            allowed, excluded, equals = domain_constraints(facts, fc_t)
            if cmd_t in equals:
                # function code == cmd on this path: what the path tests about cmd holds for the function code as well
                allowed_c, excluded_c, _ = domain_constraints(facts, cmd_t)
                if allowed_c is not None:
                    allowed = set(allowed_c) if allowed is None else (set(allowed) & set(allowed_c))
                excluded = set(excluded) | set(excluded_c)
                if allowed is not None:
                    allowed = {c for c in allowed if c not in excluded}
            missing = []
            if cmd_t not in equals:
                missing.append("function code %s == cmd" % term_str(fc_t))
            dom = set(fam.cmd_domain)
            rd = prog.consteval(ast.parse("MODBUS_READ_CMD", mode="eval").body, fam.validator.module) if prog.lookup(fam.validator.module, "MODBUS_READ_CMD") else 3
            if allowed is not None and allowed == {rd}:
                kind = "read"
                if not has_eq(facts, Lin.of_term(lb_t) - Lin.of_term(val_t).scale(2)):
                    missing.append("byte count %s == 2*value" % term_str(lb_t))
                if not entails_ge(facts, ln - Lin.of_term(lb_t) - Lin.of_const(fam.overhead)):
                    missing.append("len(data) >= %s + %d" % (term_str(lb_t), fam.overhead))
                frame_end = Lin.of_term(lb_t) + Lin.of_const(fam.overhead)
            elif allowed is not None and allowed <= (dom - {rd}) and allowed:
                kind = "write"
                minlen = fam.fc + 5 + fam.tail
                if not entails_ge(facts, ln - Lin.of_const(minlen)):
                    missing.append("len(data) >= %d" % minlen)
                reg = ("int", ("slice", dv, Lin.of_const(fam.fc + 1), Lin.of_const(fam.fc + 3)), "big", False)
                if not has_eq(facts, Lin.of_term(reg) - Lin.of_term(off_t)):
                    missing.append("register echo data[%d:%d] (unsigned) == offset" % (fam.fc + 1, fam.fc + 3))
                okv = False
                for signed in (True, False):
                    v = ("int", ("slice", dv, Lin.of_const(fam.fc + 3), Lin.of_const(fam.fc + 5)), "big", signed)
                    okv = okv or has_eq(facts, Lin.of_term(v) - Lin.of_term(val_t))
                if not okv:
                    missing.append("value echo data[%d:%d] == value" % (fam.fc + 3, fam.fc + 5))
                frame_end = Lin.of_const(minlen)
            else:
                # neither read nor write: must be infeasible for the function codes the commands are built with
                feasible_codes = {c for c in dom if c not in excluded and (allowed is None or c in allowed)}
                if cmd_t in equals and not feasible_codes:
                    rep.ok("C01.R2", "infeasible:" + pk, where, "accepting path for other function codes is infeasible for cmd in %s" % sorted(dom))
                    continue
                kind = "other"
                missing.append("an accepting path exists for function code(s) %s without the read/write checks" % sorted(feasible_codes or dom))
                frame_end = ln
            if fam.has_checksum and kind != "other":
                if not crc_fact(facts, ctx.res, fam, data, frame_end):
                    missing.append("CRC-16 over data[%d:end-2] equals the little-endian word at end-2 (end = %r)" % (fam.fc - 1, frame_end))
            rep.check(not missing, "C01.R2", "accept:%s:%s" % (fam.validator.short, kind + ":" + pk[-120:]), where,
                      "%s accepting path (%s) has tested function code, length, echo%s" % (fam.validator.short, kind, ", CRC" if fam.has_checksum else ""),
                      bad="%s accepts a frame without checking: %s [path %s]" % (fam.validator.short, "; ".join(missing), p.describe()))


def _r2_aa55(ctx: Ctx, rep: Report, fam: Family, p: Path, r: Replay, data: str, where: str):
    prog = ctx.prog
    facts = r.facts
    dv = ("var", data)
    ln = Lin.of_term(("len", dv))
    lb = Lin.of_term(byte_t(data, fam.lb))
    missing = []
    total = lb + Lin.of_const(fam.overhead)
    if not (entails_ge(facts, ln - total) and entails_ge(facts, total - ln)) and not has_eq(facts, ln - total):
        missing.append("len(data) == %r" % total)
    rt_t = vparam_term(fam, "response_type")
    # response type: int(response_type, 16) == int.from_bytes(data[lb-2:lb], big)
    rt_ok = False
    lo, hi = Lin.of_const(fam.lb - 2), Lin.of_const(fam.lb)
    for f in facts:
        if f.kind == "eq" and len(f.lin.terms) == 2 and f.lin.const == 0:
            ts = list(f.lin.terms)
            for a, b in ((ts[0], ts[1]), (ts[1], ts[0])):
                if a[0] == "int" and a[1] == ("slice", dv, lo, hi) and a[2] == "big" and b[0] == "call" and b[1] == "int" \
                        and b[2] and b[2][0] == rt_t:
                    rt_ok = True
    if not rt_ok:
        # the type check is skipped when response_type is falsy: infeasible iff every construction site passes a non-empty literal
        skipped = any(f.kind == "falsy" and f.data == rt_t for f in facts)
        if skipped and fam.response_types and all(isinstance(x, str) and x for x in fam.response_types):
            rep.ok("C01.R2", "infeasible:aa55-empty-response-type", where,
                   "path skipping the response-type test is infeasible: all %d construction sites pass a non-empty type" % len(fam.response_types))
            return
        missing.append("response type data[%d:%d] == expected type" % (fam.lb - 2, fam.lb))
    # additive checksum: sum(data[:-2]) == int(data[-2:], big)
    ck_ok = False
    want_sum = ("call", "sum", (("slice", dv, None, Lin.of_const(-2)),))
    for f in facts:
        if f.kind == "eq" and f.lin.const == 0 and len(f.lin.terms) == 2:
            ts = list(f.lin.terms)
            for a, b in ((ts[0], ts[1]), (ts[1], ts[0])):
                if a == want_sum and b[0] == "int" and b[1] == ("slice", dv, Lin.of_const(-2), None) and b[2] == "big":
                    ck_ok = True
                # masked sum: (sum & 0xFFFF)
                if a[0] == "call" and a[1] == "BitAnd" and want_sum in a[2] and b[0] == "int" and b[1] == ("slice", dv, Lin.of_const(-2), None) and b[2] == "big":
                    ck_ok = True
    if not ck_ok:
        missing.append("additive checksum sum(data[:-2]) == big-endian word data[-2:]")
    rep.check(not missing, "C01.R2", "accept:%s:%s" % (fam.validator.short, "|".join(sorted(repr(f) for f in facts))[-160:]), where,
              "%s accepting path has tested exact length, response type and checksum" % fam.validator.short,
              bad="%s accepts a frame without checking: %s [path %s]" % (fam.validator.short, "; ".join(missing), p.describe()))


# ----------------------------------------------------------------------- R3
def r3(ctx: Ctx, rep: Report, fams):
    rejected = ctx.prog.cls("RequestRejectedException")
    for fam in fams.values():
        if fam.kind != "rtu":
            continue
        data = data_param(fam)
        ln = Lin.of_term(("len", ("var", data)))
        n = 0
        for p, r in validator_paths(ctx, fam):
            if p.end == "raise" and p.end_data is rejected:
                n += 1
                ok = crc_fact(r.facts, ctx.res, fam, data, ln)
                if not ok:
                    # read/write shaped exception frames cannot occur (exception codes have the high bit set),
                    # but a CRC over the announced frame is just as good
                    ok = any(f.kind == "eq" and any(t[0] == "call" and t[1] == "_modbus_checksum" for t in f.lin.terms) for f in r.facts)
                rep.check(ok, "C01.R3", "reject-after-crc:%s" % p.describe(), fam.validator.loc(p.end_node),
                          "RequestRejectedException raised after the CRC comparison passed",
                          bad="%s raises RequestRejectedException on a path that never verified the CRC [path %s]" % (fam.validator.short, p.describe()))
        if n == 0:
            raise AnalysisError("RTU validator has no rejecting path")


# ----------------------------------------------------------------------- R4
TOTAL_CALLS = {"memoryview", "data.find", "data.rfind", "data.startswith", "data.endswith", "struct.unpack_from", "unpack_from", "len", "int.from_bytes", "isinstance", "bool", "FAILURE_CODES.get", "sum", "bytes", "bytearray", "hex", "str", "range"}


def r4(ctx: Ctx, rep: Report, fams):
    prog, res = ctx.prog, ctx.res
    allowed = {prog.cls("PartialResponseException"), prog.cls("RequestRejectedException")}
    for fam in fams.values():
        data = data_param(fam)
        dv = ("var", data)
        ln = Lin.of_term(("len", dv))
        fn = fam.validator
        done = {}
        for p, r in validator_paths(ctx, fam):
            for i, ev in enumerate(p.events):
                if ev.kind not in ("test", "stmt", "call", "return", "raise"):
                    continue
                node = ev.node
                if ev.kind == "call":
                    continue  # arguments are covered by the enclosing statement / test
                for sub, extra in _guarded_subscripts(node, r.sym_at(i)):
                    base = sub.value
                    if not (isinstance(base, ast.Name) and base.id == data) or isinstance(sub.slice, ast.Slice):
                        continue
                    sym = r.sym_at(i)
                    idx = sym.lin(sub.slice)
                    facts = r.facts_before(i) + extra
                    ok_hi = entails_ge(facts, ln - idx - Lin.of_const(1))
                    ok_lo = entails_ge(facts, idx) or entails_ge(facts, ln + idx)
                    k = (id(sub))
                    prev = done.get(k, (True, None))
                    done[k] = (prev[0] and ok_hi and ok_lo, sub if not (ok_hi and ok_lo) else prev[1], idx, p, sub)
                # struct.unpack_from(fmt, data, off): needs off + size(fmt) bytes (struct.error otherwise)
                for call in [x for x in ast.walk(node) if isinstance(x, ast.Call) and norm(x.func) in ("struct.unpack_from", "unpack_from")]:
                    sym = r.sym_at(i)
                    t = sym.lin(call).single_term()
                    okc = False
                    need = None
                    if t is not None and t[0] == "tuple" and len(call.args) >= 2 and isinstance(call.args[1], ast.Name) and call.args[1].id == data:
                        off = sym.lin(call.args[2]) if len(call.args) > 2 else Lin.of_const(0)
                        need = off + t[2]
                        facts = r.facts_before(i)
                        okc = entails_ge(facts, ln - need) and entails_ge(facts, off)
                    prev = done.get(id(call), (True, None))
                    done[id(call)] = (prev[0] and okc, None, need, p, call)
        for k, v in done.items():
            ok = v[0]
            sub = v[4]
            rep.check(ok, "C01.R4", "index:%s:%s" % (fn.short, norm(sub)), fn.loc(sub),
                      "%s proven inside the frame on every path reaching it" % norm(sub),
                      bad="%s: %s may be out of range (index %r not bounded by the length facts) [path %s]" % (fn.short, norm(sub), v[2], v[3].describe()))
        # escape set
        raised_ctor = {id(x.exc) for x in ast.walk(fn.node) if isinstance(x, ast.Raise) and x.exc is not None}
        for n in walk_no_lambda(fn.node):
            if id(n) in raised_ctor:
                continue
            if isinstance(n, ast.Raise):
                e = n.exc.func if isinstance(n.exc, ast.Call) else n.exc
                cls = prog.resolve_exc_expr(fn.module, e) if e is not None else []
                rep.check(all(c in allowed for c in cls), "C01.R4", "raise:%s:%s" % (fn.short, norm(e) if e is not None else "bare"), fn.loc(n),
                          "explicit raise is a documented outcome",
                          bad="%s raises %s, not a documented validator outcome" % (fn.short, norm(n)))
            elif isinstance(n, ast.Call):
                ct = res.resolve_call(n, fn)
                nm = norm(n.func)
                if ct.funcs:
                    # package callees: must be total helpers (checked syntactically: no raise, no subscripts on params)
                    for c in ct.funcs:
                        bad = [x for x in ast.walk(c.node) if isinstance(x, ast.Raise)]
                        rep.check(not bad, "C01.R4", "callee:%s->%s" % (fn.short, c.short), fn.loc(n),
                                  "callee %s contains no raise" % c.short,
                                  bad="%s calls %s which raises" % (fn.short, c.short))
                        for tb in [x for x in ast.walk(c.node) if isinstance(x, ast.Call) and isinstance(x.func, ast.Attribute) and x.func.attr == "to_bytes"]:
                            okb, whyb = _to_bytes_total(prog, c, tb)
                            rep.check(okb, "C01.R4", "to_bytes:%s->%s" % (fn.short, c.short), c.loc(tb),
                                      "to_bytes in %s cannot overflow (%s)" % (c.short, whyb),
                                      bad="%s calls %s whose %s raises OverflowError for large inputs (%s): the validator fails with an undocumented outcome" % (
                                          fn.short, c.short, norm(tb)[:60], whyb))
                elif nm.startswith("logger.") or nm in TOTAL_CALLS:
                    pass
                elif nm == "int" :
                    # int(text, 16): raises ValueError unless the text is a hex literal at every construction site
                    if len(n.args) == 2:
                        okh = bool(fam.response_types) and all(isinstance(x, str) and _is_hex(x) for x in fam.response_types)
                        rep.check(okh, "C01.R4", "int-hex:%s" % fn.short, fn.loc(n),
                                  "int(response_type, 16) total: all %d construction sites pass hex literals" % len(fam.response_types),
                                  bad="int(%s, 16) may raise ValueError: a construction site passes a non-hex response type" % norm(n.args[0]))
                elif isinstance(n.func, ast.Attribute) and n.func.attr == "hex" and not n.args and not n.keywords and (
                        isinstance(n.func.value, ast.Subscript) or isinstance(n.func.value, ast.Name)):
                    pass      # bytes.hex() of the frame / a slice of it: total
                elif isinstance(n.func, ast.Attribute) and n.func.attr == "to_bytes":
                    # <request parameter>.to_bytes(n): OverflowError unless the value is reduced to n unsigned bytes - the
                    # value of a write is a signed 16-bit number, the register an unsigned one
                    okb, whyb = _to_bytes_total(prog, fn, n)
                    if not okb and isinstance(n.func.value, ast.Name) and len(fn.params) >= 4 and n.func.value.id == fn.params[2] and n.args:
                        # the register address of the request: 0..0xFFFF by construction (every request builder cuts it to 16 bits)
                        try:
                            nb = prog.consteval(n.args[0], fn.module)
                        except NotConst:
                            nb = None
                        sg = next((k.value for k in n.keywords if k.arg == "signed"), None)
                        if isinstance(nb, int) and nb >= 2 and (sg is None or (isinstance(sg, ast.Constant) and sg.value is False)):
                            okb, whyb = True, "register address, unsigned 16 bit"
                    if not okb and isinstance(n.func.value, ast.Name) and len(fn.params) >= 4 and n.func.value.id == fn.params[3] and n.args:
                        # the value of the request: a signed 16-bit number (C02.R5 / C17.R2 hold the write sites to that domain)
                        try:
                            nb = prog.consteval(n.args[0], fn.module)
                        except NotConst:
                            nb = None
                        sg = next((k.value for k in n.keywords if k.arg == "signed"), None)
                        if isinstance(nb, int) and nb >= 2 and isinstance(sg, ast.Constant) and sg.value is True:
                            okb, whyb = True, "request value, signed 16 bit, converted signed"
                    rep.check(okb, "C01.R4", "to_bytes:%s:%s" % (fn.short, norm(n)[:40]), fn.loc(n),
                              "%s cannot overflow (%s)" % (norm(n)[:40], whyb),
                              bad="%s: %s raises OverflowError for values outside the unsigned range (%s; a written value may be negative): the validator fails with an undocumented outcome" % (
                                  fn.short, norm(n)[:60], whyb))
                else:
                    raise AnalysisError("unclassified primitive %s in validator %s (%s)" % (nm, fn.short, fn.loc(n)))
            elif isinstance(n, ast.BinOp) and isinstance(n.op, (ast.Div, ast.FloorDiv, ast.Mod)):
                try:
                    d = prog.consteval(n.right, fn.module)
                except NotConst:
                    d = None
                rep.check(isinstance(d, (int, float)) and d != 0, "C01.R4", "division:%s:%s" % (fn.short, norm(n)[:40]), fn.loc(n),
                          "%s divides by the non-zero constant %r" % (norm(n)[:40], d),
                          bad="%s: %s may divide by zero (ZeroDivisionError is an undocumented outcome)" % (fn.short, norm(n)[:60]))


def _to_bytes_total(prog, fn, call):
    """x.to_bytes(n, ...) is total iff x is reduced to n bytes (x & (256**n - 1) or x % 256**n)."""
    sym = Sym.for_function(prog, fn)
    t = sym.lin(call).single_term()
    if t is None or t[0] != "tobytes" or t[2] is None:
        return False, "shape not understood"
    operand, n, signed = t[1], t[2], t[4]
    if signed:
        return False, "signed conversion of an unreduced value"
    if operand[0] == "call" and operand[1] == "BitAnd":
        masks = [o[1].const for o in operand[2] if o[0] == "lin" and o[1].is_const()]
        if masks and 0 <= masks[0] < 256 ** n:
            return True, "operand masked with 0x%X" % int(masks[0])
    if operand[0] == "lin" and operand[1].is_const() and 0 <= operand[1].const < 256 ** n:
        return True, "constant"
    return False, "the operand is not reduced to %d bytes" % n


def _is_hex(s: str) -> bool:
    try:
        int(s, 16)
        return True
    except ValueError:
        return False


def _guarded_subscripts(node: ast.AST, sym: Sym, extra: Optional[List[Fact]] = None):
    """(Subscript, facts from enclosing conditional expressions / short-circuit operators)."""
    extra = extra or []
    if isinstance(node, (ast.Lambda, ast.FunctionDef, ast.AsyncFunctionDef)):
        return
    if isinstance(node, ast.IfExp):
        yield from _guarded_subscripts(node.test, sym, extra)
        yield from _guarded_subscripts(node.body, sym, extra + sym.facts_of(node.test, True))
        yield from _guarded_subscripts(node.orelse, sym, extra + sym.facts_of(node.test, False))
        return
    if isinstance(node, ast.BoolOp):
        acc = list(extra)
        for v in node.values:
            yield from _guarded_subscripts(v, sym, acc)
            acc = acc + sym.facts_of(v, isinstance(node.op, ast.And))
        return
    if isinstance(node, ast.Subscript):
        yield node, extra
    if isinstance(node, (ast.If, ast.While, ast.For, ast.Try, ast.With)):
        return  # compound statements are covered by their own events
    for c in ast.iter_child_nodes(node):
        yield from _guarded_subscripts(c, sym, extra)


# ----------------------------------------------------------------------- R5
def r5(ctx: Ctx, rep: Report):
    prog = ctx.prog
    ck = prog.func("modbus._modbus_checksum")
    tb = prog.func("modbus._create_crc16_table")
    mod = ck.module
    rep.analysed_add("functions", ck.qualname)
    rep.analysed_add("functions", tb.qualname)
    # checksum: crc = 0xFFFF; for ch in data: crc = (crc >> 8) ^ T[(crc ^ ch) & 0xFF]; return crc
    body = [s for s in ck.node.body if not (isinstance(s, ast.Expr) and isinstance(s.value, ast.Constant))]
    # local aliases of module constants (table = _CRC_16_TABLE, hoisted out of the loop) are substituted
    from ..astutil import subst as _subst_names
    aliases = {}
    stores = {}
    for n in ast.walk(ck.node):
        if isinstance(n, ast.Name) and isinstance(n.ctx, ast.Store):
            stores[n.id] = stores.get(n.id, 0) + 1
    for st in list(body):
        if isinstance(st, ast.Assign) and len(st.targets) == 1 and isinstance(st.targets[0], ast.Name) and isinstance(st.value, ast.Name) \
                and stores.get(st.targets[0].id) == 1 and st.value.id not in ck.params and (prog.lookup(mod, st.value.id) or ("",))[0] == "const":
            aliases[st.targets[0].id] = st.value
            body.remove(st)
    if aliases:
        body = [_subst_names(st, aliases) for st in body]
    init_ok = loop_ok = ret_ok = False
    table_name = None
    if len(body) == 3 and isinstance(body[0], ast.Assign) and isinstance(body[1], ast.For) and isinstance(body[2], ast.Return):
        acc = body[0].targets[0].id if isinstance(body[0].targets[0], ast.Name) else None
        try:
            init_ok = prog.consteval(body[0].value, mod) == 0xFFFF
        except NotConst:
            init_ok = False
        loop = body[1]
        data_p = ck.params[0]
        if isinstance(loop.iter, ast.Name) and loop.iter.id == data_p and isinstance(loop.target, ast.Name) and len(loop.body) == 1 \
                and isinstance(loop.body[0], ast.Assign) and isinstance(loop.body[0].targets[0], ast.Name) and loop.body[0].targets[0].id == acc:
            ch = loop.target.id
            v = loop.body[0].value
            # (crc >> 8) ^ T[(crc ^ ch) & 0xFF]   (operands of ^ in either order)
            if isinstance(v, ast.BinOp) and isinstance(v.op, ast.BitXor):
                for a, b in ((v.left, v.right), (v.right, v.left)):
                    if isinstance(a, ast.BinOp) and isinstance(a.op, ast.RShift) and isinstance(a.left, ast.Name) and a.left.id == acc \
                            and _const(prog, mod, a.right) == 8 and isinstance(b, ast.Subscript) and isinstance(b.value, ast.Name):
                        idx = b.slice
                        if isinstance(idx, ast.BinOp) and isinstance(idx.op, ast.BitAnd):
                            for x, y in ((idx.left, idx.right), (idx.right, idx.left)):
                                if _const(prog, mod, y) == 0xFF and isinstance(x, ast.BinOp) and isinstance(x.op, ast.BitXor) \
                                        and {norm(x.left), norm(x.right)} == {acc, ch}:
                                    loop_ok = True
                                    table_name = b.value.id
        ret_ok = isinstance(body[2].value, ast.Name) and body[2].value.id == acc
    rep.check(init_ok, "C01.R5", "crc:init", ck.loc(), "CRC initial value is 0xFFFF", bad="CRC initial value is not 0xFFFF in _modbus_checksum")
    rep.check(loop_ok, "C01.R5", "crc:update", ck.loc(), "CRC update is (crc >> 8) ^ T[(crc ^ ch) & 0xFF]",
              bad="_modbus_checksum update step is not (crc >> 8) ^ T[(crc ^ ch) & 0xFF]")
    rep.check(ret_ok, "C01.R5", "crc:return", ck.loc(), "checksum returns the accumulator without final xor",
              bad="_modbus_checksum does not return the plain accumulator")
    # the table used is built by _create_crc16_table()
    tbl_ok = False
    if table_name:
        b = prog.lookup(mod, table_name)
        if b and b[0] == "const" and isinstance(b[1], ast.Call) and norm(b[1].func) == tb.name and len(mod.global_assigns.get(table_name, [])) == 1:
            tbl_ok = True
    rep.check(tbl_ok, "C01.R5", "crc:table-binding", ck.loc(), "lookup table is the module constant built once by _create_crc16_table()",
              bad="the CRC lookup table is not the constant built by _create_crc16_table()")
    # table construction: the builder is a closed function; it is folded to the constant it denotes and compared
    # with the CRC-16/MODBUS table (reflected polynomial 0xA001) computed here from the definition
    from ..constfold import fold_function
    try:
        folded = fold_function(prog, tb)
    except NotConst as e:
        raise AnalysisError("_create_crc16_table cannot be folded to a constant: %s" % e)
    ref = []
    for i in range(256):
        c = i
        for _ in range(8):
            c = (c >> 1) ^ 0xA001 if c & 1 else c >> 1
        ref.append(c)
    range_ok = bits_ok = isinstance(folded, (tuple, list)) and len(folded) == 256
    poly_ok = cond_ok = app_ok = range_ok and list(folded) == ref
    rep.check(range_ok and bits_ok, "C01.R5", "crc:table-shape", tb.loc(), "table has 256 entries of 8 shift steps each",
              bad="_create_crc16_table does not build a table of 256 entries")
    rep.check(poly_ok and cond_ok and app_ok, "C01.R5", "crc:poly", tb.loc(), "reflected polynomial 0xA001 applied when the low bit of (value ^ crc) is set",
              bad="_create_crc16_table does not produce the CRC-16/MODBUS table (reflected polynomial 0xA001): first difference at index %s" % (
                  next((i for i, (a, b) in enumerate(zip(list(folded) if isinstance(folded, (tuple, list)) else [], ref)) if a != b), "?")))


def _const(prog, mod, e):
    try:
        return prog.consteval(e, mod)
    except NotConst:
        return None
