"""C06 - concurrent callers are serialised and each gets its own answer."""
from __future__ import annotations

import ast
from typing import List, Optional

from .. import AnalysisError
from ..astutil import call_chain, chain, self_store
from ..core import Ctx, Report
from ..effects import MaySuspend
from ..model import norm, FuncInfo
from ..paths import enumerate_paths, no_raise, Path
from .proto import only_reached_from, proto_classes, method, protocol_paths, tags, loop_callbacks, net_mayraise, feasible

PID = "C06"
LEVEL = "other"
EXPLANATION = (
    "Lock discipline decided by typestate replay of every syntactic path of send_request / close and by who-may-call over the "
    "resolved call graph: (R1) the statements that put a request in flight (transport write, bindings of command / response_future "
    "/ partial buffers / timer in task context) live only in functions called from inside the locked region of send_request; (R2) "
    "every exit of send_request and TcpInverterProtocol.close has released the lock this activation acquired, and a release happens "
    "only while holding it or under the locked() guard with no suspension since the lock was known free; (R3) every recursive retry "
    "is preceded by the release and nothing is transmitted in between; (R4) an unlocked _close_transport() in task context is "
    "reached only with no await that can suspend since the lock was held (may_suspend effect summary), including "
    "UdpInverterProtocol.close() reached from ProtocolCommand.execute; (R5) send_request awaits and returns the future object "
    "created in this activation and hands that same object to _send_request. Interleavings against a peer are not decided."
    ' (R6) timer typestate: at most one live timeout. (R7) one lock per object and loop: _ensure_lock creates a lock only when none exists or the loop changed, and nobody else rebinds _lock / _running_loop. (R8) datagram transport with keep-alive off: on no path is the lock released with the socket of this activation still open while another task can run.'
    ' (R9) the transport is written only by _send_request (callbacks do not transmit).'
    " (R1, foreign-writer) the in-flight attributes of a protocol object are assigned only by the protocol classes' own methods, never through another reference (e.g. protocol.command = ... in execute)."
    ' (R10, shared with C05.R5) every scheduled timeout waits self.timeout: no transmission is abandoned, and the lock handed on, while its answer is still due.'
    ' (R11, shared with C08.R6) no loop callback schedules a method of the protocol object after completing the response future.'
    " (R12, shared with C04.R11) each caller's own request is what goes out under its lock, first time and on every retry."
)

INFLIGHT = ("command", "response_future", "_partial_data", "_partial_missing", "_timer")


def check(ctx: Ctx, rep: Report):
    rep.rule("C06.R1", "in-flight state is bound and the transport written only inside the locked region (who-may-call)", 8)
    rep.rule("C06.R9", "the transport is written only by _send_request, inside the locked region (callbacks do not transmit)", 2)
    from .proto import only_send_request_transmits as _shared_C06_R9, proto_classes as _pcs
    for _ci in _pcs(ctx):
        _shared_C06_R9(ctx, rep, "C06.R9", _ci)
    rep.rule("C06.R2", "acquire/release pairing on every exit of send_request and TcpInverterProtocol.close", 20)
    rep.rule("C06.R3", "the lock is released before every recursive retry and nothing is sent in between", 3)
    rep.rule("C06.R4", "an unlocked transport close in task context follows a lock-held region without an intervening suspension", 4)
    rep.rule("C06.R5", "send_request awaits and returns the future created by this activation", 2)
    rep.rule("C06.R6", "at most one live timeout per protocol object: a timer is armed only after the previous handle was cancelled, fired or is absent; receive paths that complete a request have cancelled it", 6)
    rep.rule("C06.R8", "datagram transport with keep-alive off: the socket is closed before the lock is handed to another task", 1)
    rep.rule("C06.R7", "one lock per protocol object and event loop: _ensure_lock creates a lock only when none exists or the running loop changed", 2)
    r7(ctx, rep)
    rep.rule("C06.R10", "a transmission is not abandoned (and the lock not handed to the next caller) before its configured timeout: every scheduled timeout waits self.timeout (shared with C05.R5)", 1)
    from .proto import timeout_delays
    timeout_delays(ctx, rep, "C06.R10")
    rep.rule("C06.R11", "nothing is scheduled on the protocol object after a request was completed: a deferred close / timeout would cancel the next lock holder's request (shared with C08.R6)", 6)
    from .proto import no_deferred_after_completion
    no_deferred_after_completion(ctx, rep, "C06.R11")
    rep.rule("C06.R12", "each caller's own request is what goes out under its lock, first time and on every retry (shared with C04.R11)", 2)
    from .proto import retry_resends_own_command
    retry_resends_own_command(ctx, rep, "C06.R12")
    foreign_writers(ctx, rep, "C06.R1")
    ms = ctx.memo("maysuspend", lambda: MaySuspend(ctx.prog, ctx.res))
    for ci in proto_classes(ctx):
        r1(ctx, rep, ci)
        lock_typestate(ctx, rep, ci, method(ctx, ci, "send_request"), ms)
        cl = ci.methods.get("close")
        if cl is not None:
            lock_typestate(ctx, rep, ci, cl, ms)
        r5(ctx, rep, ci)
        r6(ctx, rep, ci)
        r8(ctx, rep, ci)
    r4_execute(ctx, rep, ms)


def foreign_writers(ctx, rep, rule: str):
    """No code outside the protocol classes' own methods assigns the in-flight attributes of a protocol object
    (``protocol.command = ...`` in a caller replaces the validator / future of a request another task has in flight)."""
    prog, res = ctx.prog, ctx.res
    protos = list.__iter__(proto_classes(ctx))
    protos = list(protos)
    base = [c for ci in protos for c in prog.mro(ci) if hasattr(c, "methods") and any(a in INFLIGHT for m in c.methods.values() for n in ast.walk(m.node) if isinstance(n, ast.stmt) for a, _, _ in self_store(n))]
    n = 0
    for f in res.all_funcs():
        own = f.cls is not None and any(f.cls is c for c in base + protos)
        for node in res._own_nodes(f):
            tgts = []
            if isinstance(node, ast.Assign):
                tgts = node.targets
            elif isinstance(node, (ast.AugAssign, ast.AnnAssign)):
                tgts = [node.target]
            elif isinstance(node, ast.Delete):
                tgts = node.targets
            flat = []
            for t in tgts:
                flat.extend(t.elts if isinstance(t, (ast.Tuple, ast.List)) else [t])
            for t in flat:
                if not (isinstance(t, ast.Attribute) and t.attr in INFLIGHT):
                    continue
                if isinstance(t.value, ast.Name) and t.value.id == "self" and f.cls is not None:
                    continue          # a class's own attribute: the protocol classes' writers are judged by writer:* above
                types = res.expr_types(t.value, f)
                insts = [x[1] for x in types if x[0] == "inst"]
                may_be_proto = not insts or any(prog.is_subclass(c, b) or prog.is_subclass(b, c) for c in insts for b in protos)
                n += 1
                rep.check(not may_be_proto, rule, "foreign-writer:%s:%s" % (f.short, norm(t)), f.loc(node),
                          "%s assigns %s of a non-protocol object" % (f.short, norm(t)),
                          bad="%s assigns %s of a protocol object from outside the protocol's locked region: the validator / future of a request in flight is replaced" % (f.short, norm(t)))
    rep.check(True, rule, "foreign-writer:scan", "goodwe/", "in-flight attributes %s are assigned on a non-self receiver at %d sites, none of them a protocol object" % (list(INFLIGHT), n))


# ----------------------------------------------------------------------- R1
def r1(ctx, rep, ci):
    prog, res = ctx.prog, ctx.res
    cbs = loop_callbacks(ctx, ci)
    sr = method(ctx, ci, "send_request")
    allowed_writers = {"__init__", "_send_request", "_max_retries_reached", "_close_transport"}
    classes = [c for c in prog.mro(ci) if hasattr(c, "methods")]
    from ..inventory import KNOWN_FUNCS, is_known

    def effects(m, depth=0):
        """(stores of in-flight attributes [(attr, value)], transmits) of m, including the helpers a later change
        extracted (functions outside the pinned inventory are transparent: their effects belong to their callers)."""
        st, snd = [], False
        for n in ast.walk(m.node):
            if isinstance(n, ast.stmt):
                for a, v, _ in self_store(n):
                    if a in INFLIGHT:
                        st.append((a, v))
            if isinstance(n, ast.Call):
                if (call_chain(n) or ())[:2] == ("self", "_transport") and (call_chain(n) or ("",))[-1] in ("sendto", "write"):
                    snd = True
                elif depth < 4:
                    for g in res.resolve_call(n, m).funcs:
                        if not is_known(g, prog) and not g.is_lambda and g is not m:
                            st2, snd2 = effects(g, depth + 1)
                            st.extend(st2)
                            snd = snd or snd2
        return st, snd

    for c in classes:
        for m in c.methods.values():
            if m in cbs or (not is_known(m, prog) and res.callers_of(m)):
                continue   # a called helper outside the inventory is accounted to its callers; an uncalled one is an entry point
            all_stores, sends = effects(m)
            stores = set()
            for a, v in all_stores:
                if m.name == "_close_transport" and isinstance(v, ast.Constant) and v.value in (None, 0, False):
                    continue   # clearing state while closing binds no request
                stores.add(a)
            if not stores and not sends:
                continue
            ok = m.name in allowed_writers and not (m.name == "_close_transport" and (stores - {"_timer"} or sends))
            rep.check(ok, "C06.R1", "writer:%s.%s" % (ci.name, m.name), m.loc(),
                      "%s binds in-flight state %s%s and is one of the locked-region helpers" % (m.short, sorted(stores), " and transmits" if sends else ""),
                      bad="%s binds in-flight state %s%s outside the helpers that run under the request lock" % (m.short, sorted(stores), " / transmits" if sends else ""))
    # the helpers are called only from send_request of the same class (task context)
    for hname in ("_send_request", "_max_retries_reached"):
        h = method(ctx, ci, hname)
        for ct in res.callers_of(h):
            caller = ct.caller
            if caller.cls is not None and caller.cls is not ci and not prog.is_subclass(ci, caller.cls):
                continue  # a call in the sibling class resolves here only through the shared base
            ok = only_reached_from(ctx, caller, [ctx.prog.find_method(c, "send_request") for c in list.__iter__(proto_classes(ctx))])
            rep.check(ok, "C06.R1", "caller:%s.%s<-%s" % (ci.name, hname, caller.short), caller.loc(ct.node),
                      "%s is called from %s.send_request" % (hname, ci.name),
                      bad="%s is called from %s, outside the locked region of send_request" % (h.short, caller.short))
    # inside send_request the helper calls happen with the lock held (checked by the typestate, event 'inner_send'/'max_retries')


# ----------------------------------------------------------------- typestate
def lock_typestate(ctx, rep, ci, fn: FuncInfo, ms: MaySuspend):
    """Replay every path of fn with state (held, fresh): held = this activation owns the lock; fresh = no suspension
    since the lock was last known to be free or owned by this activation."""
    prog = ctx.prog
    rep.analysed_add("functions", fn.qualname)
    paths = protocol_paths(ctx, fn)
    is_send = fn.name == "send_request"
    nexits = 0
    seen_keys = set()
    for p in paths:
        held, fresh = False, True
        infeasible = False
        problems: List[str] = []
        released_at: Optional[int] = None
        sent_since_release = False
        for i, ev in enumerate(p.events):
            t = tags(ev)
            if ev.kind == "await":
                inner = ev.node.value
                suspends = ms.await_suspends(ev.node, fn)
                is_acquire = isinstance(inner, ast.Call) and (call_chain(inner) or ("",))[-1] == "acquire"
                is_rec = isinstance(inner, ast.Call) and call_chain(inner) == ("self", "send_request")
                if is_acquire:
                    if held:
                        problems.append("acquires the lock while already holding it (asyncio.Lock is not re-entrant: deadlock)")
                    held, fresh = True, True
                elif is_rec:
                    # the inner activation acquires and releases on its own; when it returns no other task has run since its release
                    fresh = True
                elif suspends and not held:
                    fresh = False
                continue
            if ev.kind == "raise" and isinstance(ev.node, ast.Await) and not held and ms.await_suspends(ev.node, fn):
                # an await that ended with an exception (deadline of an enclosing timeout scope, cancellation) had suspended:
                # while waiting - for the lock above all - other tasks ran and one of them may hold the lock now
                inner_ = ev.node.value
                # (the retry recursion releases in its own finally, nothing runs between that and the exception arriving here)
                fresh = isinstance(inner_, ast.Call) and call_chain(inner_) == ("self", "send_request")
                continue
            if ev.kind == "test" and isinstance(ev.node, ast.Call) and "locked" in t:
                if ev.data is True and not held and fresh:
                    infeasible = True   # nobody else can have taken the lock without a suspension
                    break
                if ev.data is False and held:
                    infeasible = True
                    break
                continue
            if ev.kind == "test" and chain(ev.node) == ("self", "_lock") and ev.data is False and held:
                infeasible = True
                break
            if ev.kind == "call":
                if "release" in t:
                    guarded = any(e2.kind == "test" and isinstance(e2.node, ast.Call) and "locked" in tags(e2) and e2.data is True
                                  for e2 in p.events[max(0, i - 4):i])
                    if not held:
                        if not guarded:
                            problems.append("releases a lock this activation does not hold (%s)" % fn.loc(ev.node))
                            ctx._cache.setdefault("lock-unheld-release", {})[(fn.qualname, p.describe(40), i)] = (fn, p, i)
                        elif not fresh:
                            problems.append("releases a lock that another task may have acquired meanwhile (%s): a suspension separates it from the point the lock was free" % fn.loc(ev.node))
                    held = False
                    fresh = True
                    released_at = i
                    sent_since_release = False
                if "recursive" in t and is_send:
                    key = "rec:%s:%s" % (fn.short, fn.loc(ev.node))
                    ok = not held and not sent_since_release
                    if key not in seen_keys or not ok:
                        seen_keys.add(key)
                        rep.check(ok, "C06.R3", key + (":" + p.describe(5) if not ok else ""), fn.loc(ev.node),
                                  "retry re-enters send_request with the lock released and nothing sent since",
                                  bad="%s re-enters send_request %s [path %s]" % (fn.short, "while still holding the lock (deadlock)" if held else "after transmitting outside the lock", p.describe(8)))
                if "inner_send" in t or "max_retries" in t:
                    if "inner_send" in t and released_at is not None:
                        sent_since_release = True
                    key = "locked-helper:%s:%s" % (fn.short, norm(ev.node)[:40])
                    if not held:
                        rep.violation("C06.R1", key + ":" + p.describe(5), fn.loc(ev.node), "%s calls %s without holding the request lock [path %s]" % (fn.short, norm(ev.node)[:50], p.describe(8)))
                    elif key not in seen_keys:
                        seen_keys.add(key)
                        rep.ok("C06.R1", key, fn.loc(ev.node), "%s runs with the lock held" % norm(ev.node)[:50])
                if "close_transport" in t:
                    key = "close:%s:%s" % (fn.short, fn.loc(ev.node))
                    ok = held or fresh
                    if key not in seen_keys or not ok:
                        seen_keys.add(key)
                        rep.check(ok, "C06.R4", key + (":" + p.describe(5) if not ok else ""), fn.loc(ev.node),
                                  "_close_transport() runs with the lock held or before any other task could run",
                                  bad="%s closes the transport (cancelling whatever request is in flight) without the lock and after a suspension: another task's request may be the one in flight [path %s]" % (fn.short, p.describe(8)))
        if infeasible:
            continue
        nexits += 1
        if held:
            problems.append("exits (%s) still holding the lock: every later request blocks forever" % p.end)
        key = "exit:%s:%s" % (fn.short, p.describe(10))
        rep.check(not problems, "C06.R2", key, fn.loc(p.end_node) if p.end_node is not None else fn.loc(), "exit with the lock released",
                  bad="%s: %s [path %s]" % (fn.short, "; ".join(problems), p.describe(10)))
    if nexits == 0:
        raise AnalysisError("%s has no feasible path" % fn.short)


# ----------------------------------------------------------------------- R4 (execute -> close)
def r4_execute(ctx, rep, ms: MaySuspend):
    prog, res = ctx.prog, ctx.res
    execute = prog.cls("ProtocolCommand").methods["execute"]
    rep.analysed_add("functions", execute.qualname)
    # which close() implementations do not take the lock themselves
    unlocked = []
    for ci in proto_classes(ctx):
        cl = prog.find_method(ci, "close")
        if cl is None:
            raise AnalysisError("%s has no close()" % ci.name)
        takes_lock = any(isinstance(n, ast.Call) and (call_chain(n) or ("",))[-1] == "acquire" for n in ast.walk(cl.node))
        if not takes_lock:
            unlocked.append((ci, cl))
            rep.check(not ms.of(cl), "C06.R4", "close-no-suspend:%s" % ci.name, cl.loc(), "%s.close() cannot suspend before closing" % ci.name,
                      bad="%s.close() may suspend before it closes the transport without the lock" % ci.name)
    mr = net_mayraise(ctx)
    paths = enumerate_paths(prog, execute, mr.oracle)
    n = 0
    for p in paths:
        fresh = False
        for ev in p.events:
            if ev.kind == "await":
                inner = ev.node.value
                cc = call_chain(inner) if isinstance(inner, ast.Call) else None
                if cc and cc[-1] == "send_request":
                    fresh = True      # returned from the locked region, nothing else ran since its release
                elif cc and cc[-1] == "close":
                    n += 1
                    if unlocked:
                        rep.check(fresh, "C06.R4", "execute-close:%s" % p.describe(6), execute.loc(ev.node),
                                  "protocol.close() follows send_request without an intervening suspension",
                                  bad="ProtocolCommand.execute suspends between send_request and the unlocked protocol.close(): another task's request can be in flight and gets cancelled [path %s]" % p.describe(8))
                elif ms.await_suspends(ev.node, execute):
                    fresh = False
            if ev.kind == "raise" and isinstance(ev.node, ast.Await) and isinstance(ev.node.value, ast.Call) \
                    and (call_chain(ev.node.value) or ("",))[-1] == "send_request":
                fresh = True
    if n == 0:
        raise AnalysisError("execute never closes the protocol")


# ----------------------------------------------------------------------- R5
def r5(ctx, rep, ci):
    """On every path of send_request that transmits: one future is created, that object is handed to _send_request,
    awaited, and - when the wait completes normally - returned (symbolic values, so the three steps may sit in a helper)."""
    from ..replay import Replay
    fn = method(ctx, ci, "send_request")
    ok, why = True, ""
    nsend = 0
    for p in protocol_paths(ctx, fn):
        sends = [i for i, ev in enumerate(p.events) if ev.kind == "call" and "inner_send" in tags(ev)]
        if not sends:
            continue
        nsend += 1
        rp = Replay(ctx.prog, fn, p)
        i = sends[0]
        created = [k for k, ev in enumerate(p.events[:i]) if ev.kind == "call" and (call_chain(ev.node) or ("",))[-1] == "create_future"]
        call = p.events[i].node
        if len(created) != 1:
            ok, why = False, "expected one future created per activation before the transmission, found %d" % len(created)
            break
        fut = rp.sym_at(created[0] + 1).lin(p.events[created[0]].node)
        if len(call.args) < 2 or rp.sym_at(i).lin(call.args[1]) != fut:
            ok, why = False, "does not hand its own future to _send_request"
            break
        awaited = [k for k in range(i + 1, len(p.events)) if p.events[k].kind in ("await", "raise") and isinstance(p.events[k].node, ast.Await)
                   and not isinstance(p.events[k].node.value, ast.Call)]
        if not awaited or any(rp.sym_at(k).lin(p.events[k].node.value) != fut for k in awaited):
            ok, why = False, "awaits %s instead of its own future" % (", ".join(norm(p.events[k].node.value) for k in awaited) or "nothing")
            break
        completed = not any(ev.kind in ("raise", "catch") for ev in p.events[i:])
        if completed and not (p.end == "return" and p.end_node.value is not None and rp.sym.lin(p.end_node.value) == fut):
            ok, why = False, "returns %s instead of its own future" % (norm(p.end_node.value) if p.end == "return" and p.end_node.value is not None else "nothing")
            break
    if ok and nsend == 0:
        ok, why = False, "no path of send_request transmits"
    if ok:
        # _send_request binds that parameter as the in-flight future
        h = method(ctx, ci, "_send_request")
        p2 = h.params[2] if len(h.params) > 2 else None
        binds, nchecked = p2 is not None, 0
        attr = ast.Attribute(value=ast.Name(id="self", ctx=ast.Load()), attr="response_future", ctx=ast.Load())
        for hp in protocol_paths(ctx, h):
            if hp.end == "raise" or not any(ev.kind == "call" and "send" in tags(ev) for ev in hp.events):
                continue
            nchecked += 1
            hr = Replay(ctx.prog, h, hp)
            if hr.sym.lin(attr) != hr.sym_at(0).lin(ast.Name(id=p2, ctx=ast.Load())):
                binds = False
        binds = binds and nchecked > 0
        if not binds:
            ok, why = False, "_send_request does not bind the future it is given as self.response_future"
    rep.check(ok, "C06.R5", "own-future:%s" % ci.name, fn.loc(), "%s.send_request waits on and returns the future of this activation" % ci.name,
              bad="%s.send_request %s: a caller could receive another request's answer" % (ci.name, why))


# ----------------------------------------------------------------------- R8
def r8(ctx, rep, ci):
    """Datagram transport, keep-alive off: a socket on which a request went out is never left open when the lock is
    given up.  Answers carry no request identity beyond their framing, so a late answer to a timed-out request arriving
    on a socket that the next lock holder re-uses is taken for that caller's answer."""
    prog = ctx.prog
    if not any(isinstance(b, str) and b == "asyncio.DatagramProtocol" for b in prog.mro(ci)):
        return
    fn = method(ctx, ci, "send_request")
    n = 0
    bad = None
    for p in protocol_paths(ctx, fn):
        open_ = False
        ka_true = False        # keep_alive seen true since the last suspension
        for i, ev in enumerate(p.events):
            t0 = tags(ev)
            if ev.kind == "call" and (t0 & {"connect", "inner_send", "create_endpoint", "recursive"}):
                open_ = True
            elif ev.kind == "call" and "close_transport" in t0:
                open_ = False
            elif ev.kind == "test" and chain(ev.node) == ("self", "keep_alive"):
                ka_true = ev.data is True
            elif ev.kind in ("await", "raise") and isinstance(ev.node, ast.Await):
                ka_true = False
            if not (ev.kind == "call" and "release" in t0):
                continue
            n += 1
            if not open_ or ka_true:
                continue          # already closed (close before release) / keep-alive is on / nothing opened yet
            ok = False
            for e2 in p.events[i + 1:]:
                t = tags(e2)
                if e2.kind == "call" and "close_transport" in t:
                    ok = True
                    break
                if e2.kind == "test" and chain(e2.node) == ("self", "keep_alive") and e2.data is True:
                    ok = True
                    break
                if e2.kind in ("await", "raise") and isinstance(e2.node, ast.Await):
                    break         # another task may run now
                if e2.kind == "call" and "acquire" in t:
                    break
            else:
                # the function ends without a suspension: execute() closes right after (C10.R3), nothing can interleave
                ok = any(e2.kind == "call" and "close_transport" in tags(e2) for e2 in p.events[i + 1:]) or \
                    any(e2.kind == "test" and chain(e2.node) == ("self", "keep_alive") and e2.data is True for e2 in p.events[i + 1:])
            if not ok and bad is None:
                bad = (p, ev)
    if n == 0:
        raise AnalysisError("%s.send_request never releases the lock" % ci.name)
    rep.check(bad is None, "C06.R8", "no-open-socket-across-release:%s" % ci.name, fn.loc(),
              "%s.send_request: with keep-alive off the socket is closed before another task can take the lock (%d releases)" % (ci.name, n),
              bad="%s.send_request gives up the lock at line %s with keep-alive off and the socket still open: the next lock holder sends on the same socket and a late answer to the timed-out request is accepted as its answer [path %s]" % (
                  ci.name, bad[1].node.lineno if bad else "?", bad[0].describe(8) if bad else ""))


# ----------------------------------------------------------------------- R6
def r6(ctx, rep, ci):
    """A stale timeout callback acts on whatever request is in flight when it fires (it cancels self.response_future),
    so a live timer must never be orphaned: overwriting self._timer needs the old handle cancelled / fired / absent."""
    cbs = [f for f in loop_callbacks(ctx, ci) if f.name in ("datagram_received", "data_received", "_timeout_mechanism")]
    for cb in cbs:
        sites = {}
        ends = {}
        for p in protocol_paths(ctx, cb):
            # typestate of the handle referenced by self._timer: 'live?' at entry (the callback may run with a timer armed)
            state = "fired" if cb.name == "_timeout_mechanism" else "maybe-live"
            for i, ev in enumerate(p.events):
                t = tags(ev)
                if ev.kind == "test" and chain(ev.node) == ("self", "_timer") and ev.data is False:
                    state = "absent"
                if ev.kind == "call" and "timer_cancel" in t:
                    state = "cancelled"
                if ev.kind == "stmt" and "store:_timer" in t:
                    v = getattr(ev.node, "value", None)
                    if isinstance(v, ast.Call) and (call_chain(v) or ("",))[-1] in ("call_later", "call_at"):
                        st = sites.setdefault(id(ev.node), {"node": ev.node, "ok": True, "path": None})
                        if state == "maybe-live":
                            st["ok"], st["path"] = False, p
                        state = "maybe-live"
                    elif isinstance(v, ast.Constant) and v.value is None:
                        # forgetting the handle does not stop the timer
                        if state == "maybe-live":
                            state = "orphaned"
                if ev.kind == "call" and (t & {"fut_set_result", "fut_set_exception"}) and cb.name != "_timeout_mechanism":
                    e = ends.setdefault(id(ev.node), {"node": ev.node, "ok": True, "path": None})
                    if state in ("maybe-live", "orphaned"):
                        e["ok"], e["path"] = False, p
        for st in sites.values():
            rep.check(st["ok"], "C06.R6", "arm:%s:%s" % (cb.short, norm(st["node"])[:60]), cb.loc(st["node"]),
                      "%s arms a timer only after cancelling the previous one" % cb.short,
                      bad="%s overwrites self._timer with a new timer while the previous one may still be live: the stale timeout later cancels whichever request is then in flight [path %s]" % (
                          cb.short, st["path"].describe(8) if st["path"] else ""))
        for e in ends.values():
            rep.check(e["ok"], "C06.R6", "end:%s:%s" % (cb.short, norm(e["node"])[:60]), cb.loc(e["node"]),
                      "%s completes the request with its timeout cancelled" % cb.short,
                      bad="%s completes the request (%s) and leaves its timeout armed: it fires during a later request and cancels that one [path %s]" % (
                          cb.short, norm(e["node"])[:50], e["path"].describe(8) if e["path"] else ""))


# ----------------------------------------------------------------------- R7
def r7(ctx, rep):
    """Mutual exclusion needs all callers on one loop to contend for the same Lock object."""
    prog = ctx.prog
    base = prog.cls("InverterProtocol")
    fn = base.methods.get("_ensure_lock")
    if fn is None:
        raise AnalysisError("InverterProtocol._ensure_lock not found")
    paths = [p for p in enumerate_paths(prog, fn, no_raise) if feasible(p)]
    nreuse = ncreate = 0
    for p in paths:
        creates = [i for i, ev in enumerate(p.events) if ev.kind == "stmt" and "store:_lock" in tags(ev)]
        lock_falsy = any(ev.kind == "test" and chain(ev.node) == ("self", "_lock") and ev.data is False for ev in p.events)
        loop_changed = any(ev.kind == "test" and isinstance(ev.node, ast.Compare) and "_running_loop" in norm(ev.node) and
                           ((isinstance(ev.node.ops[0], (ast.Eq, ast.Is)) and ev.data is False) or (isinstance(ev.node.ops[0], (ast.NotEq, ast.IsNot)) and ev.data is True))
                           for ev in p.events)
        if creates:
            ncreate += 1
            before = p.events[:creates[0]]
            justified = any(ev.kind == "test" and chain(ev.node) == ("self", "_lock") and ev.data is False for ev in before) or \
                any(ev.kind == "test" and isinstance(ev.node, ast.Compare) and "_running_loop" in norm(ev.node) for ev in before) and loop_changed
            value_ok = isinstance(p.events[creates[0]].node.value, ast.Call) and norm(p.events[creates[0]].node.value.func) == "asyncio.Lock"
            rep.check(justified and value_ok, "C06.R7", "create:%s" % p.describe(), fn.loc(p.events[creates[0]].node),
                      "a new asyncio.Lock is created only when none exists or the loop changed",
                      bad="_ensure_lock creates a new lock although one exists for the running loop: concurrent callers no longer contend for the same lock [path %s]" % p.describe())
            ret = p.end == "return" and p.end_node.value is not None and norm(p.end_node.value) == "self._lock"
            rep.check(ret, "C06.R7", "create-returns:%s" % p.describe(), fn.loc(), "the new lock is the one returned", bad="_ensure_lock does not return the lock it stored [path %s]" % p.describe())
        else:
            nreuse += 1
            ret = p.end == "return" and p.end_node.value is not None and norm(p.end_node.value) == "self._lock"
            rep.check(ret and not lock_falsy, "C06.R7", "reuse:%s" % p.describe(), fn.loc(), "the existing lock is returned when the loop is unchanged",
                      bad="_ensure_lock has a path that neither creates nor returns the stored lock [path %s]" % p.describe())
    # the decision "same lock or new lock" rests on self._lock / self._running_loop: nobody else may rebind them
    for ci in [base] + list(prog.all_subclasses(base, include_self=False)):
        for m in ci.methods.values():
            if m.name == "__init__" or only_reached_from(ctx, m, [fn]):
                continue
            for n in ast.walk(m.node):
                if isinstance(n, ast.stmt):
                    hit = [a for a, _, _ in self_store(n) if a in ("_lock", "_running_loop")]
                    if hit:
                        rep.violation("C06.R7", "lock-state-writer:%s:%s" % (m.short, hit[0]), m.loc(n),
                                      "%s rebinds self.%s: _ensure_lock then takes the running loop for a new one and hands the next caller a fresh lock while earlier callers still hold or wait on the old one" % (m.short, hit[0]))
    rep.ok("C06.R7", "lock-state-writers", fn.loc(), "self._lock / self._running_loop are bound only by __init__ and _ensure_lock")
    if nreuse == 0:
        rep.violation("C06.R7", "no-reuse", fn.loc(), "_ensure_lock never re-uses the existing lock: every caller gets its own lock and requests are not serialised")
    if ncreate == 0:
        raise AnalysisError("_ensure_lock never creates a lock")
