"""Effect summaries over the call graph: may_raise (exception escape sets)
and may_suspend.  Monotone fix-points; primitives are supplied by the rule."""
from __future__ import annotations

import ast
from typing import Callable, Dict, Iterable, List, Optional, Set, Tuple

from . import AnalysisError
from .model import Program, FuncInfo, ClassInfo, node_src, norm
from .calls import Resolver, CallTarget
from .paths import eval_order

# prim(node, fn, resolver) -> iterable of exception classes raised by the *primitive* at this node
Prim = Callable[[ast.AST, FuncInfo, Resolver], Iterable]


class MayRaise:
    """may_raise(f): classes of exceptions that can leave f.

    * seeds: explicit ``raise`` statements and the rule's primitive table;
    * propagation: a call raises what its package callees' summaries say (awaiting a
      coroutine call is the call; the rule's primitive decides what awaiting a future raises);
    * ``try``: an exception is dropped where a handler certainly matches it (class table),
      kept where it only may match; handler / else / finally bodies are outside the protection
      of their own try.
    """

    def __init__(self, prog: Program, res: Resolver, prim: Prim, ignore_calls: Optional[Callable[[CallTarget], bool]] = None):
        self.prog, self.res, self.prim = prog, res, prim
        self.ignore_calls = ignore_calls
        self.summary: Dict[str, Dict[object, Tuple]] = {}   # qualname -> {exc: witness}
        self._funcs: Dict[str, FuncInfo] = {}
        self._solve()

    # witness: (fn, node, callee_or_None)
    def _solve(self):
        funcs = self.res.all_funcs()
        for f in funcs:
            self.summary[f.qualname] = {}
            self._funcs[f.qualname] = f
        changed = True
        rounds = 0
        while changed:
            changed = False
            rounds += 1
            if rounds > 60:
                raise AnalysisError("may_raise fix-point did not converge")
            for f in funcs:
                new = self._escapes_block(f, f.body, {})
                cur = self.summary[f.qualname]
                for k, w in new.items():
                    if k not in cur:
                        cur[k] = w
                        changed = True

    def of(self, fn: FuncInfo) -> Dict[object, Tuple]:
        return self.summary.get(fn.qualname, {})

    def classes(self, fn: FuncInfo) -> List:
        return list(self.of(fn).keys())

    def at(self, node: ast.AST, fn: FuncInfo) -> Dict[object, Tuple]:
        """Exceptions that evaluating the Call/Await *node* itself may raise (not its sub-expressions)."""
        out: Dict[object, Tuple] = {}
        for exc in self.prim(node, fn, self.res):
            out.setdefault(exc, (fn, node, None))
        if isinstance(node, ast.Call):
            ct = self.res.resolve_call(node, fn)
            if self.ignore_calls is not None and self.ignore_calls(ct):
                return out
            for callee in ct.funcs:
                if callee.is_async:
                    continue  # creating a coroutine object raises nothing; the await does (see below)
                for exc in self.summary.get(callee.qualname, {}):
                    out.setdefault(exc, (fn, node, callee))
        elif isinstance(node, ast.Await):
            inner = node.value
            if isinstance(inner, ast.Call):
                ct = self.res.resolve_call(inner, fn)
                if self.ignore_calls is not None and self.ignore_calls(ct):
                    return out
                for callee in ct.funcs:
                    if callee.is_async:
                        for exc in self.summary.get(callee.qualname, {}):
                            out.setdefault(exc, (fn, node, callee))
        return out

    def oracle(self, node: ast.AST, fn: FuncInfo):
        """Oracle for the path enumerator."""
        return list(self.at(node, fn).keys())

    def chain(self, fn: FuncInfo, exc, limit: int = 12) -> List[str]:
        """Human readable witness: where the exception starts and how it travels up to fn."""
        out = []
        cur = fn
        seen = set()
        while cur is not None and len(out) < limit:
            w = self.summary.get(cur.qualname, {}).get(exc)
            if w is None or (cur.qualname in seen):
                break
            seen.add(cur.qualname)
            f, node, callee = w
            out.append("%s %s: %s" % (f.loc(node), f.short, norm(node)[:90]))
            cur = callee
        return out

    # ------------------------------------------------------------------ walk
    def _escapes_expr(self, fn, expr, hctx) -> Dict[object, Tuple]:
        out: Dict[object, Tuple] = {}
        if expr is None:
            return out
        for n in eval_order(expr):
            for exc, w in self.at(n, fn).items():
                out.setdefault(exc, w)
        return out

    def _escapes_block(self, fn, stmts, hctx) -> Dict[object, Tuple]:
        out: Dict[object, Tuple] = {}
        for st in stmts:
            for k, w in self._escapes_stmt(fn, st, hctx).items():
                out.setdefault(k, w)
        return out

    def _escapes_stmt(self, fn, st, hctx) -> Dict[object, Tuple]:
        out: Dict[object, Tuple] = {}

        def add(d):
            for k, w in d.items():
                out.setdefault(k, w)

        if isinstance(st, (ast.FunctionDef, ast.AsyncFunctionDef, ast.ClassDef)):
            return out
        if isinstance(st, ast.Raise):
            add(self._escapes_expr(fn, st.exc, hctx))
            if st.exc is None:
                for c in hctx.get("__current__", []):
                    out.setdefault(c, (fn, st, None))
            else:
                e = st.exc.func if isinstance(st.exc, ast.Call) else st.exc
                if isinstance(e, ast.Name) and e.id in hctx:
                    for c in hctx[e.id]:
                        out.setdefault(c, (fn, st, None))
                else:
                    try:
                        for c in self.prog.resolve_exc_expr(fn.module, e):
                            out.setdefault(c, (fn, st, None))
                    except AnalysisError:
                        raise AnalysisError("cannot resolve raised class in %s at %s" % (node_src(st), fn.loc(st)))
            return out
        if isinstance(st, ast.Try):
            body = self._escapes_block(fn, st.body, hctx)
            remaining: Dict[object, Tuple] = {}
            per_handler: List[Dict[object, Tuple]] = [dict() for _ in st.handlers]
            for exc, w in body.items():
                caught = False
                for i, h in enumerate(st.handlers):
                    m = self._match(fn, exc, h)
                    if m == "no":
                        continue
                    if m == "yes":
                        per_handler[i].setdefault(exc, w)
                        caught = True
                        break
                    # maybe: the subclass instances are caught, the rest travels on
                    for hc in self.prog.resolve_exc_expr(fn.module, h.type):
                        if self.prog.is_subclass(hc, exc):
                            per_handler[i].setdefault(hc, w)
                if not caught:
                    remaining.setdefault(exc, w)
            add(remaining)
            for i, h in enumerate(st.handlers):
                h2 = dict(hctx)
                h2["__current__"] = list(per_handler[i].keys())
                if h.name:
                    h2[h.name] = list(per_handler[i].keys())
                if not per_handler[i] and h.type is not None:
                    # handler never entered according to the summaries: its body is still analysed
                    # with the declared classes so that nothing is missed by an incomplete primitive table
                    decl = self.prog.resolve_exc_expr(fn.module, h.type)
                    h2["__current__"] = decl
                    if h.name:
                        h2[h.name] = decl
                    sub = self._escapes_block(fn, h.body, h2)
                    # ... but re-raises of the declared classes themselves are not reported
                    for k, w in sub.items():
                        if not any(k is d for d in decl):
                            out.setdefault(k, w)
                    continue
                add(self._escapes_block(fn, h.body, h2))
            add(self._escapes_block(fn, st.orelse, hctx))
            add(self._escapes_block(fn, st.finalbody, hctx))
            return out
        if isinstance(st, (ast.With, ast.AsyncWith)):
            # with contextlib.suppress(E): the listed classes (and their subclasses) do not leave the block
            sup = []
            for it in st.items:
                c = it.context_expr
                add(self._escapes_expr(fn, c, hctx))
                if isinstance(c, ast.Call) and (node_src(c.func) in ("suppress", "contextlib.suppress")):
                    for a in c.args:
                        sup.extend(self.prog.resolve_exc_expr(fn.module, a))
            body = self._escapes_block(fn, st.body, hctx)
            for exc, w in body.items():
                if sup and any(self.prog.is_subclass(exc, s_) for s_ in sup):
                    continue
                out.setdefault(exc, w)
            return out
        # generic: own expressions, then nested blocks
        for field, value in ast.iter_fields(st):
            if isinstance(value, list) and value and isinstance(value[0], ast.stmt):
                add(self._escapes_block(fn, value, hctx))
            elif isinstance(value, list):
                for v in value:
                    if isinstance(v, ast.withitem):
                        add(self._escapes_expr(fn, v.context_expr, hctx))
                    elif isinstance(v, ast.AST):
                        add(self._escapes_expr(fn, v, hctx))
            elif isinstance(value, ast.AST):
                add(self._escapes_expr(fn, value, hctx))
        return out

    def _match(self, fn, exc, handler) -> str:
        if handler.type is None:
            return "yes"
        hs = self.prog.resolve_exc_expr(fn.module, handler.type)
        if any(self.prog.is_subclass(exc, h) for h in hs):
            return "yes"
        if any(self.prog.is_subclass(h, exc) for h in hs):
            return "maybe"
        return "no"


def _is_awaited(call: ast.Call, fn: FuncInfo) -> bool:
    for n in ast.walk(fn.node):
        if isinstance(n, ast.Await) and n.value is call:
            return True
    return False


def parent_map(root: ast.AST) -> Dict[int, ast.AST]:
    pm: Dict[int, ast.AST] = {}
    for n in ast.walk(root):
        for c in ast.iter_child_nodes(n):
            pm[id(c)] = n
    return pm


class MaySuspend:
    """may_suspend(f): f contains an await that can yield to the event loop.

    Awaiting a package coroutine suspends iff that coroutine may suspend; awaiting anything
    else (future, lock.acquire(), sleep, wait_for, endpoint creation) is assumed to suspend."""

    def __init__(self, prog: Program, res: Resolver):
        self.prog, self.res = prog, res
        self.summary: Dict[str, bool] = {}
        funcs = res.all_funcs()
        for f in funcs:
            self.summary[f.qualname] = False
        changed = True
        while changed:
            changed = False
            for f in funcs:
                if self.summary[f.qualname]:
                    continue
                for n in res._own_nodes(f):
                    if isinstance(n, ast.Await) and self.await_suspends(n, f):
                        self.summary[f.qualname] = True
                        changed = True
                        break

    def await_suspends(self, node: ast.Await, fn: FuncInfo) -> bool:
        inner = node.value
        if isinstance(inner, ast.Call):
            ct = self.res.resolve_call(inner, fn)
            if ct.funcs and all(c.is_async for c in ct.funcs) and not ct.ext:
                return any(self.summary.get(c.qualname, True) for c in ct.funcs)
        return True

    def of(self, fn: FuncInfo) -> bool:
        return self.summary.get(fn.qualname, True)
